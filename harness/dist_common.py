"""Case generation, execution of the real bct distance/path routines, independent oracles and Lean-line
construction shared by C03 (distances) and C12 (returned paths).

A *case* is a dict {kind, A, ...}:
  kind='bin'  binary adjacency matrix            -> distance_bin, breadthdist, breadth, reachdist, distance_wei,
                                                    distance_wei_floyd, efficiency_bin, charpath, rout_efficiency
  kind='wei'  matrix of connection lengths       -> distance_wei, distance_wei_floyd(+retrieve_shortest_path for all s,t),
              (palette {1,2,3} or {1,2,4}, or       charpath, rout_efficiency; if all lengths are powers of two also the
              dyadic)                               weight matrix W=1/L with transform 'inv', efficiency_wei(W) and 'log'
  kind='log'  weights in (0,1] (multiples of 1/8)-> distance_wei_floyd(W,'log') + retrieve, rout_efficiency(W,'log'); oracle by tolerance
  kind='nav'  lengths L, nodal distances D, max_hops -> navigation_wu
  kind='bad'  malformed stream (bad transform, self-loops): rejection / correspondence only, no property claim
`run_case` returns {'fails': [(func, predicate, info)], 'lines': [(lean line, spec)], 'stats': {...}} where spec is a list
of (key, mode, value) with mode 'exact' (canonical string) or 'tol'/'tolmat' (floats compared to the model's exact rationals).
"""
import math
from fractions import Fraction
import numpy as np
from common import *  # noqa

INF = float('inf')
TOL = 1e-9


# ------------------------------------------------------------------ canonical strings

def fstr(x):
    x = float(x)
    if math.isnan(x):
        return 'nan'
    if math.isinf(x):
        return 'inf' if x > 0 else '-inf'
    f = Fraction(x)
    return str(f.numerator) if f.denominator == 1 else '%d/%d' % (f.numerator, f.denominator)


def mstr(M):
    M = np.asarray(M, dtype=float)
    return ','.join(fstr(x) for x in M.ravel()) or '-'


def istr(M):
    return ','.join(str(int(x)) for x in np.asarray(M).ravel()) or '-'


def pstr(p):
    p = [int(x) for x in np.asarray(p).ravel()] if len(p) else []
    return '.'.join(map(str, p)) or '-'


def parse_ext(s):
    if s == 'inf':
        return INF
    if s == 'nan':
        return float('nan')
    return float(Fraction(s))


def close(a, b):
    if math.isnan(a) or math.isnan(b):
        return math.isnan(a) and math.isnan(b)
    if math.isinf(a) or math.isinf(b):
        return a == b
    return abs(a - b) <= TOL * max(1.0, abs(b))


def compare(out, spec):
    """model output line vs expectation -> None if it agrees else a short description"""
    if out.startswith('error='):
        if len(spec) == 1 and spec[0][0] == 'error':
            return None if out == 'error=' + spec[0][2] else 'model %s, impl error=%s' % (out, spec[0][2])
        return 'model ' + out
    d = kv(out)
    for key, mode, val in spec:
        if key == 'error':
            return 'impl raised %s, model answered' % val
        if key not in d:
            return 'missing key ' + key
        if mode == 'exact':
            if d[key] != val:
                return '%s: model %s impl %s' % (key, d[key][:200], val[:200])
        elif mode == 'tol':
            if not close(float(val), parse_ext(d[key])):
                return '%s: model %s impl %r' % (key, d[key], val)
        elif mode == 'tolmat':
            mv = [parse_ext(x) for x in d[key].split(',')] if d[key] != '-' else []
            if len(mv) != len(val) or not all(close(float(a), b) for a, b in zip(val, mv)):
                return '%s: model %s impl %s' % (key, d[key][:200], str(val)[:200])
    return None


# ------------------------------------------------------------------ independent oracles

def minplus_closure(L):
    """L: lengths with inf for 'no connection' (any diagonal). Returns D with D[i,i]=0 and D[i,j] = min walk length
    (repeated min-plus squaring, independent of bct's algorithms)."""
    n = len(L)
    D = np.array(L, dtype=float)
    D[np.arange(n), np.arange(n)] = 0
    for _ in range(max(1, int(math.ceil(math.log2(max(n, 2)))) + 1)):
        D = np.min(D[:, :, None] + D[None, :, :], axis=1)
    return D


def bfs_oracle(A):
    """hop distances by plain breadth-first search on adjacency lists; inf if unreachable, 0 on the diagonal"""
    n = len(A)
    nb = [[j for j in range(n) if A[i][j] != 0] for i in range(n)]
    D = np.full((n, n), INF)
    for s in range(n):
        D[s, s] = 0
        frontier = [s]; d = 0
        while frontier:
            d += 1; nxt = []
            for u in frontier:
                for v in nb[u]:
                    if D[s, v] == INF:
                        D[s, v] = d; nxt.append(v)
            frontier = nxt
    return D


def cycle_oracle(A):
    """length of the shortest closed walk through each node (inf if none) — what breadthdist/reachdist put on the diagonal"""
    n = len(A)
    D = bfs_oracle(A)
    out = np.full(n, INF)
    for i in range(n):
        for j in range(n):
            if A[j][i] != 0:
                out[i] = min(out[i], D[i, j] + 1)
    return out


def exact_k_lengths(L, kmax):
    """best[k][i,j] = min length of a walk from i to j with exactly k edges (k = 1..kmax)"""
    best = [None, np.array(L, dtype=float)]
    for _ in range(2, kmax + 1):
        best.append(np.min(best[-1][:, :, None] + np.asarray(L, dtype=float)[None, :, :], axis=1))
    return best


def hopcount_ok(best, dist, i, j, h, tol=0.0):
    h = int(h)
    if h < 1 or h >= len(best):
        return False
    return abs(best[h][i, j] - dist) <= tol * max(1.0, abs(dist))


def offdiag(n):
    return ~np.eye(n, dtype=bool)


def mean_offdiag(D):
    n = len(D)
    return float(np.sum(D[offdiag(n)]) / (n * n - n))


def meaninv_offdiag(D):
    n = len(D)
    with np.errstate(divide='ignore'):
        return float(sum(0.0 if math.isinf(x) else 1.0 / x for x in D[offdiag(n)]) / (n * n - n))


def check_path(path, s, t, Lm, hops_st, spl_st, tol=0.0):
    """edge-by-edge validation of one retrieved path; returns the name of the first failed clause or None.
    Lm: length matrix with inf = no connection"""
    p = [int(x) for x in np.asarray(path).ravel()] if len(path) else []
    if not p:
        return 'nonempty-but-empty'
    if p[0] != s:
        return 'starts-at-source'
    if p[-1] != t:
        return 'ends-at-target'
    tot = 0.0
    for a, b in zip(p[:-1], p[1:]):
        if not (0 <= a < len(Lm) and 0 <= b < len(Lm)) or math.isinf(Lm[a][b]):
            return 'existing-connections'
        tot += Lm[a][b]
    if len(p) - 1 != int(hops_st):
        return 'hop-count'
    if abs(tot - spl_st) > tol * max(1.0, abs(spl_st)):
        return 'total-length'
    return None


# ------------------------------------------------------------------ running the real code

def _lenmat(A):
    Lm = np.array(A, dtype=float)
    Lm[Lm == 0] = INF
    return Lm


def _bcall(res, name, f, X, *a, t=5.0):
    """call f(X, *a) under the watchdog (10x retry) and check that the array object actually passed is left untouched"""
    X0 = X.copy()
    res['_dtype'] = str(X0.dtype)
    st, out = call(f, X, *a, t=t, retry=10)
    same = X.shape == X0.shape and X.dtype == X0.dtype and bool(np.all((X == X0) | ((X != X) & (X0 != X0))))
    if not same:
        res['fails'].append((name.split(':')[0], 'input-modified', {'dtype': str(X0.dtype)}))
    return st, out


def _status(res, func, st, out, case):
    """record exceptions / timeouts of an in-domain call; returns True when the call produced a value"""
    base = func.split(':')[0]
    res['stats']['calls:' + base] = res['stats'].get('calls:' + base, 0) + 1
    if st == 'ok':
        return True
    if st == 'timeout':
        # the models of these routines are proved total (C03: *_total theorems): a call that still has not returned after the
        # 10x retry of common.call is a verdict ('does not return'), not a skipped case
        res['stats']['timeout:' + base] = res['stats'].get('timeout:' + base, 0) + 1
        res['fails'].append((base, 'does-not-return', {'after_s': 'budget x10'}))
    else:
        dt = res.get('_dtype', 'float64')
        res['fails'].append((func, 'raises', {'exception': out, 'dtype': dt,
                                              'cond': {'storage': 'float' if dt.startswith('float') else 'int'}}))
    return False


def _cmp_dist(res, func, D, oracle, tol=0.0, diag_zero=True):
    n = len(oracle)
    D = np.asarray(D, dtype=float)
    if D.shape != (n, n):
        res['fails'].append((func, 'shape', {'shape': list(D.shape)})); return
    od = offdiag(n)
    a, b = D[od], oracle[od]
    infa, infb = np.isinf(a), np.isinf(b)
    if not np.array_equal(infa, infb):
        res['fails'].append((func, 'infinite-iff-unreachable', {'out': mstr(D), 'oracle': mstr(oracle)}))
    elif np.any(np.isnan(a)) or np.any(np.abs(a[~infa] - b[~infb]) > tol * np.maximum(1.0, np.abs(b[~infb]))):
        res['fails'].append((func, 'min-length', {'out': mstr(D), 'oracle': mstr(oracle)}))
    if diag_zero and n and np.any(np.diag(D) != 0):
        res['fails'].append((func, 'zero-diagonal', {'diag': mstr(np.diag(D))}))


def _cmp_flag(res, func, R, D, oracle):
    n = len(oracle); od = offdiag(n)
    R = np.asarray(R)
    if R.shape != (n, n) or not np.array_equal(R[od] != 0, np.isfinite(np.asarray(D, dtype=float)[od])) or \
            not np.array_equal(R[od] != 0, np.isfinite(oracle[od])):
        res['fails'].append((func, 'reach-flag', {'R': istr(R), 'D': mstr(D)}))


def _cmp_hops(res, func, H, dist, best, tol=0.0, condf=None):
    n = len(dist)
    for i in range(n):
        for j in range(n):
            if i == j:
                continue
            if math.isinf(dist[i, j]):
                if H[i, j] != 0:
                    res['fails'].append((func, 'edge-count', {'i': i, 'j': j, 'hops': float(H[i, j]), 'why': 'unreachable pair must have 0'})); return
            elif not hopcount_ok(best, dist[i, j], i, j, H[i, j], tol):
                info = {'i': i, 'j': j, 'hops': float(H[i, j]), 'dist': float(dist[i, j])}
                if condf is not None:
                    info['cond'] = condf(i, j)
                res['fails'].append((func, 'edge-count', info)); return


def absorb_threshold(A):
    """smallest 'big' length B of the matrix such that B + m == B in floats for the smallest positive length m (None if no
    length is absorbed): the input-level flag `absorbed_length`"""
    nz = np.asarray(A, dtype=float); nz = nz[nz != 0]
    if nz.size < 2:
        return None
    m = float(nz.min())
    big = sorted(x for x in set(nz.tolist()) if x + m == x and x != m)
    return big[0] if big else None


def tie_info(A, transform, absorb=None):
    """Exact-arithmetic picture of the graph, used only to scope the float-rounding known findings (lazily, n <= 10):
    val[a][b] = exact optimum from a to b over simple paths ('log': the largest product of the rational weights, i.e. the
    smallest -ln; otherwise the smallest sum of the decimal lengths), cnt[a][b] = number of simple paths attaining it,
    zc = nodes lying on a cycle of zero-length connections ('log' with weights exactly 1)."""
    from fractions import Fraction as Fr
    A = np.asarray(A, dtype=float); n = len(A)
    W = [[Fr(str(float(A[i, j]))).limit_denominator(10 ** 6) for j in range(n)] for i in range(n)]
    islog = transform == 'log'
    zc = set()
    if islog:
        Z = (A == 1)
        reach = Z.copy()
        for k in range(n):
            reach = reach | (reach[:, [k]] & reach[[k], :])
        zc = {i for i in range(n) if reach[i, i]}
    val = [[None] * n for _ in range(n)]; cnt = [[0] * n for _ in range(n)]
    if absorb is not None:
        # absorbed arithmetic: as soon as a walk contains a length >= B its float length no longer feels the small lengths
        # (B + small == B), so two walks tie in floats iff they carry the same big lengths; small-only walks add exactly
        W = [[Fr(float(A[i, j])) for j in range(n)] for i in range(n)]
        Bq = Fr(float(absorb))
        Z = (A != 0) & (A < absorb)
        reach = Z.copy()
        for k in range(n):
            reach = reach | (reach[:, [k]] & reach[[k], :])
        zc = {i for i in range(n) if reach[i, i]}       # nodes on a cycle of absorbed (small) connections

    def plus(a, b):
        if absorb is None:
            return a * b if islog else a + b
        if a >= Bq or b >= Bq:
            return (a if a >= Bq else 0) + (b if b >= Bq else 0)
        return a + b
    for s0 in range(n):
        best = {}
        stack = [(s0, Fr(1) if islog else Fr(0), 1 << s0)]
        while stack:
            u, v0, seen = stack.pop()
            for v in range(n):
                if W[u][v] == 0 or (seen >> v) & 1:
                    continue
                nv = plus(v0, W[u][v])
                b = best.get(v)
                if b is None or (nv > b[0] if islog else nv < b[0]):
                    best[v] = (nv, 1)
                elif nv == b[0]:
                    best[v] = (nv, b[1] + 1)
                elif absorb is None:
                    continue           # a prefix of a minimum-length path has minimum length itself: prune
                # (absorbed arithmetic is not strictly monotone: a longer prefix can still tie after a big length; no pruning)
                stack.append((v, nv, seen | (1 << v)))
        for v, (x, c) in best.items():
            val[s0][v] = x; cnt[s0][v] = c
        val[s0][s0] = Fr(1) if islog else Fr(0)
    return {'val': val, 'cnt': cnt, 'zc': zc, 'log': islog, 'n': n, 'plus': plus, 'big': (Fr(float(absorb)) if absorb is not None else None)}


def _comb(info, x, y):
    return None if x is None or y is None else info['plus'](x, y)


def pair_tie(info, s, t, returned=()):
    """Pair-level tie: some node a on an exact optimal s->t path (or on the returned sequence, or s itself) has two
    different exact-optimal walks to the same target t: two optimal simple paths a->t, or an optimal a->t route through a
    node of a zero-length cycle. Only then can rounding decide (a,t) differently from (s,t) and break hops/Pmat for (s,t)."""
    val, cnt, n = info['val'], info['cnt'], info['n']
    if val[s][t] is None:
        return False
    cand = {s} | {int(x) for x in returned if 0 <= int(x) < n}
    cand |= {a for a in range(n) if _comb(info, val[s][a], val[a][t]) == val[s][t]}
    for a in cand:
        if a == t or val[a][t] is None:
            continue
        if cnt[a][t] > 1:
            return True
        if (info['big'] is None or val[a][t] >= info['big']) and \
                any(_comb(info, val[a][c], val[c][t]) == val[a][t] for c in info['zc']):
            return True      # (absorbed mode: a small cycle only ties with routes that carry a big length)
    return False


def _float_cond(exact, A, transform, cache, s, t, returned=()):
    """condition keys of a Floyd hops / retrieve failure: `inexact_floats` (lengths whose sums round: 'log', decimals),
    `absorbed_length` (exactly representable lengths of such different scale that big + small == big in floats; computed from
    the input), `exact_tie` (pair-level tie between two different walks to the same target, in exact arithmetic, resp. in the
    absorbed arithmetic the floats realise)"""
    B = absorb_threshold(A) if transform is None else None
    if exact and B is None:
        return {'inexact_floats': False, 'absorbed_length': False, 'exact_tie': False}
    if 'info' not in cache:
        cache['info'] = tie_info(A, transform, absorb=B)
    return {'inexact_floats': not exact and B is None, 'absorbed_length': B is not None,
            'exact_tie': bool(pair_tie(cache['info'], s, t, returned))}


def _floyd_block(bct, res, case, A, transform, Lm, oracle, best, tol, exact, rout=True):
    """distance_wei_floyd + retrieve_shortest_path for every (s,t) + rout_efficiency on adjacency/weights A.
    Lm = the true length matrix, oracle = closure, best = exact-k table"""
    n = len(A)
    name = 'distance_wei_floyd' + ('' if transform is None else ':' + transform)
    st, out = _bcall(res, name, bct.distance_wei_floyd, _rep(A, case, allow_int=transform is None, f32=transform is None), transform)
    if not _status(res, name, st, out, case):
        return
    SPL, hops, Pmat = out
    SPL = np.asarray(SPL, dtype=float); hops = np.asarray(hops, dtype=float); Pmat = np.asarray(Pmat)
    _cmp_dist(res, name, SPL, oracle, tol)
    tie_cache = {}
    _cmp_hops(res, name, hops, oracle, best, tol, condf=lambda i, j: _float_cond(exact, A, transform, tie_cache, i, j))
    paths = []
    npaths = 0
    for s in range(n):
        for t in range(n):
            st2, p = call(bct.retrieve_shortest_path, s, t, hops, Pmat, t=3, retry=10)
            res['stats']['calls:retrieve_shortest_path'] = res['stats'].get('calls:retrieve_shortest_path', 0) + 1
            if st2 != 'ok':
                if st2 == 'exc':
                    res['fails'].append(('retrieve_shortest_path', 'raises', {'s': s, 't': t, 'transform': transform, 'exception': p}))
                else:
                    res['stats']['timeout:retrieve_shortest_path'] = res['stats'].get('timeout:retrieve_shortest_path', 0) + 1
                    res['fails'].append(('retrieve_shortest_path', 'does-not-return', {'s': s, 't': t, 'transform': transform}))
                if s != t:
                    paths.append(None)
                continue
            if s == t:
                # what the code does for s = t (Props/C12.lean: retrieve_self): hops[s,s] = 0, so the result is empty
                res['stats']['self_pairs'] = res['stats'].get('self_pairs', 0) + 1
                if len(p) != 0:
                    res['fails'].append(('retrieve_shortest_path', 'self-pair-empty', {'s': s, 'transform': transform,
                                                                                       'path': [int(x) for x in np.asarray(p).ravel()]}))
                continue
            plist = [int(x) for x in np.asarray(p).ravel()] if len(p) else []
            paths.append(plist)
            unreachable = math.isinf(oracle[s, t])
            if (len(plist) == 0) != unreachable:
                res['fails'].append(('retrieve_shortest_path', 'empty-iff-unreachable', {'s': s, 't': t, 'transform': transform, 'path': plist, 'dist': fstr(oracle[s, t]),
                                                                                         'cond': _float_cond(exact, A, transform, tie_cache, s, t, plist)}))
            elif plist:
                npaths += 1
                bad = check_path(plist, s, t, Lm, hops[s, t], SPL[s, t], tol)
                if bad is None and abs(SPL[s, t] - oracle[s, t]) > tol * max(1.0, abs(oracle[s, t])):
                    bad = 'minimum-length'
                if bad:
                    res['fails'].append(('retrieve_shortest_path', bad, {'s': s, 't': t, 'transform': transform, 'path': plist,
                                                                           'hops': float(hops[s, t]), 'SPL': fstr(SPL[s, t]),
                                                                           'cond': _float_cond(exact, A, transform, tie_cache, s, t, plist)}))
    res['stats']['paths_checked'] = res['stats'].get('paths_checked', 0) + npaths
    if rout:
        _charpath_block(bct, res, case, SPL, oracle, name, lean=exact and transform is not None)
    if exact:
        if transform == 'log':      # exact only when every weight is 1: all lengths are 0; the model gets the length matrix
            line = 'floydlen n=%d L=%s' % (n, mstr(Lm))
        else:
            line = 'floyd n=%d A=%s transform=%s' % (n, mstr(A), transform or 'none')
        spec = [('SPL', 'exact', mstr(SPL)), ('hops', 'exact', istr(hops)), ('P', 'exact', istr(Pmat))]
        if all(p is not None for p in paths):
            spec.append(('paths', 'exact', ';'.join(pstr(p) for p in paths) or '-'))
        else:       # a retrieve call hit the watchdog (counted above): the matrices are still compared
            res['stats']['floyd_line_without_paths'] = res['stats'].get('floyd_line_without_paths', 0) + 1
        res['lines'].append((line, spec))
    if n >= 2 and rout:
        st, out = _bcall(res, 'rout_efficiency', bct.rout_efficiency, _rep(A, case, allow_int=transform is None, f32=False), transform)
        rname = 'rout_efficiency' + ('' if transform is None else ':' + transform)
        if _status(res, rname, st, out, case):
            GE, Erout, _ = out
            want = meaninv_offdiag(oracle)
            if not close(float(GE), want):
                zero = bool(np.any(oracle[offdiag(n)] == 0))     # a zero distance between distinct nodes (log transform of weight 1)
                res['fails'].append((rname, 'mean-inverse', {'GErout': float(GE), 'oracle': want, 'cond': {'zero_distance': zero, 'transform': transform or 'none'}}))
            # local part: Eloc[u] = sum over ordered pairs of distinct neighbours a, b of u of 1/d_ab in the sub-graph induced by the
            # in/out-neighbours of u, divided by their number (NaN for a node without neighbours)
            Araw = np.asarray(A, dtype=float); eloc = np.asarray(out[2], dtype=float).ravel(); want_loc = []
            for u in range(n):
                V = [j for j in range(n) if Araw[u, j] != 0 or Araw[j, u] != 0]
                if not V:
                    want_loc.append(float('nan')); continue
                sub = minplus_closure(np.asarray(Lm, dtype=float)[np.ix_(V, V)])
                tot = sum(0.0 if math.isinf(sub[a, b]) else (INF if sub[a, b] == 0 else 1.0 / sub[a, b])
                          for a in range(len(V)) for b in range(len(V)) if a != b)
                want_loc.append(tot / len(V))
            if len(eloc) != n or not all(close(float(a), b) for a, b in zip(eloc, want_loc)):
                zero = bool(np.any(oracle[offdiag(n)] == 0))
                res['fails'].append((rname, 'local-mean-inverse', {'Eloc': [float(x) for x in eloc], 'oracle': want_loc,
                                                                   'cond': {'zero_distance': zero, 'transform': transform or 'none'}}))
            if exact and transform != 'log':
                res['lines'].append(('rout n=%d A=%s transform=%s' % (n, mstr(A), transform or 'none'),
                                     [('GE', 'tol', float(GE)), ('Erout', 'tolmat', [float(x) for x in np.asarray(Erout, dtype=float).ravel()]),
                                      ('Eloc', 'tolmat', [float(x) for x in eloc])]))


# reachdist stores inf into a copy of its argument: integer / bool storage raises OverflowError (open finding
# C03-reachdist-int-dtype until repaired); flip to True once the repair is in /repo so that the dtype axis reaches it too
REACHDIST_INT_OK = True
DTYPES_BIN = ['float64', 'int64', 'bool', 'uint8', 'int32', 'float32']
DTYPES_INT = ['float64', 'int64', 'int32', 'uint8', 'float32']


def _rep(A, case, allow_int=True, f32=True):
    """representation axis: the same matrix as float64 / float32 / int64 / int32 / uint8 / bool storage (only when the values are
    representable exactly), C / Fortran order / transposed view"""
    dt, order = case.get('rep', ('float64', 'C'))
    X = np.array(A, dtype=float)
    if dt == 'float32':
        # float32 storage only where the routine's arithmetic stays exact (sums of small integers); never where it divides
        if f32 and np.array_equal(X.astype(np.float32).astype(float), X):
            X = X.astype(np.float32)
    elif dt != 'float64' and allow_int and np.all(X == np.round(X)) and np.all(X >= 0) and \
            (dt != 'bool' or np.all((X == 0) | (X == 1))) and (dt != 'uint8' or np.all(X < 256)):
        X = X.astype(dt)
    if order == 'F':
        X = np.asfortranarray(X)
    elif order == 'T':
        X = np.ascontiguousarray(X.T).T          # a transposed view of a C array
    return X


def _mean_oracle(vals):
    """plain mean and mean inverse of a list of floats with NumPy's conventions (inf in the mean, 1/0 = inf, 1/inf = 0)"""
    if len(vals) == 0:
        return float('nan'), float('nan')
    m = float('inf') if any(math.isinf(x) for x in vals) else sum(vals) / len(vals)
    if any(x == 0 for x in vals):
        e = float('inf')
    else:
        e = sum(0.0 if math.isinf(x) else 1.0 / x for x in vals) / len(vals)
    return m, e


def _charpath_block(bct, res, case, D, oracle, fname, lean=True):
    """charpath on the matrix D produced by routine `fname`, all four flag combinations; the oracle is the plain mean /
    mean inverse of the selected cells *by position* (off-diagonal cells, or all cells) of that very matrix.
    (Whether D itself is the distance matrix is judged by the caller.)"""
    D = np.asarray(D, dtype=float); n = len(D)
    if n < 2 or D.shape != (n, n):
        return
    for incdiag in (False, True):
        for incinf in (True, False):
            Din = _rep(D, case, allow_int=False, f32=False)
            D0 = Din.copy()
            st, out = call(bct.charpath, Din, incdiag, incinf, t=3, retry=10)
            if not _status(res, 'charpath', st, out, case):
                continue
            if not np.array_equal(Din, D0, equal_nan=True):
                res['fails'].append(('charpath', 'input-modified', {'of': fname}))
            lam, eff = float(out[0]), float(out[1])
            # eccentricity / radius / diameter as coded: row maxima of the unmasked cells (NumPy's masked fill value 1e20
            # for a row with no unmasked cell), then min / max; these involve no arithmetic, so the comparison is exact
            want_ecc = []
            for i in range(n):
                row = [float(D[i, j]) for j in range(n) if (incdiag or i != j) and (incinf or not math.isinf(D[i, j]))]
                want_ecc.append(max(row) if row else 1e20)
            ecc = np.asarray(out[2], dtype=float).ravel(); rad = float(out[3]); dia = float(out[4])
            einfo = {'of': fname, 'include_diagonal': incdiag, 'include_infinite': incinf, 'D': mstr(D)}
            if ecc.shape != (n,) or not all(a == b for a, b in zip(ecc, want_ecc)):
                res['fails'].append(('charpath', 'eccentricity', dict(einfo, ecc=mstr(ecc), oracle=mstr(want_ecc))))
            if rad != min(want_ecc):
                res['fails'].append(('charpath', 'radius', dict(einfo, radius=rad, oracle=min(want_ecc))))
            if dia != max(want_ecc):
                res['fails'].append(('charpath', 'diameter', dict(einfo, diameter=dia, oracle=max(want_ecc))))
            vals = [float(D[i, j]) for i in range(n) for j in range(n) if incdiag or i != j]
            if not incinf:
                vals = [x for x in vals if not math.isinf(x)]
            wl, we = _mean_oracle(vals)
            info = {'of': fname, 'include_diagonal': incdiag, 'include_infinite': incinf, 'D': mstr(D)}
            if not close(lam, wl):
                res['fails'].append(('charpath', 'mean', dict(info, **{'lambda': lam, 'oracle': wl})))
            if not close(eff, we):
                res['fails'].append(('charpath', 'mean-inverse', dict(info, efficiency=eff, oracle=we)))
            res['stats']['charpath_calls:' + fname.split(':')[0]] = res['stats'].get('charpath_calls:' + fname.split(':')[0], 0) + 1
            if lean:
                res['lines'].append(('charpath n=%d D=%s diag=%d inf=%d' % (n, mstr(D), int(incdiag), int(incinf)),
                                     [('lambda', 'tol', lam), ('eff', 'tol', eff), ('ecc', 'exact', mstr(ecc)),
                                      ('radius', 'exact', fstr(rad)), ('diameter', 'exact', fstr(dia))]))


def run_case(case):
    bct = import_bct()
    res = {'fails': [], 'lines': [], 'stats': {}}
    try:
        kind = case['kind']
        if kind == 'bin':
            _run_bin(bct, case, res)
        elif kind == 'wei':
            _run_wei(bct, case, res)
        elif kind in ('log', 'flt', 'abs'):
            _run_log(bct, case, res)
        elif kind == 'nav':
            _run_nav(bct, case, res)
        elif kind == 'bad':
            _run_bad(bct, case, res)
        elif kind == 'big':
            _run_big(bct, case, res)
        elif kind == 'size':
            _run_size(bct, case, res)
        elif kind == 'reclimit':
            _run_reclimit(bct, case, res)
        elif kind == 'seq':
            _run_seq(bct, case, res)
        elif kind == 'probe':
            _run_probe(bct, case, res)
    except Timeout:
        res['stats']['timeout:harness'] = 1
    res.pop('_dtype', None)
    return res


def _run_bin(bct, case, res):
    A = np.array(case['A'], dtype=float); n = len(A)
    oracle = bfs_oracle(A)
    Lm = _lenmat(A)
    best = exact_k_lengths(Lm, max(1, n - 1))
    if case.get('only') == 'floyd':
        res['stats']['disconnected'] = int(np.isinf(oracle).any())
        res['stats']['multihop'] = int(np.any(np.isfinite(oracle) & (oracle >= 2)))
        _floyd_block(bct, res, case, A, None, Lm, oracle, best, 0.0, True, rout=False)
        return
    res['stats']['disconnected'] = int(np.isinf(oracle).any())
    res['stats']['multihop'] = int(np.any(np.isfinite(oracle) & (oracle >= 2)))
    # weighted representation: distance_bin / breadthdist / breadth / reachdist / efficiency_bin are documented to look only at
    # which entries are non-zero; a fraction of the cases passes the same graph with arbitrary positive weights to them
    Aw = A * np.array(case['wrep'], dtype=float) if case.get('wrep') is not None else A
    res['stats']['weighted_rep'] = int(case.get('wrep') is not None)
    Aline = mstr(A); Awline = mstr(Aw)
    outs = {}
    st, out = _bcall(res, 'distance_bin', bct.distance_bin, _rep(Aw, case))
    if _status(res, 'distance_bin', st, out, case):
        outs['distance_bin'] = np.asarray(out, dtype=float)
        _cmp_dist(res, 'distance_bin', out, oracle)
    st, out = _bcall(res, 'breadthdist', bct.breadthdist, _rep(Aw, case))
    if _status(res, 'breadthdist', st, out, case):
        R, D = out; outs['breadthdist'] = (np.asarray(R), np.asarray(D, dtype=float))
        _cmp_dist(res, 'breadthdist', D, oracle, diag_zero=False)
        _cmp_flag(res, 'breadthdist', R, D, oracle)
    st, out = _bcall(res, 'reachdist', bct.reachdist, _rep(Aw, case, allow_int=REACHDIST_INT_OK))      # float only: it stores inf into a copy of its argument
    if _status(res, 'reachdist', st, out, case):
        R, D = out; outs['reachdist'] = (np.asarray(R), np.asarray(D, dtype=float))
        _cmp_dist(res, 'reachdist', D, oracle, diag_zero=False)
        _cmp_flag(res, 'reachdist', R, D, oracle)
    if case.get('opt_nobin'):       # non-default option on a binary matrix: ensure_binary=False must not change anything
        st, out = _bcall(res, 'reachdist', bct.reachdist, _rep(A, case, allow_int=REACHDIST_INT_OK), False)
        if _status(res, 'reachdist', st, out, case):
            _cmp_dist(res, 'reachdist', out[1], oracle, diag_zero=False)
            _cmp_flag(res, 'reachdist', out[0], out[1], oracle)
    st, out = _bcall(res, 'distance_wei', bct.distance_wei, _rep(A, case))
    if _status(res, 'distance_wei', st, out, case):
        D, B = out; outs['distance_wei'] = (np.asarray(D, dtype=float), np.asarray(B, dtype=float))
        _cmp_dist(res, 'distance_wei', D, oracle)
        _cmp_hops(res, 'distance_wei', np.asarray(B), oracle, best)
        res['lines'].append(('dijkstra n=%d A=%s' % (n, Aline), [('D', 'exact', mstr(D)), ('B', 'exact', istr(B))]))
    _floyd_block(bct, res, case, A, None, Lm, oracle, best, 0.0, True)
    # "the five routines agree wherever their domains overlap": each of them is compared with the same oracle above, so
    # agreement is implied; it is counted here (a disagreement is attributed to the routine that differs from the oracle)
    od = offdiag(n)
    mats = [outs.get('distance_bin'), outs.get('breadthdist', (None, None))[1], outs.get('reachdist', (None, None))[1],
            outs.get('distance_wei', (None, None))[0]]
    if all(M is not None for M in mats) and all(np.array_equal(M[od], mats[0][od]) for M in mats[1:]):
        res['stats']['five_routines_agree'] = 1
    if 'distance_bin' in outs and 'breadthdist' in outs and 'reachdist' in outs:
        (bR, bD), (rR, rD) = outs['breadthdist'], outs['reachdist']
        res['lines'].append(('bin n=%d A=%s' % (n, Awline),
                             [('D', 'exact', mstr(outs['distance_bin'])), ('bR', 'exact', istr(bR)), ('bD', 'exact', mstr(bD)),
                              ('rR', 'exact', istr(rR)), ('rD', 'exact', mstr(rD)),
                              # verified certificate check (Lemmas/DistCert.lean: hopCert_sound) run by the model on D, bD(+bR), rD(+rR)
                              ('cert', 'exact', '111')]))
    if n >= 1:
        s = int(case.get('src', 0)) % n
        st, out = _bcall(res, 'breadth', bct.breadth, _rep(Aw, case), s, t=3)
        if _status(res, 'breadth', st, out, case):
            dist, branch = out
            want = oracle[s].copy()
            dd = np.asarray(dist, dtype=float)
            m = np.arange(n) != s
            if not np.array_equal(dd[m], want[m]):
                res['fails'].append(('breadth', 'min-length', {'source': s, 'out': mstr(dd), 'oracle': mstr(want)}))
            # predecessor vector: branch[source] = -1; for every reached v != source, branch[v] is a node with a connection to v
            # that lies one level closer to the source (theorem breadth_branch_spec)
            br = np.asarray(branch, dtype=float)
            okb = br.shape == (n,) and br[s] == -1
            for v in range(n):
                if okb and v != s and np.isfinite(want[v]):
                    u = int(br[v])
                    okb = 0 <= u < n and br[v] == u and A[u, v] != 0 and want[u] + 1 == want[v]
            if not okb:
                res['fails'].append(('breadth', 'branch-predecessor', {'source': s, 'branch': istr(br), 'dist': mstr(want)}))
            res['lines'].append(('breadth n=%d A=%s s=%d' % (n, Awline, s), [('dist', 'exact', mstr(dist)), ('branch', 'exact', istr(branch))]))
    if n >= 2:
        st, out = _bcall(res, 'efficiency_bin', bct.efficiency_bin, _rep(Aw, case))
        if _status(res, 'efficiency_bin', st, out, case):
            want = meaninv_offdiag(oracle)
            if not close(float(out), want):
                res['fails'].append(('efficiency_bin', 'mean-inverse', {'E': float(out), 'oracle': want}))
            res['lines'].append(('effbin n=%d A=%s' % (n, Awline), [('E', 'tol', float(out))]))
        for nm in ('distance_bin', 'breadthdist', 'reachdist', 'distance_wei'):
            if nm in outs:
                Dn = outs[nm] if nm == 'distance_bin' else outs[nm][1] if nm in ('breadthdist', 'reachdist') else outs[nm][0]
                _charpath_block(bct, res, case, Dn, oracle, nm, lean=(nm != 'distance_wei'))


def _run_seq(bct, case, res):
    """explicit short sequence in one process: the sub-cases (same n, mixed routines / representations / options) run in
    order, each judged by its own oracles; hidden state carried from one call to the next shows as a failure of a later step"""
    res['stats']['multihop'] = 1
    for k, sub in enumerate(case['steps']):
        r = {'fails': [], 'lines': [], 'stats': {}}
        if case.get('only'):
            sub = dict(sub, only=case['only'])
        {'bin': _run_bin, 'wei': _run_wei, 'log': _run_log, 'flt': _run_log, 'abs': _run_log, 'nav': _run_nav}[sub['kind']](bct, sub, r)
        for f, pr, info in r['fails']:
            info = dict(info) if isinstance(info, dict) else {'info': info}
            info['sequence_step'] = k
            res['fails'].append((f, pr, info))
        res['lines'] += r['lines']
        for a, b in r['stats'].items():
            if a.startswith('calls:') or a.startswith('timeout:') or a in ('paths_checked', 'weighted_rep'):
                res['stats'][a] = res['stats'].get(a, 0) + b
    res['stats']['sequence_steps'] = len(case['steps'])


PROBE_ROUTINES = ['distance_bin', 'breadthdist', 'reachdist', 'reachdist_nobin', 'breadth', 'distance_wei', 'floyd_none', 'floyd_inv', 'floyd_log',
                  'efficiency_bin', 'efficiency_wei', 'rout_efficiency', 'charpath', 'retrieve', 'navigation_wu',
                  'pair_bin_reach', 'pair_wei_floyd', 'edit_distance_bin', 'edit_reachdist', 'edit_floyd', 'edit_breadthdist', 'edit_distance_wei']


def _run_probe(bct, case, res):
    """object-reuse probe (common.reuse_probe): f(A); mutate A in place (lesion one connection, add / re-weight another);
    f(A) on the same object must equal f on fresh copies. `pair_*` call another routine on the shared object between the
    two calls; `edit_*` scribble on the returned arrays before calling again."""
    A = np.array(case['A'], dtype=float); n = len(A)
    r = case['routine']
    e1, e2, w = case['lesion'], case['add'], case['w']

    def scribble(out):
        for x in (out if isinstance(out, tuple) else (out,)):
            if isinstance(x, np.ndarray) and x.size:
                try:
                    x[...] = 7
                except (ValueError, TypeError):
                    pass

    def mut(args):
        M = args[0]
        M[e1[0], e1[1]] = 0
        M[e2[0], e2[1]] = w
        if case.get('und'):
            M[e1[1], e1[0]] = 0; M[e2[1], e2[0]] = w

    W = A.copy()
    if r in ('floyd_inv', 'floyd_log', 'efficiency_wei'):
        W[A != 0] = 1.0 / A[A != 0]
    D0 = np.array(case['D'], dtype=float) if case.get('D') is not None else None
    fns = {
        'distance_bin': (bct.distance_bin, [A]), 'breadthdist': (bct.breadthdist, [A]), 'reachdist': (bct.reachdist, [A]),
        'reachdist_nobin': (lambda M: bct.reachdist((M != 0).astype(float), False), [A]),
        'breadth': (lambda M: bct.breadth(M, case['s']), [A]),
        'distance_wei': (bct.distance_wei, [A]), 'floyd_none': (bct.distance_wei_floyd, [A]),
        'floyd_inv': (lambda M: bct.distance_wei_floyd(M, 'inv'), [W]), 'floyd_log': (lambda M: bct.distance_wei_floyd(M, 'log'), [W]),
        'efficiency_bin': (bct.efficiency_bin, [A]), 'efficiency_wei': (bct.efficiency_wei, [W]),
        'rout_efficiency': (lambda M: bct.rout_efficiency(M)[:2], [A]),
        'charpath': (lambda M: bct.charpath(bct.distance_wei(M)[0])[:2], [A]),
        'retrieve': (lambda M: (lambda o: [list(np.asarray(bct.retrieve_shortest_path(a, b, o[1], o[2])).ravel())
                                           for a in range(n) for b in range(n)])(bct.distance_wei_floyd(M)), [A]),
        'navigation_wu': (lambda M, Dm: bct.navigation_wu(M, Dm, n), [A, D0]),
        'pair_bin_reach': (lambda M: (bct.reachdist(M), bct.distance_bin(M), bct.breadthdist(M), bct.reachdist(M)), [A]),
        'pair_wei_floyd': (lambda M: (bct.distance_wei_floyd(M), bct.distance_wei(M), bct.efficiency_bin(M), bct.distance_wei_floyd(M, 'inv')), [A]),
        'edit_distance_bin': (lambda M: (scribble(bct.distance_bin(M)), bct.distance_bin(M))[1], [A]),
        'edit_reachdist': (lambda M: (scribble(bct.reachdist(M)), bct.reachdist(M))[1], [A]),
        'edit_breadthdist': (lambda M: (scribble(bct.breadthdist(M)), bct.breadthdist(M))[1], [A]),
        'edit_distance_wei': (lambda M: (scribble(bct.distance_wei(M)), bct.distance_wei(M))[1], [A]),
        'edit_floyd': (lambda M: (scribble(bct.distance_wei_floyd(M)), bct.distance_wei_floyd(M))[1], [A]),
    }
    fn, args = fns[r]
    res['stats']['probe:' + r] = 1; res['stats']['multihop'] = 1
    d = reuse_probe(fn, args, mut, t=6.0, tol=0.0)
    if d is not None:
        base = {'retrieve': 'retrieve_shortest_path', 'floyd_none': 'distance_wei_floyd', 'floyd_inv': 'distance_wei_floyd',
                'floyd_log': 'distance_wei_floyd', 'reachdist_nobin': 'reachdist', 'pair_bin_reach': 'reachdist',
                'pair_wei_floyd': 'distance_wei_floyd'}.get(r, r[5:] if r.startswith('edit_') else r)
        if base == 'floyd':
            base = 'distance_wei_floyd'
        res['fails'].append((base, 'result-depends-on-history', {'probe': r, 'disagreement': d}))


# ------------------------------------------------------------------ size axis (n = 33 .. 300)

def bfs_fast(A):
    """hop distances by level-by-level search on boolean rows (vectorised; independent of bfs_oracle and of bct)"""
    B = np.asarray(A) != 0; n = len(B)
    D = np.full((n, n), INF)
    for s in range(n):
        seen = np.zeros(n, dtype=bool); seen[s] = True; D[s, s] = 0
        frontier = seen.copy(); level = 0
        while frontier.any():
            level += 1
            nxt = B[frontier].any(axis=0) & ~seen
            D[s, nxt] = level; seen |= nxt; frontier = nxt
    return D


def dijkstra_oracle(Lm):
    """plain one-node-at-a-time Dijkstra per source, vectorised relaxation (lengths >= 0, inf = no connection)"""
    Lm = np.asarray(Lm, dtype=float); n = len(Lm)
    D = np.full((n, n), INF)
    for s in range(n):
        d = np.full(n, INF); d[s] = 0.0; done = np.zeros(n, dtype=bool)
        for _ in range(n):
            cand = np.where(done, INF, d); u = int(np.argmin(cand))
            if math.isinf(cand[u]):
                break
            done[u] = True
            d = np.minimum(d, d[u] + Lm[u])
        D[s] = d
    return D


def hops_certificate(D, H, Lm, tol=0.0):
    """exact certificate that H[i,j] is the edge count of a minimum-length walk i -> j, for every i != j with finite D: there
    is a k (k = i allowed, with H[i,i] read as 0) with a connection k -> j, D[i,k] + L[k,j] = D[i,j] and H[i,k] = H[i,j] - 1;
    unreachable pairs must have H = 0. Returns None or the first offending (i, j)."""
    D = np.asarray(D, dtype=float); H = np.asarray(H, dtype=float).copy(); n = len(D)
    H[np.arange(n), np.arange(n)] = 0
    Dz = D.copy(); Dz[np.arange(n), np.arange(n)] = 0
    for j in range(n):
        fin = np.isfinite(D[:, j]); fin[j] = False
        bad0 = (~np.isfinite(D[:, j])) & (H[:, j] != 0); bad0[j] = False
        if bad0.any():
            return int(np.argmax(bad0)), j
        if not fin.any():
            continue
        lj = Lm[:, j]
        with np.errstate(invalid='ignore'):
            tight = np.abs(Dz + lj[None, :] - D[:, [j]]) <= tol * np.maximum(1.0, np.abs(D[:, [j]]))
        ok = (tight & np.isfinite(lj)[None, :] & (H == H[:, [j]] - 1)).any(axis=1)
        badj = fin & ~ok
        if badj.any():
            return int(np.argmax(badj)), j
    return None


def size_graph(spec):
    """deterministic large test graph from a small spec (so that a replay file stays small)"""
    rs = np.random.RandomState(spec['seed']); n = spec['n']; t = spec['type']
    A = np.zeros((n, n))
    if t == 'dense':                      # dense random, density p
        A = (rs.rand(n, n) < spec['p']).astype(float)
        if not spec.get('directed'):
            A = np.triu(A, 1); A = A + A.T
    elif t == 'hubs':                     # two non-adjacent hubs 0, 1 sharing exactly k neighbours (+ a sparse rest)
        k = spec['k']
        A[0, 2:2 + k] = A[2:2 + k, 0] = 1; A[1, 2:2 + k] = A[2:2 + k, 1] = 1
        for x in range(2 + k, n):
            y = rs.randint(2, 2 + k); A[x, y] = A[y, x] = 1
    elif t == 'relays':                   # k directed relays 0 -> x -> 1
        k = spec['k']; A[0, 2:2 + k] = 1; A[2:2 + k, 1] = 1
        for x in range(2 + k, n):
            A[1, x] = 1
    elif t == 'chain':                    # undirected chain with a few chords: diameter close to n
        p = rs.permutation(n)
        for x in range(n - 1):
            A[p[x], p[x + 1]] = A[p[x + 1], p[x]] = 1
        for _ in range(spec.get('chords', 0)):
            x = rs.randint(n - 3); A[p[x], p[x + 2]] = A[p[x + 2], p[x]] = 1
    elif t == 'ring':                     # directed ring
        p = rs.permutation(n)
        for x in range(n):
            A[p[x], p[(x + 1) % n]] = 1
    elif t == 'outdeg1':                  # sparse digraph: most nodes have exactly one out-connection, a few have more, some none
        for x in range(n):
            if rs.rand() < .9:
                y = rs.randint(n)
                if y != x:
                    A[x, y] = 1
        for _ in range(n // 10):
            x, y = rs.randint(n, size=2)
            if x != y:
                A[x, y] = 1
    elif t == 'lollipop':
        A = lollipop(spec['c'], n - spec['c'])
    np.fill_diagonal(A, 0)
    return A


def _run_size(bct, case, res):
    """size axis: every routine of C03 / C12 on graphs with n = 33 .. 300 (dense, hubs sharing >= 256 neighbours, relays, long
    chains, rings, out-degree-1 digraphs, lollipops), judged by vectorised BFS / Dijkstra oracles (scipy.sparse.csgraph as a
    second oracle for the oracles) and exact hop certificates; Lean replay for n <= 40."""
    spec = case['spec']; A = size_graph(spec); n = len(A)
    only = case.get('only') == 'floyd'
    rs = np.random.RandomState(spec['seed'] + 1)
    hop = bfs_fast(A)
    res['stats']['disconnected'] = int(np.isinf(hop).any()); res['stats']['multihop'] = 1
    res['stats']['size:n=%d' % n] = 1
    nnz = int(np.count_nonzero(A))
    # integer lengths on the same graph (powers of two so that W = 1/L and 1/W are exact)
    Lw = A * rs.choice([1.0, 2.0, 4.0], size=A.shape)
    if not spec.get('directed', spec['type'] in ('relays', 'ring', 'outdeg1')):
        Lw = np.triu(Lw, 1); Lw = Lw + Lw.T
    Lm = _lenmat(Lw)
    dist = dijkstra_oracle(Lm)
    try:        # second oracle, for the oracles only
        from scipy.sparse.csgraph import shortest_path
        from scipy.sparse import csr_matrix
        if not (np.array_equal(shortest_path(csr_matrix(A), method='D', unweighted=True), hop) and
                np.allclose(shortest_path(csr_matrix(Lw), method='D'), dist, rtol=0, atol=0, equal_nan=True)):
            res['stats']['oracle_disagreement'] = 1
            res['fails'].append(('harness', 'oracles-disagree', {'spec': spec}))
    except ImportError:
        pass
    od = offdiag(n)

    def hopcheck(func, D, H, LmX, oracleX, tol=0.0):
        bad = hops_certificate(D, H, LmX, tol)
        if bad is not None:
            i, j = bad
            res['fails'].append((func, 'edge-count', {'i': i, 'j': j, 'hops': float(np.asarray(H)[i, j]), 'dist': float(oracleX[i, j]), 'spec': spec}))

    def small(info):
        return dict(info, spec=spec)

    def cmpd(func, D, oracleX, diag_zero=True, tol=0.0):
        k0 = len(res['fails'])
        _cmp_dist(res, func, D, oracleX, tol, diag_zero)
        for k in range(k0, len(res['fails'])):
            f, pr, info = res['fails'][k]
            D_ = np.asarray(D, dtype=float)
            bad = np.argwhere((D_ != oracleX) & od)
            res['fails'][k] = (f, pr, {'spec': spec, 'first_bad_cell': bad[0].tolist() if len(bad) else None,
                                       'got': float(D_[tuple(bad[0])]) if len(bad) else None,
                                       'oracle': float(oracleX[tuple(bad[0])]) if len(bad) else None})

    def floyd(X, transform, LmX, oracleX, exact_line, tol=0.0):
        name = 'distance_wei_floyd' + ('' if transform is None else ':' + transform)
        st, out = _bcall(res, name, bct.distance_wei_floyd, _rep(X, case, allow_int=transform is None, f32=transform is None), transform, t=20)
        if not _status(res, name, st, out, case):
            return None
        SPL, hops, Pmat = (np.asarray(x) for x in out)
        cmpd(name, SPL, oracleX, tol=tol)
        hopcheck(name, SPL, hops, LmX, oracleX, tol)
        # retrieve: a sample of ordered pairs (all of them for n <= 40)
        pairs = [(a, b) for a in range(n) for b in range(n)] if n <= 40 else \
            [tuple(x) for x in rs.randint(n, size=(1500, 2))] + [(a, a) for a in range(0, n, 37)]
        paths = {}
        for a, b in pairs:
            st2, p = call(bct.retrieve_shortest_path, a, b, hops, Pmat, t=3, retry=10)
            res['stats']['calls:retrieve_shortest_path'] = res['stats'].get('calls:retrieve_shortest_path', 0) + 1
            if st2 != 'ok':
                res['fails'].append(('retrieve_shortest_path', 'raises' if st2 == 'exc' else 'does-not-return', small({'s': a, 't': b, 'exception': p})))
                continue
            pl = [int(x) for x in np.asarray(p).ravel()] if len(p) else []
            paths[(a, b)] = pl
            if a == b:
                if pl:
                    res['fails'].append(('retrieve_shortest_path', 'self-pair-empty', small({'s': a, 'path': pl})))
                continue
            if (len(pl) == 0) != math.isinf(oracleX[a, b]):
                res['fails'].append(('retrieve_shortest_path', 'empty-iff-unreachable', small({'s': a, 't': b, 'path': pl[:20]})))
            elif pl:
                bad = check_path(pl, a, b, LmX, hops[a, b], SPL[a, b], tol)
                if bad is None and abs(SPL[a, b] - oracleX[a, b]) > tol * max(1.0, abs(oracleX[a, b])):
                    bad = 'minimum-length'
                if bad:
                    res['fails'].append(('retrieve_shortest_path', bad, small({'s': a, 't': b, 'path': pl[:20], 'hops': float(hops[a, b])})))
        res['stats']['paths_checked'] = res['stats'].get('paths_checked', 0) + len(paths)
        if exact_line and n <= 40:
            allp = [paths.get((a, b)) for a in range(n) for b in range(n) if a != b]
            if all(x is not None for x in allp):
                res['lines'].append(('floyd n=%d A=%s transform=%s' % (n, mstr(X), transform or 'none'),
                                     [('SPL', 'exact', mstr(SPL)), ('hops', 'exact', istr(hops)), ('P', 'exact', istr(Pmat)),
                                      ('paths', 'exact', ';'.join(pstr(x) for x in allp) or '-')]))
        return SPL

    W = np.zeros_like(Lw); W[Lw != 0] = 1.0 / Lw[Lw != 0]
    zero_len = np.where(A != 0, 0.0, INF)
    zero_dist = np.where(np.isfinite(hop), 0.0, INF)
    SPLb = floyd(A, None, _lenmat(A), hop, True)
    floyd(Lw, None, Lm, dist, True)
    floyd(W, 'inv', Lm, dist, False)
    floyd(A, 'log', zero_len, zero_dist, False)          # weights exactly 1: every length is 0
    if only:
        return
    # --- binary routines
    st, out = _bcall(res, 'distance_bin', bct.distance_bin, _rep(A, case), t=30)
    Db = None
    if _status(res, 'distance_bin', st, out, case):
        Db = np.asarray(out, dtype=float); cmpd('distance_bin', Db, hop)
    st, out = _bcall(res, 'reachdist', bct.reachdist, _rep(A, case, allow_int=REACHDIST_INT_OK), t=30)
    Dr = None
    if _status(res, 'reachdist', st, out, case):
        Dr = np.asarray(out[1], dtype=float); cmpd('reachdist', Dr, hop, diag_zero=False)
        k0 = len(res['fails']); _cmp_flag(res, 'reachdist', out[0], out[1], hop)
        res['fails'][k0:] = [(f, pr, {'spec': spec}) for f, pr, _ in res['fails'][k0:]]
    Dbd = None
    if nnz * n <= 4000000:                 # the Python BFS of breadth costs about nnz steps per source
        st, out = _bcall(res, 'breadthdist', bct.breadthdist, _rep(A, case), t=60)
        if _status(res, 'breadthdist', st, out, case):
            Dbd = np.asarray(out[1], dtype=float); cmpd('breadthdist', Dbd, hop, diag_zero=False)
            k0 = len(res['fails']); _cmp_flag(res, 'breadthdist', out[0], out[1], hop)
            res['fails'][k0:] = [(f, pr, {'spec': spec}) for f, pr, _ in res['fails'][k0:]]
    for s0 in [int(x) for x in rs.randint(n, size=3)]:
        st, out = _bcall(res, 'breadth', bct.breadth, _rep(A, case), s0, t=20)
        if _status(res, 'breadth', st, out, case):
            dd = np.asarray(out[0], dtype=float); m = np.arange(n) != s0
            if not np.array_equal(dd[m], hop[s0][m]):
                res['fails'].append(('breadth', 'min-length', small({'source': s0})))
            br = np.asarray(out[1], dtype=float)
            okb = br[s0] == -1 and all((not np.isfinite(hop[s0, v])) or v == s0 or
                                       (0 <= int(br[v]) < n and A[int(br[v]), v] != 0 and hop[s0, int(br[v])] + 1 == hop[s0, v]) for v in range(n))
            if not okb:
                res['fails'].append(('breadth', 'branch-predecessor', small({'source': s0})))
    st, out = _bcall(res, 'efficiency_bin', bct.efficiency_bin, _rep(A, case), t=30)
    if _status(res, 'efficiency_bin', st, out, case):
        want = meaninv_offdiag(hop)
        if not close(float(out), want):
            res['fails'].append(('efficiency_bin', 'mean-inverse', small({'E': float(out), 'oracle': want})))
    st, out = _bcall(res, 'distance_wei', bct.distance_wei, _rep(A, case), t=60)
    if _status(res, 'distance_wei', st, out, case):
        cmpd('distance_wei', out[0], hop); hopcheck('distance_wei', out[0], out[1], _lenmat(A), hop)
    # --- weighted routines
    st, out = _bcall(res, 'distance_wei', bct.distance_wei, _rep(Lw, case), t=60)
    Dw = None
    if _status(res, 'distance_wei', st, out, case):
        Dw = np.asarray(out[0], dtype=float); cmpd('distance_wei', Dw, dist); hopcheck('distance_wei', out[0], out[1], Lm, dist)
    st, out = _bcall(res, 'efficiency_wei', bct.efficiency_wei, _rep(W, case, f32=False), t=60)
    if _status(res, 'efficiency_wei', st, out, case):
        want = meaninv_offdiag(dist)
        if not close(float(out), want):
            res['fails'].append(('efficiency_wei', 'mean-inverse', small({'E': float(out), 'oracle': want})))
    if n <= 65 or nnz <= 6 * n:            # rout_efficiency also runs Floyd on every neighbourhood: keep it to small / sparse inputs
        for X, tr, oracleX in ((Lw, None, dist), (W, 'inv', dist), (A, 'log', zero_dist)):
            st, out = _bcall(res, 'rout_efficiency', bct.rout_efficiency, _rep(X, case, allow_int=tr is None, f32=False), tr, t=60)
            if _status(res, 'rout_efficiency:' + str(tr), st, out, case):
                want = meaninv_offdiag(oracleX)
                if not close(float(out[0]), want):
                    res['fails'].append(('rout_efficiency', 'mean-inverse', small({'transform': tr, 'GErout': float(out[0]), 'oracle': want,
                                                                                    'cond': {'zero_distance': bool(np.any(oracleX[od] == 0)), 'transform': tr or 'none'}})))
    # --- charpath on every distance matrix obtained above (all flags; positional oracle inside)
    for nm, Dn in (('distance_bin', Db), ('reachdist', Dr), ('breadthdist', Dbd), ('distance_wei', Dw), ('distance_wei_floyd', SPLb)):
        if Dn is not None:
            k0 = len(res['fails'])
            _charpath_block(bct, res, case, Dn, None, nm, lean=False)
            res['fails'][k0:] = [(f, pr, {a: b for a, b in info.items() if a not in ('D', 'ecc', 'oracle')} | {'spec': spec})
                                 for f, pr, info in res['fails'][k0:]]
    # --- Lean replay where fast enough
    if n <= 40 and Db is not None and Dr is not None and Dbd is not None:
        st2, o2 = call(bct.breadthdist, A.copy(), t=20, retry=10); st3, o3 = call(bct.reachdist, A.copy(), t=20, retry=10)
        if st2 == st3 == 'ok':
            res['lines'].append(('bin n=%d A=%s' % (n, mstr(A)),
                                 [('D', 'exact', mstr(Db)), ('bR', 'exact', istr(o2[0])), ('bD', 'exact', mstr(o2[1])),
                                  ('rR', 'exact', istr(o3[0])), ('rD', 'exact', mstr(o3[1])), ('cert', 'exact', '111')]))
        if Dw is not None:
            st4, o4 = call(bct.distance_wei, Lw.copy(), t=20, retry=10)
            if st4 == 'ok':
                res['lines'].append(('dijkstra n=%d A=%s' % (n, mstr(Lw)), [('D', 'exact', mstr(o4[0])), ('B', 'exact', istr(o4[1]))]))


def size_specs(rs, tier):
    """the size axis: quick = one slice, thorough = the bulk"""
    big = tier == 'thorough'
    S = []
    def add(**k):
        k.setdefault('seed', int(rs.randint(2 ** 31))); S.append(k)
    add(type='dense', n=33, p=.5); add(type='chain', n=33, chords=3); add(type='ring', n=34); add(type='outdeg1', n=40)
    add(type='dense', n=34, p=.3, directed=True); add(type='hubs', n=40, k=30)
    add(type='dense', n=64, p=.9); add(type='chain', n=65, chords=5); add(type='outdeg1', n=65); add(type='ring', n=64)
    add(type='dense', n=100, p=.93); add(type='chain', n=100, chords=0); add(type='hubs', n=129, k=127); add(type='outdeg1', n=129)
    add(type='relays', n=258, k=256); add(type='hubs', n=258, k=256); add(type='dense', n=300, p=.93)
    add(type='dense', n=280, p=.95, directed=True); add(type='chain', n=300, chords=0); add(type='ring', n=257)
    add(type='outdeg1', n=300); add(type='lollipop', n=260, c=50)
    if big:
        add(type='hubs', n=300, k=257); add(type='chain', n=257, chords=40)
        for _ in range(12):
            for n in (33, 34, 40, 64, 65, 100, 129):
                t = ['dense', 'chain', 'ring', 'outdeg1', 'hubs'][rs.randint(5)]
                add(type=t, n=n, p=float(rs.choice([.1, .5, .9, .95])), chords=int(rs.randint(0, 8)), k=int(rs.randint(2, n - 2)),
                    directed=bool(rs.rand() < .5))
        for _ in range(6):
            for n in (257, 258, 270, 300):
                t = ['dense', 'chain', 'ring', 'outdeg1', 'hubs', 'relays', 'lollipop'][rs.randint(7)]
                add(type=t, n=n, p=float(rs.choice([.9, .93, .96])), chords=int(rs.randint(0, 20)), k=int(rs.choice([255, 256, 257, n - 2])),
                    c=int(rs.choice([30, 50, 80])), directed=bool(rs.rand() < .4))
        add(type='hubs', n=516, k=512); add(type='relays', n=514, k=512)
    return [{'kind': 'size', 'A': [[0] * s_['n']], 'spec': s_, 'gen': 'size-' + s_['type']} for s_ in S]


def _run_reclimit(bct, case, res):
    """reachdist recurses once per matrix power (`reachdist2` calls itself): on a graph whose pairs are reached late (long chain)
    or never (disconnected: it recurses until powr > n) the number of nested calls is about the diameter resp. n, and a
    RecursionError is raised as soon as that exceeds the interpreter's recursion limit (n of about 1000 with the default limit).
    Cheap reproduction of exactly that mechanism: the same call with the limit lowered to (current stack depth + `extra`) on a
    chain that needs more than `extra` nested calls; `extra = None` runs with the interpreter's own limit (thorough: n = 1020).
    A control chain that needs fewer calls than `extra` must return the right answer under the same lowered limit."""
    import sys
    n = case['n']; extra = case.get('extra')
    A = np.zeros((n, n))
    for x in range(n - 1):
        A[x, x + 1] = A[x + 1, x] = 1
    oracle = bfs_fast(A)
    calls_needed = n - 2                      # powers 2 .. n-1 until the two ends of the chain reach each other
    res['stats']['multihop'] = 1; res['stats']['reclimit_cases'] = 1

    def limited(M):
        if extra is None:
            return bct.reachdist(M)
        depth = 0; f = sys._getframe()
        while f is not None:
            depth += 1; f = f.f_back
        old = sys.getrecursionlimit(); sys.setrecursionlimit(depth + extra)
        try:
            return bct.reachdist(M)
        finally:
            sys.setrecursionlimit(old)
    st, out = call(limited, A.copy(), t=case.get('t', 60.0), retry=3)
    res['stats']['calls:reachdist'] = res['stats'].get('calls:reachdist', 0) + 1
    limit_room = (extra if extra is not None else sys.getrecursionlimit()) - 25      # frames left for the nested calls
    if st == 'exc':
        res['fails'].append(('reachdist', 'raises', {'exception': out, 'n': n, 'recursion_extra': extra, 'nested_calls_needed': calls_needed,
                                                     'cond': {'storage': 'float', 'recursion_limit_reached': bool(out.startswith('RecursionError') and calls_needed >= limit_room)}}))
    elif st == 'timeout':
        res['fails'].append(('reachdist', 'does-not-return', {'n': n}))
    else:
        k0 = len(res['fails'])
        _cmp_dist(res, 'reachdist', out[1], oracle, diag_zero=False); _cmp_flag(res, 'reachdist', out[0], out[1], oracle)
        res['fails'][k0:] = [(f, pr, {'n': n, 'recursion_extra': extra}) for f, pr, _ in res['fails'][k0:]]


def lollipop(c, p):
    """clique on c nodes with a path of p further nodes attached (undirected): many walks and a large diameter"""
    n = c + p; A = np.zeros((n, n))
    A[:c, :c] = 1; np.fill_diagonal(A, 0)
    for x in range(c - 1, n - 1):
        A[x, x + 1] = A[x + 1, x] = 1
    return A


def _walk_count_overflows(A, steps):
    """does the number of walks (entries of A^k, k <= steps) leave the float range? (labels the known finding only)"""
    P = A.copy()
    for _ in range(int(steps)):
        P = P @ A
        if np.isinf(P).any():
            return True
    return False


def _run_big(bct, case, res):
    """large binary graphs (n up to ~250): real routines against the BFS oracle only, no model correspondence"""
    if case.get('lollipop'):
        A = lollipop(*case['lollipop'])
    else:
        A = np.array(case['A'], dtype=float)
    n = len(A)
    oracle = bfs_oracle(A)
    fin = oracle[np.isfinite(oracle)]
    cond = {'overflow': _walk_count_overflows(A, fin.max() + 1 if len(fin) else 1)}
    res['stats']['disconnected'] = int(np.isinf(oracle).any()); res['stats']['multihop'] = 1
    res['stats']['big_overflow'] = int(cond['overflow'])
    n0 = len(res['fails'])
    st, out = call(bct.distance_bin, A.copy(), t=60, retry=10)
    if _status(res, 'distance_bin', st, out, case):
        _cmp_dist(res, 'distance_bin', out, oracle)
    st, out = call(bct.reachdist, A.copy(), t=60, retry=10)
    if _status(res, 'reachdist', st, out, case):
        _cmp_dist(res, 'reachdist', out[1], oracle, diag_zero=False); _cmp_flag(res, 'reachdist', out[0], out[1], oracle)
    st, out = call(bct.breadthdist, A.copy(), t=60, retry=10)
    if _status(res, 'breadthdist', st, out, case):
        _cmp_dist(res, 'breadthdist', out[1], oracle, diag_zero=False); _cmp_flag(res, 'breadthdist', out[0], out[1], oracle)
    st, out = call(bct.distance_wei, A.copy(), t=120, retry=10)
    if _status(res, 'distance_wei', st, out, case):
        _cmp_dist(res, 'distance_wei', out[0], oracle)
        if not np.array_equal(np.where(np.isfinite(oracle), oracle, 0), np.asarray(out[1], dtype=float)):
            res['fails'].append(('distance_wei', 'edge-count', {'why': 'binary graph: B must equal the hop distance'}))
    st, out = call(bct.distance_wei_floyd, A.copy(), t=60, retry=10)
    if _status(res, 'distance_wei_floyd', st, out, case):
        _cmp_dist(res, 'distance_wei_floyd', out[0], oracle)
        if not np.array_equal(np.where(np.isfinite(oracle), oracle, 0), np.asarray(out[1], dtype=float)):
            res['fails'].append(('distance_wei_floyd', 'edge-count', {'why': 'binary graph: hops must equal the hop distance'}))
    st, out = call(bct.efficiency_bin, A.copy(), t=60, retry=10)
    if _status(res, 'efficiency_bin', st, out, case):
        want = meaninv_offdiag(oracle)
        if not close(float(out), want):
            res['fails'].append(('efficiency_bin', 'mean-inverse', {'E': float(out), 'oracle': want}))
    # keep replays small: drop the matrices from the details, the case regenerates them
    for k in range(n0, len(res['fails'])):
        f, pr, info = res['fails'][k]
        info = {a: b for a, b in info.items() if a not in ('out', 'oracle', 'R', 'D')}
        info['cond'] = cond
        res['fails'][k] = (f, pr, info)


def _run_wei(bct, case, res):
    Lm0 = np.array(case['A'], dtype=float); n = len(Lm0)     # lengths, 0 = no connection
    Lm = _lenmat(Lm0)
    oracle = minplus_closure(Lm)
    best = exact_k_lengths(Lm, max(1, n - 1))
    res['stats']['disconnected'] = int(np.isinf(oracle).any())
    res['stats']['multihop'] = int(np.any(np.isfinite(oracle[offdiag(n)]) & (oracle[offdiag(n)] < Lm[offdiag(n)])))
    # a tie: two different hop counts realise the minimum for some pair
    ties = 0
    for k1 in range(1, len(best)):
        for k2 in range(k1 + 1, len(best)):
            ties += int(np.any(np.isfinite(oracle) & (best[k1] == oracle) & (best[k2] == oracle) & offdiag(n)))
    res['stats']['ties'] = int(ties > 0)
    only = case.get('only') == 'floyd'
    st, out = ('skip', None) if only else _bcall(res, 'distance_wei', bct.distance_wei, _rep(Lm0, case))
    if not only and _status(res, 'distance_wei', st, out, case):
        D, B = out
        _cmp_dist(res, 'distance_wei', D, oracle)
        _cmp_hops(res, 'distance_wei', np.asarray(B), oracle, best)
        res['lines'].append(('dijkstra n=%d A=%s' % (n, mstr(Lm0)), [('D', 'exact', mstr(D)), ('B', 'exact', istr(B))]))
        _charpath_block(bct, res, case, np.asarray(D, dtype=float), oracle, 'distance_wei')
    _floyd_block(bct, res, case, Lm0, None, Lm, oracle, best, 0.0, True, rout=not only)
    nz = Lm0[Lm0 != 0]
    if len(nz) and np.all(np.log2(nz) == np.round(np.log2(nz))):
        # lengths are powers of two: the weight matrix W = 1/L is exact in floats, and so is 1/W
        W = np.zeros_like(Lm0); W[Lm0 != 0] = 1.0 / Lm0[Lm0 != 0]
        _floyd_block(bct, res, case, W, 'inv', Lm, oracle, best, 0.0, True, rout=not only)
        if not only and n >= 2:        # efficiency_wei_spec covers every non-negative weight matrix (weights > 1 included)
            st, out = _bcall(res, 'efficiency_wei', bct.efficiency_wei, _rep(W, case, f32=False))
            if _status(res, 'efficiency_wei', st, out, case):
                want = meaninv_offdiag(oracle)
                if not close(float(out), want):
                    res['fails'].append(('efficiency_wei', 'mean-inverse', {'E': float(out), 'oracle': want}))
                res['lines'].append(('effwei n=%d A=%s' % (n, mstr(W)), [('E', 'tol', float(out))]))


def _run_log(bct, case, res):
    """inexact float lengths: kind='log' (weights in (0,1], transform 'log'), kind='flt' (decimal lengths k/10, no transform),
    kind='abs' (exactly representable lengths of mixed scale, e.g. {1, 1e16}: big + small == big). Judged on the float lengths as
    numpy adds them (float min-plus closure, tolerance 1e-9); no model correspondence (the exact model keeps 1e16 + 1)."""
    W = np.array(case['A'], dtype=float); n = len(W)
    tr = 'log' if case['kind'] == 'log' else None
    if tr == 'log':
        with np.errstate(divide='ignore'):
            Lm = -np.log(W)
        Lm = Lm + 0.0
    else:
        Lm = _lenmat(W)
    oracle = minplus_closure(Lm)
    best = exact_k_lengths(Lm, max(1, n - 1))
    res['stats']['disconnected'] = int(np.isinf(oracle).any())
    res['stats']['multihop'] = 1
    only = case.get('only') == 'floyd'
    if tr is None and not only:
        st, out = call(bct.distance_wei, W.copy(), t=5, retry=10)
        if _status(res, 'distance_wei', st, out, case):
            _cmp_dist(res, 'distance_wei', out[0], oracle, TOL)
            _cmp_hops(res, 'distance_wei', np.asarray(out[1]), oracle, best, TOL)
    allone = tr == 'log' and bool(np.all((W == 0) | (W == 1)))      # lengths all 0: float arithmetic is exact
    res['stats']['log_weight_one'] = int(tr == 'log' and bool(np.any(W == 1)))
    _floyd_block(bct, res, case, W, tr, Lm, oracle, best, 0.0 if allone else TOL, allone, rout=not only)


def _run_nav(bct, case, res):
    L = np.array(case['A'], dtype=float); Dm = np.array(case['D'], dtype=float); n = len(L)
    mh = case.get('max_hops')
    # with max_hops given the walk is bounded (at most max_hops + 2 steps per pair): it must return (retry, then a verdict);
    # with max_hops=None termination is not claimed: counted, and bounded by the 20 % rule of timeout_rates
    Lin, Din = _rep(L, case), _rep(Dm, case)
    L0, D0 = Lin.copy(), Din.copy()
    st, out = call(bct.navigation_wu, Lin, Din, mh, t=case.get('t', 4.0), retry=0 if mh is None else 10)
    if not (np.array_equal(Lin, L0) and np.array_equal(Din, D0)):
        res['fails'].append(('navigation_wu', 'input-modified', {}))
    res['stats']['calls:navigation_wu'] = 1
    if st == 'timeout':
        if mh is not None:
            res['fails'].append(('navigation_wu', 'does-not-return', {'max_hops': mh}))
        res['stats']['timeout:navigation_wu'] = 1; return      # termination is not claimed (3-cycle of ties, max_hops=None)
    if st != 'ok':
        res['fails'].append(('navigation_wu', 'raises', {'exception': out})); return
    sr, PLb, PLw, PLd, paths = out
    PLb = np.asarray(PLb, dtype=float); PLw = np.asarray(PLw, dtype=float); PLd = np.asarray(PLd, dtype=float)
    nfail = 0; ok_paths = 0
    def fail(pred, info):
        res['fails'].append(('navigation_wu', pred, info))
    for i in range(n):
        if not (math.isinf(PLb[i, i]) and math.isinf(PLw[i, i]) and math.isinf(PLd[i, i])):
            fail('diagonal-infinite', {'i': i})
        for j in range(n):
            if i == j:
                continue
            p = [int(x) for x in paths.get((i, j), [])]
            info = {'i': i, 'j': j, 'path': p, 'PL_bin': fstr(PLb[i, j]), 'PL_wei': fstr(PLw[i, j]), 'PL_dis': fstr(PLd[i, j])}
            if not p or p[0] != i:
                fail('starts-at-source', info); continue
            if any(L[a, b] == 0 for a, b in zip(p[:-1], p[1:])):
                fail('existing-connections', info); continue
            # greedy clause of the mechanism: every step goes to the out-neighbour closest to the target (first minimum)
            for a, b in zip(p[:-1], p[1:]):
                nb = [x for x in range(n) if L[a, x] != 0]
                if b != min(nb, key=lambda x: (Dm[j, x], x)):
                    fail('greedy-step', info); break
            infs = [math.isinf(PLb[i, j]), math.isinf(PLw[i, j]), math.isinf(PLd[i, j])]
            if any(infs):
                nfail += 1
                if not all(infs):
                    fail('failed-infinite-in-all-three', info)
                if p[-1] == j:
                    fail('failed-but-arrived', info)
                continue
            ok_paths += 1
            if p[-1] != j:
                fail('ends-at-target', info)
            elif PLb[i, j] != len(p) - 1:
                fail('hop-count', info)
            elif PLw[i, j] != sum(L[a, b] for a, b in zip(p[:-1], p[1:])):
                fail('summed-length', info)
            elif PLd[i, j] != sum(Dm[a, b] for a, b in zip(p[:-1], p[1:])):
                fail('summed-distance', info)
    want_sr = 1 - nfail / (n * n - n)
    if not close(float(sr), want_sr):
        fail('success-ratio', {'sr': float(sr), 'oracle': want_sr})
    res['stats']['nav_paths_ok'] = ok_paths; res['stats']['nav_paths_failed'] = nfail
    res['stats']['multihop'] = int(np.any(np.isfinite(PLb) & (PLb >= 2)))
    res['stats']['disconnected'] = int(nfail > 0)
    fuel = max([len(p) for p in paths.values()] + [1]) + 2
    plist = [[int(x) for x in paths[(i, j)]] for i in range(n) for j in range(n) if i != j]
    res['lines'].append(('nav n=%d L=%s D=%s maxhops=%s fuel=%d' % (n, mstr(L), mstr(Dm), 'none' if mh is None else int(mh), fuel),
                         [('sr', 'tol', float(sr)), ('bin', 'exact', mstr(PLb)), ('wei', 'exact', mstr(PLw)), ('dis', 'exact', mstr(PLd)),
                          ('paths', 'exact', ';'.join(pstr(p) for p in plist) or '-')]))


def _run_bad(bct, case, res):
    A = np.array(case['A'], dtype=float); n = len(A)
    what = case['what']
    res['stats']['malformed:' + what] = 1
    if what == 'bad-transform':
        st, out = call(bct.distance_wei_floyd, A.copy(), 'sqrt', t=3, retry=10)
        res['stats']['calls:distance_wei_floyd'] = res['stats'].get('calls:distance_wei_floyd', 0) + 1
        if not (st == 'exc' and exc_kind(out) == 'ValueError'):
            res['fails'].append(('distance_wei_floyd', 'rejects-unknown-transform', {'status': st, 'out': str(out)[:100]}))
        res['lines'].append(('floyd n=%d A=%s transform=sqrt' % (n, mstr(A)), [('error', 'exact', 'ValueError')]))
    elif what == 'self-loops':
        # nonzero diagonal: outside the BCT convention, but the Floyd / Dijkstra / retrieve theorems (NonNeg only), distBin_isDist
        # and reachdist_correct (no hypothesis) still apply, so these routines are judged by the oracles as everywhere else
        # (a self-loop never shortens a path); only breadthdist (theorem needs the empty diagonal) is correspondence-only
        Lm = _lenmat(A)
        oracle = minplus_closure(Lm)
        best = exact_k_lengths(Lm, max(1, n - 1))
        only = case.get('only') == 'floyd'
        _floyd_block(bct, res, case, A, None, Lm, oracle, best, 0.0, True, rout=False)
        if only:
            return
        st, out = _bcall(res, 'distance_wei', bct.distance_wei, _rep(A, case))
        if _status(res, 'distance_wei', st, out, case):
            _cmp_dist(res, 'distance_wei', out[0], oracle)
            _cmp_hops(res, 'distance_wei', np.asarray(out[1]), oracle, best)
            res['lines'].append(('dijkstra n=%d A=%s' % (n, mstr(A)), [('D', 'exact', mstr(out[0])), ('B', 'exact', istr(out[1]))]))
        B = (A != 0).astype(float)
        horacle = bfs_oracle(B)
        st1, o1 = _bcall(res, 'distance_bin', bct.distance_bin, _rep(B, case))
        if _status(res, 'distance_bin', st1, o1, case):
            _cmp_dist(res, 'distance_bin', o1, horacle)
        st3, o3 = _bcall(res, 'reachdist', bct.reachdist, _rep(B, case, allow_int=REACHDIST_INT_OK))
        if _status(res, 'reachdist', st3, o3, case):
            _cmp_dist(res, 'reachdist', o3[1], horacle, diag_zero=False); _cmp_flag(res, 'reachdist', o3[0], o3[1], horacle)
        st2, o2 = _bcall(res, 'breadthdist', bct.breadthdist, _rep(B, case))
        _status(res, 'breadthdist', st2, o2, case)          # must return; values: correspondence only
        if st1 == st2 == st3 == 'ok':
            res['lines'].append(('bin n=%d A=%s' % (n, mstr(B)),
                                 [('D', 'exact', mstr(o1)), ('bR', 'exact', istr(o2[0])), ('bD', 'exact', mstr(o2[1])),
                                  ('rR', 'exact', istr(o3[0])), ('rD', 'exact', mstr(o3[1]))]))


# ------------------------------------------------------------------ generators

def graphs_exhaustive(n, directed, weights):
    return [A for A in all_graphs(n, directed, weights)]


def rand_len_graph(rs, n, density, directed, palette):
    A = (rs.rand(n, n) < density).astype(float) * rs.choice(palette, size=(n, n))
    np.fill_diagonal(A, 0)
    if not directed:
        A = np.triu(A, 1); A = A + A.T
    return A


def structured(rs, n, directed, palette):
    """graphs aimed at the mechanisms: chains with chords (long detours, late improvements), two components, stars"""
    t = rs.randint(4)
    A = np.zeros((n, n))
    p = rs.permutation(n)
    if t == 0:      # chain + heavier chords: multi-hop paths beat direct connections, equal-length alternatives
        for x in range(n - 1):
            A[p[x], p[x + 1]] = rs.choice(palette[:2] if len(palette) > 1 else palette)
        for _ in range(rs.randint(0, n + 1)):
            i, j = rs.randint(n, size=2)
            if i != j and A[i, j] == 0:
                A[i, j] = palette[-1]
    elif t == 1:    # two components
        h = max(1, n // 2)
        B = rand_len_graph(rs, n, .7, True, palette)
        B[np.ix_(p[:h], p[h:])] = 0; B[np.ix_(p[h:], p[:h])] = 0
        A = B
    elif t == 2:    # cycle with chords
        for x in range(n):
            A[p[x], p[(x + 1) % n]] = rs.choice(palette)
        for _ in range(rs.randint(0, 3)):
            i, j = rs.randint(n, size=2)
            if i != j:
                A[i, j] = rs.choice(palette)
    else:           # sinks / sources / isolated nodes
        A = rand_len_graph(rs, n, .5, True, palette)
        v = rs.randint(n); A[v, :] = 0
        if rs.rand() < .5:
            w = rs.randint(n); A[:, w] = 0
    np.fill_diagonal(A, 0)
    if not directed:
        A = np.maximum(A, A.T)
    return A


def _slice(rs, items, k):
    if len(items) <= k:
        return items
    idx = rs.choice(len(items), k, replace=False)
    return [items[i] for i in sorted(idx)]


FLT_WITNESS = [[0.0, 0.0, 0.0, 0.0, 0.0, 0.1, 0.1], [0.0, 0.0, 0.0, 0.7, 0.4, 0.0, 0.0], [0.0, 0.0, 0.0, 0.1, 0.0, 0.5, 0.0],
               [0.4, 0.0, 0.0, 0.0, 0.6, 0.1, 0.1], [0.0, 0.0, 0.0, 0.2, 0.0, 0.1, 0.0], [0.1, 0.0, 0.0, 0.0, 0.4, 0.0, 0.0],
               [0.2, 0.0, 0.3, 0.6, 0.5, 0.1, 0.0]]
ABS_WITNESS = [[0, 1, 1, 1, 0, 0], [1, 0, 0, 1, 0, 1e16], [0, 1e16, 0, 0, 0, 1e16], [0, 0, 0, 0, 1e16, 1e16], [0, 1e16, 0, 1, 0, 1],
               [0, 1e16, 1e16, 1, 1e16, 0]]       # AUDIT4: retrieve_shortest_path(3, 2) = [3, 4, 5, 2, 0]
LOG_WITNESS = [[0.0, 0.0, 0.0, 0.0625, 0.0625, 0.09375, 1.0, 0.0], [0.0, 0.0, 0.0625, 0.4375, 0.0, 0.0, 0.0, 0.625],
               [0.0, 0.0, 0.0, 0.875, 0.0, 0.0, 0.0, 0.0], [0.0, 0.0, 0.0, 0.0, 0.0, 0.0, 0.3125, 0.15625],
               [0.0, 0.09375, 0.0, 0.25, 0.0, 0.125, 0.0, 0.0], [0.375, 0.0, 0.09375, 0.0, 0.25, 0.0, 0.0, 0.0],
               [0.0, 0.0, 0.3125, 0.375, 0.0, 0.03125, 0.0, 0.5], [0.0, 0.0, 0.0, 0.5, 0.4375, 1.0, 0.0, 0.0]]


def gen_dist_cases(rs, tier):
    """cases for C03 / the retrieve half of C12"""
    big = tier == 'thorough'
    cases = []
    def add(kind, A, **k):
        c = {'kind': kind, 'A': np.asarray(A).tolist()}; c.update(k); cases.append(c)
    # --- binary, exhaustive
    for n in (1, 2, 3):
        for A in graphs_exhaustive(n, True, (1,)):
            add('bin', A, src=int(rs.randint(n)), gen='exh-dir-%d' % n)
    g4 = graphs_exhaustive(4, True, (1,))
    for A in (g4 if big else _slice(rs, g4, 260)):
        add('bin', A, src=int(rs.randint(4)), gen='exh-dir-4')
    for n in (4, 5):
        gu = graphs_exhaustive(n, False, (1,))
        for A in (gu if big else _slice(rs, gu, 60 if n == 4 else 120)):
            add('bin', A, src=int(rs.randint(n)), gen='exh-und-%d' % n)
    # --- weighted with ties, exhaustive
    for n in (2, 3):
        gw = graphs_exhaustive(n, True, (1, 2, 3))
        for A in (gw if big else _slice(rs, gw, 16 if n == 2 else 200)):
            add('wei', A, gen='exh-dir-w123-%d' % n)
    gw = graphs_exhaustive(3, True, (1, 2, 4))
    for A in (gw if big else _slice(rs, gw, 120)):
        add('wei', A, gen='exh-dir-w124-3')
    gw = graphs_exhaustive(4, False, (1, 2, 3))
    for A in (gw if big else _slice(rs, gw, 200)):
        add('wei', A, gen='exh-und-w123-4')
    gw = graphs_exhaustive(4, True, (1, 2))          # 3^12 = 531441: a slice even in the thorough tier
    for A in _slice(rs, gw, 20000 if big else 150):
        add('wei', A, gen='slice-dir-w12-4')
    if big:
        gw = graphs_exhaustive(5, False, (1, 2))     # 3^10 = 59049
        for A in _slice(rs, gw, 12000):
            add('wei', A, gen='slice-und-w12-5')
    for _ in range(6000 if big else 150):
        A = rand_len_graph(rs, 4, float(rs.choice([.4, .6, .8, 1.0])), True, [1, 2, 3])
        add('wei', A, gen='rand-dir-w123-4')
    # lengths 1/4, 1/2, 1 (and 1/8): the weight matrix 1/L has entries > 1 — efficiency_wei / 'inv' outside the docstring's (0,1]
    for _ in range(1500 if big else 60):
        n = int(rs.randint(3, 8))
        A = rand_len_graph(rs, n, float(rs.choice([.4, .6, .9])), bool(rs.rand() < .5), [.125, .25, .5, 1])
        add('wei', A, gen='rand-weights-gt1')
    # --- random larger
    nr = 2500 if big else 130
    for _ in range(nr):
        n = int(rs.randint(5, 11)); directed = bool(rs.rand() < .6)
        dens = float(rs.choice([.1, .2, .3, .5, .8]))
        pal = [[1, 2, 3], [1, 2, 4], [1, 2], [1, 1, 2, 3, 5, 8]][rs.randint(4)]
        if rs.rand() < .4:
            A = structured(rs, n, directed, pal)
        else:
            A = rand_len_graph(rs, n, dens, directed, pal)
        add('wei', A, gen='rand-w')
        if rs.rand() < .6:
            add('bin', (A != 0).astype(float), src=int(rs.randint(n)), gen='rand-bin')
    for _ in range(nr // 3):
        n = int(rs.randint(3, 10)); directed = bool(rs.rand() < .5)
        A = rand_len_graph(rs, n, float(rs.choice([.2, .4, .7])), directed, [1, 2, 4]) if rs.rand() < .6 else structured(rs, n, directed, [1, 2, 4])
        W = np.zeros_like(A); W[A != 0] = 1.0 / A[A != 0]
        if rs.rand() < .5:
            W = W * (rs.randint(1, 9, size=W.shape) / 8.0) if directed else W   # weights k/8·2^-j in (0,1]
        add('log', W, gen='rand-log')
    # 'log' with weights exactly 1 (zero-length connections): binary matrices, mixtures {1, 1/2, 1/4}, matrices normalised by
    # their maximum; chains / trees among them have unique paths, hence no exact tie (known finding cannot mask them)
    for _ in range(nr // 2):
        n = int(rs.randint(3, 9)); directed = bool(rs.rand() < .6)
        kind = rs.randint(4)
        if kind == 0:
            W = (rand_len_graph(rs, n, float(rs.choice([.25, .5])), directed, [1]) != 0).astype(float)          # binary + 'log'
        elif kind == 1:
            W = structured(rs, n, directed, [1])                                                                    # chains/cycles of weight 1
        elif kind == 2:
            A = rand_len_graph(rs, n, float(rs.choice([.3, .5])), directed, [1, 2, 4])
            W = np.zeros_like(A); W[A != 0] = 1.0 / A[A != 0]                                                        # mixtures 1, 1/2, 1/4
        else:
            A = rand_len_graph(rs, n, float(rs.choice([.3, .5])), directed, [1, 2, 3, 5, 7])
            W = A / A.max() if A.max() > 0 else A                                                                    # normalised by the maximum
        add('log', W, gen='log-weight-one')
    for A in ([[0, 1, 0], [0, 0, 1], [0, 0, 0]], [[0, 1, 0, 0], [0, 0, .5, 0], [0, 0, 0, 1], [0, 0, 0, 0]],
              [[0, 1, 1], [1, 0, 1], [1, 1, 0]]):
        add('log', A, gen='log-weight-one-fixed')
    # --- size axis
    cases.extend(size_specs(rs, tier))
    # --- reachdist's recursion depth (one nested call per matrix power): lowered limit on a chain that needs more nested calls
    # than the limit leaves, a control chain that needs fewer, and (thorough) the real thing: n = 1020 with the default limit
    cases.append({'kind': 'reclimit', 'A': [[0] * 120], 'n': 120, 'extra': 70, 'gen': 'reachdist-recursion'})
    cases.append({'kind': 'reclimit', 'A': [[0] * 30], 'n': 30, 'extra': 70, 'gen': 'reachdist-recursion-control'})
    if big:
        cases.append({'kind': 'reclimit', 'A': [[0] * 1020], 'n': 1020, 'extra': None, 't': 900.0, 'gen': 'reachdist-recursion-1020'})
    # --- inexact float lengths (decimal k/10, no transform): oracle by tolerance only
    for _ in range(nr):
        n = int(rs.randint(4, 10)); directed = bool(rs.rand() < .7)
        A = rand_len_graph(rs, n, float(rs.choice([.3, .5, .7])), directed, [1, 2, 3, 4, 5, 6, 7]) / 10.0
        add('flt', A, gen='rand-decimal')
    # absorbed lengths: exactly representable, but big + small == big in floats
    for _ in range(nr // 2):
        n = int(rs.randint(4, 8)); directed = bool(rs.rand() < .7)
        pal = [[1.0, 1e16], [2.0 ** -60, 1.0], [1.5e-300, 1.0]][rs.randint(3)]
        A = rand_len_graph(rs, n, float(rs.choice([.35, .5, .7])), directed, pal)
        add('abs', A, gen='rand-absorbed')
    add('abs', ABS_WITNESS, gen='witness-absorbed')
    # two fixed witnesses of the float-rounding finding of C12 (ties up to rounding), always run
    add('flt', FLT_WITNESS, gen='witness-decimal')
    add('log', LOG_WITNESS, gen='witness-log')
    # --- large binary graphs (oracle only): lollipops (huge walk counts + large diameter), sparse random graphs
    for cp in ([(50, 185), (12, 120)] if not big else [(50, 185), (12, 120), (60, 200), (30, 150), (80, 170)]):
        cases.append({'kind': 'big', 'A': [[0] * (cp[0] + cp[1])], 'lollipop': list(cp), 'gen': 'lollipop'})
    for _ in range(2 if not big else 12):
        n = int(rs.randint(60, 200))
        add('big', rand_len_graph(rs, n, float(rs.choice([1.5, 3, 6])) / n, bool(rs.rand() < .5), [1]), gen='rand-big')
    # --- malformed stream
    for _ in range(45 if not big else 300):
        n = int(rs.randint(2, 7))
        A = rand_len_graph(rs, n, .5, True, [1, 2, 3])
        if rs.rand() < .3:
            add('bad', A, what='bad-transform')
        else:
            for i in range(n):
                if rs.rand() < .5:
                    A[i, i] = rs.choice([1, 2, 3])
            add('bad', A, what='self-loops')
    # weighted representation (35 % of the binary cases) and the non-default ensure_binary=False (15 %)
    for c in cases:
        if c['kind'] == 'bin':
            n_ = len(c['A'])
            if rs.rand() < .35:
                c['wrep'] = rs.choice([.25, .5, 2, 3, 5], size=(n_, n_)).tolist()
            if rs.rand() < .15:
                c['opt_nobin'] = True
    # explicit short sequences on same-size inputs: weighted representation / binary / weighted again, lengths in between
    for _ in range(300 if big else 25):
        n = int(rs.randint(3, 8)); directed = bool(rs.rand() < .6)
        def one(kind):
            A = rand_len_graph(rs, n, float(rs.choice([.3, .5, .7])), directed, [1] if kind == 'bin' else [1, 2, 3])
            c = {'kind': kind, 'A': A.tolist(), 'src': int(rs.randint(n))}
            if kind == 'bin' and rs.rand() < .7:
                c['wrep'] = rs.choice([.25, .5, 2, 3, 5], size=(n, n)).tolist()
            if kind == 'bin' and rs.rand() < .3:
                c['opt_nobin'] = True
            return c
        pat = [['bin', 'bin', 'bin'], ['bin', 'wei', 'bin'], ['wei', 'bin', 'wei'], ['bin', 'bin', 'wei', 'bin']][rs.randint(4)]
        cases.append({'kind': 'seq', 'A': [[0] * n] * n, 'steps': [one(k) for k in pat], 'gen': 'sequence'})
    # object-reuse probes, every routine of the property
    for k in range(500 if big else 50):
        cases.append(gen_probe(rs, PROBE_ROUTINES[k % len(PROBE_ROUTINES)]))
    # representation axis for a third of the binary / integer-length cases: dtype, memory order; scale (exact power of two)
    for c in cases:
        if c['kind'] in ('bin', 'wei') and rs.rand() < .35:
            dts = DTYPES_BIN if c['kind'] == 'bin' else DTYPES_INT
            c['rep'] = (dts[rs.randint(len(dts))], ['C', 'F', 'T'][rs.randint(3)])
        if c['kind'] == 'wei' and rs.rand() < .15:
            k = float(2.0 ** int(rs.choice([-3, 3, 10])))
            c['A'] = (np.asarray(c['A'], dtype=float) * k).tolist(); c['scale'] = k
    return cases


def gen_probe(rs, routine):
    n = int(rs.randint(4, 8)); und = bool(rs.rand() < .4)
    binr = routine in ('distance_bin', 'breadthdist', 'reachdist', 'reachdist_nobin', 'breadth', 'efficiency_bin', 'pair_bin_reach',
                       'edit_distance_bin', 'edit_reachdist', 'edit_breadthdist')
    pal = [1] if binr else [1, 2, 4]
    A = rand_len_graph(rs, n, .5, not und, pal)
    for _ in range(20):
        if np.count_nonzero(A) >= 2:
            break
        A = rand_len_graph(rs, n, .6, not und, pal)
    E = np.argwhere(A != 0); Z = np.argwhere((A == 0) & ~np.eye(n, dtype=bool))
    e1 = E[rs.randint(len(E))] if len(E) else np.array([0, 1])
    e2 = Z[rs.randint(len(Z))] if len(Z) else e1
    c = {'kind': 'probe', 'routine': routine, 'A': A.tolist(), 'und': und, 'lesion': [int(e1[0]), int(e1[1])],
         'add': [int(e2[0]), int(e2[1])], 'w': float(pal[rs.randint(len(pal))]), 's': int(rs.randint(n)), 'gen': 'probe'}
    if routine == 'navigation_wu':
        P = rs.randint(0, 4, size=(n, 2))
        c['D'] = np.abs(P[:, None, :] - P[None, :, :]).sum(2).astype(float).tolist()
    return c


def gen_nav_cases(rs, tier):
    big = tier == 'thorough'
    cases = []
    def nodal(n, kind):
        if kind == 0:    # points on a small integer grid, Manhattan distance (many ties)
            P = rs.randint(0, 4, size=(n, 2))
            return np.abs(P[:, None, :] - P[None, :, :]).sum(2).astype(float)
        if kind == 1:    # ring distance
            return np.array([[min(abs(i - j), n - abs(i - j)) for j in range(n)] for i in range(n)], dtype=float)
        D = rs.randint(1, 6, size=(n, n)).astype(float); D = np.triu(D, 1); return D + D.T
    # exhaustive undirected graphs on 4 nodes x ring distance x max_hops
    g4 = graphs_exhaustive(4, False, (1,))
    for A in g4:
        for mh in ((None, 1, 2, 4) if big else (None, int(rs.randint(1, 4)))):
            L = A * (rs.randint(1, 4, size=A.shape)); L = np.triu(L, 1); L = L + L.T
            cases.append({'kind': 'nav', 'A': L.tolist(), 'D': nodal(4, int(rs.randint(3))).tolist(), 'max_hops': mh, 'gen': 'exh-und-4'})
    g3 = graphs_exhaustive(3, True, (1, 2))
    for A in (g3 if big else _slice(rs, g3, 80)):
        cases.append({'kind': 'nav', 'A': A.tolist(), 'D': nodal(3, int(rs.randint(3))).tolist(),
                      'max_hops': [None, 1, 2, 3][rs.randint(4)], 'gen': 'exh-dir-w12-3'})
    for _ in range(1500 if big else 150):
        n = int(rs.randint(4, 11)); directed = bool(rs.rand() < .4)
        A = rand_len_graph(rs, n, float(rs.choice([.2, .35, .5, .8])), directed, [1, 2, 3]) if rs.rand() < .7 else structured(rs, n, directed, [1, 2, 3])
        cases.append({'kind': 'nav', 'A': A.tolist(), 'D': nodal(n, int(rs.randint(3))).tolist(),
                      'max_hops': [None, 1, 2, n][rs.randint(4)], 'gen': 'rand'})
    for c in cases:      # representation axis (integer lengths and integer nodal distances)
        if rs.rand() < .35:
            c['rep'] = (DTYPES_INT[rs.randint(len(DTYPES_INT))], ['C', 'F', 'T'][rs.randint(3)])
    return cases


# ------------------------------------------------------------------ driver in parallel chunks

def run_driver_parallel(lines, procs=8):
    """run the Lean model driver on chunks of lines in parallel threads (each chunk is one `lean --run` process)"""
    if not lines:
        return []
    from concurrent.futures import ThreadPoolExecutor
    k = max(1, min(procs, len(lines) // 200 + 1))
    size = (len(lines) + k - 1) // k
    chunks = [lines[i:i + size] for i in range(0, len(lines), size)]
    with ThreadPoolExecutor(len(chunks)) as ex:
        outs = list(ex.map(lambda ch: run_driver('Dist', ch, timeout=1500), chunks))
    return [o for ch in outs for o in ch]


def drive(ck, cases, results, label):
    """send every prepared line to the model, compare, record correspondence breaks"""
    lines, specs, owner = [], [], []
    for ci, r in enumerate(results):
        for ln, spec in r['lines']:
            lines.append(ln); specs.append(spec); owner.append(ci)
    try:
        outs = run_driver_parallel(lines)
    except DriverError as e:
        ck.corr_break('Dist driver', str(e)); return
    nd = 0
    for ln, spec, o, ci in zip(lines, specs, outs, owner):
        why = compare(o, spec)
        if why is not None:
            nd += 1
            if nd <= 5:
                ck.corr_break('Dist model vs bct (%s)' % ln.split(' ', 1)[0], {'line': ln[:600], 'why': why, 'case': cases[ci]})
    ck.cov['traces_validated_against_impl'] = ck.cov.get('traces_validated_against_impl', 0) + len(outs) - nd
    ck.count('correspondence_lines:' + label, len(outs)); ck.count('correspondence_disagreements', nd)


TIMEOUT_RATE_LIMIT = float(os.environ.get('VERIF_TIMEOUT_RATE', '0.20'))


def timeout_rates(ck):
    """every watchdog hit is counted per routine (`timeout:<f>` / `calls:<f>` in the evidence). For every routine except
    navigation_wu(max_hops=None) a timeout (after the 10x retry) is already a violation `does-not-return`; for the unbounded
    navigation calls, whose termination is not claimed, more than 20 % timeouts is a break (the property is then unobserved)"""
    rates = {}
    for k, v in list(ck.dist.items()):
        if k.startswith('timeout:'):
            f = k.split(':', 1)[1]
            calls = ck.dist.get('calls:' + f, 0)
            rates[f] = (v, calls)
            if calls and v / calls > TIMEOUT_RATE_LIMIT:
                ck.breaks.append({'kind': 'timeout-rate', 'function': f, 'timeouts': v, 'calls': calls,
                                  'limit': TIMEOUT_RATE_LIMIT})
    ck.cov['timeouts'] = {f: {'timeouts': a, 'calls': b} for f, (a, b) in rates.items()}


def absorb(ck, cases, results, funcs=None):
    """fold the per-case results into the Check: coverage counters and violations (restricted to `funcs` if given)"""
    for c, r in zip(cases, results):
        ck.count('kind:' + c['kind']); ck.count('n=%d' % (c['spec']['n'] if c.get('spec') else sum(c['lollipop']) if c.get('lollipop') else len(c['A']))); ck.count('gen:' + c.get('gen', '-'))
        if c.get('rep'):
            ck.count('rep:%s/%s' % tuple(c['rep']))
        if c.get('scale'):
            ck.count('scaled')
        for k, v in r['stats'].items():
            if v:
                ck.count(k, v)
        nontriv = r['stats'].get('multihop') or r['stats'].get('disconnected')
        ck.case(sample={'kind': c['kind'], 'A': c['A'], 'gen': c.get('gen')} if nontriv and r['stats'].get('ties') else None,
                nontrivial_key=digest([c['kind'], c['A'], c.get('D'), c.get('max_hops')]) if nontriv else None)
        for func, pred, info in r['fails']:
            base = func.split(':')[0]
            if funcs is not None and base not in funcs:
                continue
            cond = {'function': base, 'kind': c['kind']}
            cond.update(info.get('cond', {}) if isinstance(info, dict) else {})
            ck.violation(base, pred, {'case': c, 'call': func, 'info': info}, cond)
