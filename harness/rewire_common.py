"""Case generation, execution and oracles shared by C01 (degrees / weights) and C11 (connectivity, lattice cost, mask)."""
import numpy as np
from common import *  # noqa

ROUTINES = ['randmio_dir', 'randmio_und', 'randmio_dir_connected', 'randmio_und_connected',
            'latmio_dir', 'latmio_und', 'latmio_dir_connected', 'latmio_und_connected', 'partial_und', 'randomizer_bin_und']
UND = {'randmio_und', 'randmio_und_connected', 'latmio_und', 'latmio_und_connected', 'partial_und', 'randomizer_bin_und'}
CONN = {'randmio_dir_connected', 'randmio_und_connected', 'latmio_dir_connected', 'latmio_und_connected'}
LAT = {'latmio_dir', 'latmio_und', 'latmio_dir_connected', 'latmio_und_connected'}


def two_disjoint_edges(A, und):
    n = len(A)
    E = [(i, j) for i in range(n) for j in range(n) if A[i, j] != 0 and (not und or i > j)]
    for x in range(len(E)):
        for y in range(x + 1, len(E)):
            if len({E[x][0], E[x][1], E[y][0], E[y][1]}) == 4:
                return True
    return False


def partial_swap_feasible(A, B):
    """randomize_graph_partial_und loops until maxswap swaps succeeded: is there at least one admissible swap now?"""
    A = np.asarray(A); B = np.asarray(B); n = len(A)
    E = [(i, j) for i in range(n) for j in range(i + 1, n) if A[i, j] != 0]
    for x in range(len(E)):
        for y in range(len(E)):
            if x == y:
                continue
            a, b = E[x]
            for (c, d) in (E[y], E[y][::-1]):
                if len({a, b, c, d}) == 4 and not (A[a, d] or A[c, b] or B[a, d] or B[c, b] or B[d, a] or B[b, c]):
                    return True
    return False


def reach_closure(A):
    n = len(A)
    Rm = (A != 0) | np.eye(n, dtype=bool)
    for k in range(n):
        Rm = Rm | (Rm[:, [k]] & Rm[[k], :])
    return Rm


def strongly_connected(A):
    return bool(reach_closure(A).all())


def run_case(case):
    """case = dict(routine, A(list), itr, seed, D(optional list), B(optional list)).
    Returns dict(status, out..., draws, fails=[(predicate, info)], extra={...})."""
    bct = import_bct()
    r = case['routine']; den = case.get('den', 1)
    A = np.array(case['A'], dtype=float) / den; n = len(A)      # den is a power of two: exact
    if case.get('order') == 'F':
        A = np.asfortranarray(A)
    elif case.get('order') == 'T':
        A = np.ascontiguousarray(A.T).T                          # transposed view of a C array
    if case.get('dtype'):
        A = A.astype(case['dtype'])                              # storage axis: the integer weights fit the dtype exactly
    rec = Recorder(case['seed'])
    t = case.get('t', 4.0)
    A0 = A.copy()
    if r == 'partial_und':
        B = np.array(case['B'], dtype=float)
        st, out = call(bct.randomize_graph_partial_und, A, B, case['itr'], seed=rec, t=t)
    elif r == 'randomizer_bin_und':
        st, out = call(bct.randomizer_bin_und, A, case['alpha'], seed=rec, t=t)
    elif r in LAT:
        D = np.array(case['D'], dtype=float) if case.get('D') is not None else None
        st, out = call(getattr(bct, r), A, case['itr'], D=D, seed=rec, t=t)
    else:
        st, out = call(getattr(bct, r), A, case['itr'], seed=rec, t=t)
    res = {'status': st, 'draws': rec.flat(), 'fails': [], 'extra': {}}
    if not np.array_equal(A, A0):
        res['fails'].append(('input-modified', {}))      # judged even when the call raised or timed out
    if st == 'exc':
        res['exc'] = out
        return res
    if st != 'ok':
        return res
    und = r in UND
    if r in LAT:
        Rlatt, Rrp, ind, eff = out
        R = np.asarray(Rlatt, dtype=float); ind = np.asarray(ind)
        res['Rrp'] = np.asarray(Rrp).tolist(); res['ind'] = ind.tolist()
        if not np.array_equal(R[np.ix_(ind, ind)], np.asarray(Rrp)):
            res['fails'].append(('latt-reindex', {'ind': ind.tolist()}))
    elif r == 'partial_und':
        R = np.asarray(out, dtype=float); eff = None
    elif r == 'randomizer_bin_und':
        R = np.asarray(out, dtype=float); eff = None
    else:
        R, eff = out; R = np.asarray(R, dtype=float)
    if den != 1:
        # report results on the integer scale of case['A'] (exact: den is a power of two)
        R = R * den; A = A * den
        if r in LAT:
            res['Rrp'] = (np.asarray(Rrp, dtype=float) * den).tolist(); Rrp = np.asarray(Rrp, dtype=float) * den
    res['R'] = R.tolist(); res['eff'] = None if eff is None else int(eff)
    F = res['fails']
    Ab = A != 0; Rb = R != 0
    if r == 'randomizer_bin_und':
        A = Ab.astype(float); Ab = A != 0
    if not np.array_equal(Ab.sum(1), Rb.sum(1)):
        F.append(('out-degree', {}))
    if not np.array_equal(Ab.sum(0), Rb.sum(0)):
        F.append(('in-degree', {}))
    if not np.array_equal(np.sort(A[Ab]), np.sort(R[Rb])):
        F.append(('weight-multiset', {}))
    if np.any(np.diag(R) != np.diag(A)):
        F.append(('diagonal', {}))
    if und and not np.array_equal(R, R.T):
        F.append(('symmetry', {}))
    if not und and not np.array_equal(A.sum(1), R.sum(1)):
        F.append(('out-strength', {}))
    if (case.get('itr') == 0 or eff == 0) and r != 'randomizer_bin_und' and not np.array_equal(A, R):
        F.append(('zero-rewirings-identity', {}))
    if r == 'randomizer_bin_und' and case.get('alpha') == 0 and not np.array_equal(A, R):
        F.append(('zero-rewirings-identity', {}))
    # C11 extras
    X = res['extra']
    if r in CONN:
        X['in_conn'] = strongly_connected(A)
        X['out_conn'] = strongly_connected(R)
    if r in LAT:
        D = np.array(case['D'], dtype=float) if case.get('D') is not None else default_D(n)
        Ap = A[np.ix_(ind, ind)]
        X['cost_in'] = float((D * Ap).sum()); X['cost_out'] = float((D * np.asarray(Rrp)).sum())
    if r == 'partial_und':
        B = np.array(case['B'], dtype=float)
        X['new_in_mask'] = int(((R != 0) & (A == 0) & (B != 0)).sum())
    return res


def pick_dtype(rs, A):
    """a storage dtype that holds the integer-valued matrix A exactly (the usual ways of storing a binary / integer network)"""
    A = np.asarray(A)
    opts = ['int64', 'int32', 'float32']
    if A.min() >= 0 and A.max() <= 255:
        opts.append('uint8')
    if set(np.unique(A)) <= {0, 1}:
        opts += ['bool', 'bool']
    return str(rs.choice(opts))


def default_D(n):
    D = np.zeros((n, n))
    for i in range(n):
        for j in range(n):
            df = abs(i - j); D[i, j] = min(df, n - df)
    return D


def lean_line(case, res):
    r = case['routine']; A = np.array(case['A']); n = len(A)
    s = '%s n=%d itr=%d R=%s draws=%s' % (r, n, case['itr'], mat_str(A), ','.join(map(str, res['draws'])) or '-')
    if r == 'partial_und':
        s += ' B=' + mat_str(np.array(case['B']))
    if r in LAT and case.get('D') is not None:
        s += ' D=' + mat_str(np.array(case['D']))
    return s


def expected_line(case, res):
    r = case['routine']
    if res['status'] == 'exc':
        return 'error=' + exc_kind(res['exc'])
    if r in LAT:
        return 'Rlatt=%s Rrp=%s eff=%d left=0' % (mat_str(np.array(res['R'])), mat_str(np.array(res['Rrp'])), res['eff'])
    if r == 'partial_und':
        return 'R=%s eff=%d left=0' % (mat_str(np.array(res['R'])), case['itr'])
    return 'R=%s eff=%d left=0' % (mat_str(np.array(res['R'])), res['eff'])


# ---------------------------------------------------------------- generators

def spanning_plus(rs, n, extra, directed, wmax):
    """connected sparse graph: random spanning tree (und) / Hamiltonian cycle (dir) plus a few chords"""
    A = np.zeros((n, n)); p = rs.permutation(n)
    if directed:
        for x in range(n):
            A[p[x], p[(x + 1) % n]] = 1
    else:
        for x in range(1, n):
            y = rs.randint(x); A[p[x], p[y]] = A[p[y], p[x]] = 1
    for _ in range(extra):
        i, j = rs.randint(n, size=2)
        if i != j:
            A[i, j] = 1
            if not directed:
                A[j, i] = 1
    W = rs.randint(1, wmax + 1, size=(n, n)).astype(float)
    if not directed:
        W = np.triu(W, 1); W = W + W.T
    return A * W


def gen_cases(rs, tier, routines=ROUTINES):
    """structured, mostly valid inputs; every random choice from rs"""
    cases = []
    big = tier == 'thorough'
    nrand = 60 if not big else 500
    for r in routines:
        und = r in UND
        if r == 'randomizer_bin_und':
            for _ in range(nrand * 2):
                n = int(rs.randint(4, 10)); dens = float(rs.choice([.15, .3, .5, .7, .85]))
                A = rand_graph(rs, n, dens, False)
                # structured corners: hubs (full nodes) and isolated nodes, in sparse and in dense (complemented) graphs
                kind = rs.randint(6)
                if kind == 0 and n > 4:
                    v = rs.randint(n); A[v, :] = 1; A[:, v] = 1; A[v, v] = 0
                elif kind == 1 and n > 4:
                    v = rs.randint(n); A[v, :] = 0; A[:, v] = 0
                elif kind == 2 and n > 5:
                    v, w = rs.choice(n, 2, replace=False); A[v, :] = 1; A[:, v] = 1; A[v, v] = 0; A[w, :] = 0; A[:, w] = 0
                cases.append({'routine': r, 'A': A.tolist(), 'itr': 1, 'alpha': float(rs.choice([0, .5, 1.0, 1.0])), 'seed': int(rs.randint(2 ** 31))})
                if rs.rand() < .4:
                    cases[-1]['dtype'] = pick_dtype(rs, A)
            continue
        # exhaustive small graphs (a slice of them in the quick tier)
        nsmall = 4
        small = [A for A in all_graphs(nsmall, not und) if two_disjoint_edges(A, und)]
        if not big and len(small) > 150:
            idx = rs.choice(len(small), 150, replace=False); small = [small[i] for i in idx]
        for A in small:
            if r in CONN and not strongly_connected(A):
                if rs.rand() > .1:
                    continue
            for itr in ((0, 1, 2) if big else (int(rs.randint(0, 3)),)):
                c = {'routine': r, 'A': A.tolist(), 'itr': itr, 'seed': int(rs.randint(2 ** 31))}
                if r in CONN and und and not strongly_connected(A):
                    c['malformed'] = 'disconnected'
                if r == 'partial_und':
                    c['B'] = rand_graph(rs, nsmall, .2, False).tolist()
                    if c['itr'] > 0 and not partial_swap_feasible(np.array(c['A']), np.array(c['B'])):
                        c['itr'] = 0
                cases.append(c)
        for _ in range(nrand):
            n = int(rs.randint(5, 11 if not big else 15))
            if rs.rand() < (.1 if not big else .15):
                # size axis: sizes around the thresholds a size-dependent code path would use (16/17, 32/33/34, 64/65)
                n = int(rs.choice([16, 17, 24, 32, 33, 34, 40, 64, 65] if big else [16, 17, 33, 34, 40, 65]))
            wmax = int(rs.choice([1, 9, 2]))
            if r in CONN or rs.rand() < .3:
                A = spanning_plus(rs, n, int(rs.randint(0, n)), not und, wmax)
            else:
                A = rand_graph(rs, n, float(rs.choice([.15, .3, .5, .8])), not und, wmax)
            if wmax == 2:
                # signed small-integer weights (equal magnitudes of opposite sign): "weighted" includes signed
                S = rs.choice([-1.0, 1.0], size=(n, n))
                if und:
                    S = np.triu(S, 1); S = S + S.T
                A = A * S
            if not two_disjoint_edges(A, und):
                continue
            c = {'routine': r, 'A': A.tolist(), 'itr': int(rs.randint(0, 4)), 'seed': int(rs.randint(2 ** 31))}
            if n > 15:
                c['itr'] = int(rs.randint(0, 2)); c['t'] = 20.0
            u = rs.rand()
            if u < .25 and wmax != 1:
                # representation axis: the same weights in tiny units (all or some entries below 1e-8): "weighted"
                # includes arbitrarily small weights; the model sees the integers, bct the exact dyadic floats
                c['den'] = int(2 ** int(rs.choice([30, 40]))); c['itr'] = max(1, c['itr'])
                if rs.rand() < .5:
                    bigm = rs.rand(n, n) < .5
                    if und:
                        bigm = np.triu(bigm, 1); bigm = bigm | bigm.T
                    c['A'] = (A * np.where(bigm, c['den'], 1)).tolist()      # mixed scales: some unit-scale, some tiny
            elif u < .4:
                c['order'] = str(rs.choice(['F', 'T']))
            elif u < .65:
                c['dtype'] = pick_dtype(rs, A)
            if r == 'partial_und':
                c['B'] = rand_graph(rs, n, float(rs.choice([0, .2, .5])), False).tolist()
                c['itr'] = int(rs.randint(0, 6))
                if c['itr'] > 0 and not partial_swap_feasible(np.array(c['A']), np.array(c['B'])):
                    c['itr'] = 0      # no admissible swap: the routine would spin forever (termination is not claimed)
            if r in LAT and rs.rand() < .4:
                D = rs.randint(0, 6, size=(n, n)).astype(float)
                if und:
                    D = np.triu(D, 1); D = D + D.T
                c['D'] = D.tolist()
            cases.append(c)
        # malformed stream: asymmetric / disconnected input to routines that must reject it
        if r in ('randmio_und', 'randmio_und_connected', 'latmio_und_connected'):
            for _ in range(6):
                n = int(rs.randint(4, 8)); A = rand_graph(rs, n, .5, True)
                if np.array_equal(A, A.T):
                    continue
                cases.append({'routine': r, 'A': A.tolist(), 'itr': 1, 'seed': 1, 'malformed': 'asymmetric'})
        if r in ('randmio_und_connected', 'latmio_und_connected'):
            for _ in range(6):
                n = int(rs.randint(5, 9)); A = rand_graph(rs, n, .5, False); A[0, :] = 0; A[:, 0] = 0
                cases.append({'routine': r, 'A': A.tolist(), 'itr': 1, 'seed': 1, 'malformed': 'disconnected'})
    return cases
