"""History across calls for the C06 / C20 checks (own file of those slices; nothing here edits common.py).

Cases are not run one per task: the shuffled case list is cut into *batches*; each batch runs sequentially in a worker
process of its own (a fresh fork, `maxtasksperchild=1`), so that hidden state carried between bct calls (module-level
caches keyed by n, shared masks narrowed in place, memoised templates) is exercised by whatever sibling routine / option /
equal-size input happens to precede the call under test - and the batch prefix is the complete history of that process, so
a failure is replayable as `history + case`.  Explicit hand-written sequences are just additional, unshuffled batches."""
import multiprocessing as mp
import os
import common


def make_batches(rs, cases, size, explicit=()):
    """shuffle `cases` with rs and cut into batches of `size`; `explicit` batches (lists of cases) are kept in order"""
    order = [int(i) for i in rs.permutation(len(cases))]
    shuffled = [cases[i] for i in order]
    batches = [list(b) for b in explicit]
    batches += [shuffled[i:i + size] for i in range(0, len(shuffled), size)]
    return batches


def _run_batch(arg):
    func, batch = arg
    return [func(c) for c in batch]


def run_batches(func, batches, procs=None):
    """-> (cases, results, hist): flattened in batch order; hist[i] = the cases that ran before case i in its process"""
    procs = procs or min(16, os.cpu_count() or 4)
    items = [(_run_batch, (func, b)) for b in batches]
    if len(batches) <= 1:
        out = [_run_batch((func, b)) for b in batches]
    else:
        ctx = mp.get_context('fork')
        saved = {k: dict(v) for k, v in common._OUTCOMES.items()}
        with ctx.Pool(procs, maxtasksperchild=1) as pool:
            res = pool.map(common._pmap_worker, items, chunksize=1)
        common._OUTCOMES.clear(); common._merge_outcomes(saved)
        for _, o in res:
            common._merge_outcomes(o)
        out = [r for r, _ in res]
    cases, results, hist = [], [], []
    for b, rs_ in zip(batches, out):
        for pos, (c, r) in enumerate(zip(b, rs_)):
            cases.append(c); results.append(r); hist.append(b[:pos])
    return cases, results, hist


def replay_batch(rp):
    """the batch to run for a replay file: the recorded history followed by the failing case"""
    d = rp['case']
    return list(d.get('history') or []) + [d['case']]
