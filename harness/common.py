"""Shared machinery of the /verif checks.

Every property check (harness/props/cXX.py) builds a `Check`, runs
  1. the Lean gate   (lake build of its theorem modules, forbidden-token grep, `#print axioms` audit),
  2. the correspondence (Lean model driver vs the real bct from /repo on the same inputs / recorded draws),
  3. the failing-input search (independent Python predicates on the real code's outputs),
and calls `finish()`, which writes evidence/<id>.json, prints VIOLATION / KNOWN-FINDING lines and exits.
"""
import os, sys, json, time, re, signal, hashlib, subprocess, contextlib, io, warnings, fractions, itertools, random

os.environ.setdefault('OMP_NUM_THREADS', '1')
os.environ.setdefault('OPENBLAS_NUM_THREADS', '1')
os.environ.setdefault('MKL_NUM_THREADS', '1')
os.environ['BCTPY_VERIF'] = '1'
warnings.filterwarnings('ignore')

VERIF = os.path.dirname(os.path.dirname(os.path.abspath(__file__)))
REPO = os.environ.get('BCT_REPO', '/repo')
LEAN = os.environ.get('BCT_LEAN', os.path.join(VERIF, 'lean'))
sys.path.insert(0, REPO)
import numpy as np  # noqa: E402

np.seterr(all='ignore')


def _machinery_failure(tp, val, tb):
    import traceback
    traceback.print_exception(tp, val, tb)
    sys.stderr.write('machinery failure (uncaught %s): exit 2\n' % tp.__name__)
    sys.stderr.flush(); sys.stdout.flush()
    os._exit(2)


sys.excepthook = _machinery_failure


def import_bct():
    import bct
    f = os.path.realpath(bct.__file__)
    assert f.startswith(os.path.realpath(REPO) + os.sep), 'bct imported from %s, not from %s' % (f, REPO)
    return bct


# ------------------------------------------------------------------ watchdog

class Timeout(Exception):
    pass


def _alarm(signum, frame):
    raise Timeout()


# per-process registry of call outcomes by routine name: {name: {'ok': n, 'exc': n, 'timeout': n}}; pmap ships it back
# from the workers and Check.finish() turns "a routine that never once returned normally" into a break
_OUTCOMES = {}


def _record(f, status):
    name = getattr(f, '__name__', None) or type(f).__name__
    d = _OUTCOMES.setdefault(name, {'ok': 0, 'exc': 0, 'timeout': 0})
    d[status] += 1


def call(f, *a, t=3.0, retry=0, **k):
    """Run f under a SIGALRM budget with stdout swallowed -> ('ok', value) | ('exc', 'Type: msg') | ('timeout', None).
    retry=N: a timeout is re-tried once with N times the budget (for routines that are expected to return: a single
    wall-clock hit on a loaded machine must not become a verdict)."""
    if retry:
        r = call(f, *a, t=t, **k)
        if r[0] != 'timeout':
            return r
        _OUTCOMES.get(getattr(f, '__name__', None) or type(f).__name__, {}).__setitem__('timeout', max(0, _OUTCOMES.get(getattr(f, '__name__', None) or type(f).__name__, {'timeout': 1}).get('timeout', 1) - 1))
        return call(f, *a, t=t * retry, **k)
    signal.signal(signal.SIGALRM, _alarm)
    signal.setitimer(signal.ITIMER_REAL, t)
    try:
        with contextlib.redirect_stdout(io.StringIO()):
            r = ('ok', f(*a, **k))
    except Timeout:
        r = ('timeout', None)
    except Exception as e:  # noqa
        r = ('exc', '%s: %s' % (type(e).__name__, str(e)[:200]))
    finally:
        signal.setitimer(signal.ITIMER_REAL, 0)
    _record(f, r[0])
    return r


def exc_kind(msg):
    """Map a Python exception string to the small enum shared with the Lean driver."""
    k = msg.split(':', 1)[0]
    return k if k in ('BCTParamError', 'ValueError', 'IndexError', 'ZeroDivisionError', 'TypeError') else 'other'


# ------------------------------------------------------------------ recording RandomState

class Recorder(np.random.RandomState):
    """RandomState that logs every draw bct makes through it (get_rng passes RandomState through unchanged).
    log entries: ('i', high, value) per randint element, ('u', v*2^53) per random_sample/rand element,
    ('p', [..]) per permutation/shuffle."""

    def __init__(self, seed):
        super().__init__(seed)
        self.log = []

    def randint(self, low, high=None, size=None, dtype=int):
        v = super().randint(low, high, size, dtype)
        hi = low if high is None else high
        for x in np.atleast_1d(v).ravel().tolist():
            self.log.append(('i', int(hi), int(x)))
        return v

    def _u(self, v):
        for x in np.atleast_1d(v).ravel().tolist():
            self.log.append(('u', int(x * 9007199254740992)))

    def random_sample(self, size=None):
        v = super().random_sample(size); self._u(v); return v

    def rand(self, *args):
        # RandomState.rand calls self.random_sample internally in some numpy versions; guard double logging
        n0 = len(self.log)
        v = super().rand(*args)
        if len(self.log) == n0:
            self._u(v)
        return v

    def random(self, size=None):
        n0 = len(self.log)
        v = super().random(size)
        if len(self.log) == n0:
            self._u(v)
        return v

    def permutation(self, x):
        n0 = len(self.log)
        v = super().permutation(x)
        del self.log[n0:]
        self.log.append(('p', [int(t) for t in np.asarray(v).ravel().tolist()]))
        return v

    def shuffle(self, x):
        n0 = len(self.log)
        super().shuffle(x)
        del self.log[n0:]
        self.log.append(('p', [int(t) for t in np.asarray(x).ravel().tolist()]))

    def choice(self, *a, **k):
        n0 = len(self.log)
        v = super().choice(*a, **k)
        del self.log[n0:]
        self.log.append(('c', [int(t) for t in np.atleast_1d(v).ravel().tolist()]))
        return v

    def flat(self):
        """flat list of naturals understood by the Lean drivers"""
        out = []
        for e in self.log:
            if e[0] == 'i':
                out.append(e[2])
            elif e[0] == 'u':
                out.append(e[1])
            else:
                out.extend(e[1])
        return out


# ------------------------------------------------------------------ Lean side

# no escape hatches: no unproved goals, no extra axioms, no compiler-trusting tactics, and no metaprogramming that could add
# declarations behind the kernel's back (Model / Lemmas / Props / Gen files need none of it)
FORBIDDEN = re.compile(r'\b(sorry|sorryAx|admit|native_decide|bv_decide|implemented_by|extern|unsafe|skipKernelTC|addDecl\w*|addAndCompile|'
                       r'run_cmd|run_elab|run_meta|ofReduceBool|reduceBool|trustCompiler|setEnv|modifyEnv|csimp)\b|\baxiom\s|maxHeartbeats\s+0|'
                       r'^\s*(elab|macro|syntax|initialize|builtin_initialize|local\s+macro|local\s+notation|local\s+instance|scoped\s+instance)\b|'
                       r'^\s*open\s+Lean\b|^\s*import\s+Lean\b|\bLean\.|#eval|#reduce|#exit|decide\s*\+native|\+native', re.M)
ALLOWED_AXIOMS = {'propext', 'Classical.choice', 'Quot.sound'}


def strip_comments(src):
    src = re.sub(r'/-.*?-/', '', src, flags=re.S)
    return re.sub(r'--.*', '', src)


def lean_run(args, inp=None, timeout=900):
    p = subprocess.run(['lake', 'env', 'lean'] + args, cwd=LEAN, input=inp, capture_output=True, text=True, timeout=timeout)
    return p.returncode, p.stdout, p.stderr


def lake_build(targets=(), timeout=3000):
    t0 = time.time()
    p = subprocess.run(['lake', 'build'] + list(targets), cwd=LEAN, capture_output=True, text=True, timeout=timeout)
    return p.returncode, (p.stdout + p.stderr), time.time() - t0


def module_file(mod):
    return os.path.join(LEAN, mod.replace('.', '/') + '.lean')


def theorems_in(mod):
    """(fully qualified name, kind) of every theorem in a Props module (namespace tracking is line based)."""
    src = strip_comments(open(module_file(mod)).read())
    ns, out = [], []
    for line in src.split('\n'):
        m = re.match(r'\s*namespace\s+(\S+)', line)
        if m:
            ns.append(m.group(1)); continue
        m = re.match(r'\s*end\s+(\S+)', line)
        if m and ns and ns[-1].split('.')[-1] == m.group(1).split('.')[-1]:
            ns.pop(); continue
        m = re.match(r'\s*(?:@\[[^\]]*\]\s*)?(?:private\s+|protected\s+)?(?:theorem|lemma)\s+([^\s:({\[]+)', line)
        if m:
            out.append('.'.join(ns + [m.group(1)]))
    return out


def axioms_audit(mods, theorems, roots=None):
    """Compile a throw-away file printing the axioms and the statement of each theorem
    -> ({thm: [axioms]}, raw text); statements are kept in axioms_audit.statements {thm: normalised type string}."""
    body = 'import Lean\n' + ''.join('import %s\n' % m for m in mods) + ''.join('#print axioms %s\n#check @%s\n' % (t, t) for t in theorems)
    body += DEFHASH_META % ', '.join('`' + t for t in (theorems if roots is None else roots))
    d = os.path.join(LEAN, '.lake', 'audit'); os.makedirs(d, exist_ok=True)
    tag = getattr(axioms_audit, 'tag', None) or ('pid%d' % os.getpid())
    f = os.path.join(d, 'Audit_%s.lean' % tag)          # kept on disk: the evidence names it as the checker input
    open(f, 'w').write(body)
    axioms_audit.last_file = os.path.relpath(f, LEAN)
    rc, out, err = lean_run([f])
    res = {}
    txt = out + '\n' + err
    for m in re.finditer(r"'(\S+)' depends on axioms: \[([^\]]*)\]", txt, flags=re.S):
        res[m.group(1)] = [a.strip() for a in m.group(2).replace('\n', ' ').split(',') if a.strip()]
    for m in re.finditer(r"'(\S+)' does not depend on any axioms", txt):
        res[m.group(1)] = []
    st = {}
    cur = None
    tset = set(theorems)
    for ln in out.split('\n'):
        m = re.match(r'@?(\S+) :\s*(.*)$', ln)
        if m and m.group(1) in tset:
            cur = m.group(1); st[cur] = m.group(2)
        elif cur is not None and (ln.startswith(' ') or ln.startswith('\t')):
            st[cur] += ' ' + ln.strip()
        else:
            cur = None
    axioms_audit.statements = {k: re.sub(r'\s+', ' ', v).strip() for k, v in st.items()}
    axioms_audit.defhashes = {m.group(1): m.group(2) for m in re.finditer(r'^DEFHASH (\S+) (\d+)$', out, flags=re.M)}
    axioms_audit.thmhashes = {m.group(1): m.group(2) for m in re.finditer(r'^THMHASH (\S+) (\d+)$', out, flags=re.M)}
    return res, txt


# Meaning of the pinned statements: every project constant (definition, structure, inductive, auxiliary matcher ...) that a
# property theorem's statement mentions, transitively through definition bodies, with a structural hash of its type and
# value.  Runs in the throw-away audit file only (the project itself may not use metaprogramming, see FORBIDDEN).
DEFHASH_META = '''
open Lean Elab Command in
#eval show CommandElabM Unit from do
  let env ← getEnv
  let roots : Array Name := #[%s]
  let isProj (c : Name) : Bool :=
    match env.getModuleIdxFor? c with
    | some i => (env.header.moduleNames[i.toNat]!).getRoot == `BctVerif
                && !(`BctVerif.Gen).isPrefixOf (env.header.moduleNames[i.toNat]!)
    | none => false
  let mut seen : NameSet := {}
  let mut todo : Array Name := #[]
  let mut out : Array (Name × UInt64) := #[]
  for r in roots do
    match env.find? r with
    | some ci =>
      IO.println s!"THMHASH {r} {ci.type.hash}"
      for c in ci.type.getUsedConstants do
        if isProj c && !seen.contains c then seen := seen.insert c; todo := todo.push c
    | none => pure ()
  while !todo.isEmpty do
    let c := todo.back!
    todo := todo.pop
    match env.find? c with
    | none => pure ()
    | some ci =>
      let mut h : UInt64 := ci.type.hash
      let mut deps : Array Name := ci.type.getUsedConstants
      match ci with
      | .defnInfo v => h := mixHash h v.value.hash; deps := deps ++ v.value.getUsedConstants
      | .opaqueInfo v => h := mixHash h v.value.hash; deps := deps ++ v.value.getUsedConstants
      | .inductInfo v => deps := deps ++ v.ctors.toArray
      | _ => pure ()
      out := out.push (c, h)
      for d in deps do
        if isProj d && !seen.contains d then seen := seen.insert d; todo := todo.push d
  for (c, h) in out.qsort (fun a b => a.1.toString < b.1.toString) do
    IO.println s!"DEFHASH {c} {h}"
'''


axioms_audit.statements = {}
axioms_audit.defhashes = {}
axioms_audit.thmhashes = {}


def olean_file(mod):
    return os.path.join(LEAN, '.lake', 'build', 'lib', 'lean', *mod.split('.')) + '.olean'


def leancheck_modules(mods, jobs=3):
    """-> ([(module, log)] rejected by leanchecker, number of modules actually run). Cache: module -> sha1 of its .olean."""
    from concurrent.futures import ThreadPoolExecutor
    cache_f = os.path.join(LEAN, '.lake', 'leanchecked.json')
    try:
        cache = json.load(open(cache_f))
    except Exception:
        cache = {}
    todo = []
    for m in mods:
        try:
            h = hashlib.sha1(open(olean_file(m), 'rb').read()).hexdigest()
        except OSError:
            h = None
        if h is None or cache.get(m) != h:
            todo.append((m, h))

    def one(mh):
        m, h = mh
        for attempt in (0, 1):
            p = subprocess.run(['lake', 'env', 'leanchecker', m], cwd=LEAN, capture_output=True, text=True, timeout=3000)
            if p.returncode in (137, -9, -15) or p.returncode < 0:
                continue                      # killed (memory pressure): not a verdict
            return m, h, p.returncode, p.stdout + p.stderr
        raise RuntimeError('leanchecker on %s was killed twice by the operating system (rc %s)' % (m, p.returncode))
    bad, okd = [], {}
    if todo:
        with ThreadPoolExecutor(max_workers=jobs) as ex:
            for m, h, rc, log in ex.map(one, todo):
                if rc == 0 and h is not None:
                    okd[m] = h
                elif rc != 0:
                    bad.append((m, log))
        if okd:
            try:
                cache = json.load(open(cache_f))
            except Exception:
                cache = {}
            cache.update(okd)
            tmp = cache_f + '.%d.tmp' % os.getpid()
            json.dump(cache, open(tmp, 'w')); os.replace(tmp, cache_f)
    return bad, len(todo)



def tree_identity():
    """which trees this run was about: paths, git heads and whether they had uncommitted changes"""
    def git(d, *a):
        try:
            return subprocess.run(['git', '-C', d] + list(a), capture_output=True, text=True, timeout=20).stdout.strip()
        except Exception:
            return ''
    return {'repo': os.path.realpath(REPO), 'repo_head': git(REPO, 'rev-parse', '--short', 'HEAD'),
            'repo_dirty': bool(git(REPO, 'status', '--porcelain', '--untracked-files=no')),
            'verif': VERIF, 'verif_head': git(VERIF, 'rev-parse', '--short', 'HEAD'),
            'verif_dirty': bool(git(VERIF, 'status', '--porcelain', '--untracked-files=no')),
            'lean': os.path.realpath(LEAN)}



def closure_hashes(mods, roots, tag):
    """definition-closure hashes (see DEFHASH_META) of the statements of `roots`; one small Lean run"""
    body = 'import Lean\n' + ''.join('import %s\n' % m for m in mods) + DEFHASH_META % ', '.join('`' + t for t in roots)
    d = os.path.join(LEAN, '.lake', 'audit'); os.makedirs(d, exist_ok=True)
    f = os.path.join(d, 'Closure_%s.lean' % tag)
    open(f, 'w').write(body)
    rc, out, err = lean_run([f])
    return {m.group(1): m.group(2) for m in re.finditer(r'^DEFHASH (\S+) (\d+)$', out, flags=re.M)}


def gen_pins_file():
    return os.path.join(LEAN, 'pins', 'GEN.json')



def pins_file(pid):
    return os.path.join(LEAN, 'pins', pid + '.json')


def run_driver(main, lines, timeout=900):
    """Pipe case lines to the Lean model driver lean/Main/<main>.lean; returns one result string per line.
    Any protocol irregularity raises DriverError (reported as a correspondence break, never as agreement)."""
    if not lines:
        return []
    inp = '\n'.join(lines) + '\n'
    rc, out, err = lean_run(['--run', os.path.join('Main', main + '.lean')], inp=inp, timeout=timeout)
    res = [None] * len(lines)
    for ln in out.split('\n'):
        m = re.match(r'@(\d+) (.*)$', ln)
        if m and int(m.group(1)) < len(lines):
            res[int(m.group(1))] = m.group(2).strip()
    if rc != 0 or any(r is None for r in res):
        raise DriverError('driver %s rc=%s missing=%d stderr=%s stdout-tail=%s' % (
            main, rc, sum(r is None for r in res), err[-500:], out[-300:]))
    return res


class DriverError(Exception):
    pass


def kv(line):
    return dict(t.split('=', 1) for t in line.split() if '=' in t)


# ------------------------------------------------------------------ helpers for inputs

def mat_str(A):
    A = np.asarray(A, dtype=float).ravel()
    assert np.all(A == np.round(A)), 'mat_str: non-integer cell %r would be truncated' % (A[A != np.round(A)][:3],)
    return ','.join(str(int(x)) for x in A)


def frac_str(x):
    f = fractions.Fraction(x)
    return '%d/%d' % (f.numerator, f.denominator)


def all_graphs(n, directed, weights=(1,)):
    """every labelled graph on n nodes (empty diagonal); weights: tuple of allowed nonzero values"""
    cells = [(i, j) for i in range(n) for j in range(n) if (i != j if directed else i < j)]
    for vals in itertools.product((0,) + tuple(weights), repeat=len(cells)):
        A = np.zeros((n, n))
        for (i, j), v in zip(cells, vals):
            A[i, j] = v
            if not directed:
                A[j, i] = v
        yield A


def rand_graph(rs, n, density, directed, wmax=1, signed=False):
    A = (rs.rand(n, n) < density).astype(float)
    if wmax > 1:
        A *= rs.randint(1, wmax + 1, size=(n, n))
    if signed:
        A *= rs.choice([-1, 1], size=(n, n))
    np.fill_diagonal(A, 0)
    if not directed:
        A = np.triu(A, 1); A = A + A.T
    return A


def same_result(a, b, tol=0.0):
    """structural equality of two bct results (nested tuples/lists/arrays/scalars); nan == nan"""
    if isinstance(a, (tuple, list)) and isinstance(b, (tuple, list)):
        return len(a) == len(b) and all(same_result(x, y, tol) for x, y in zip(a, b))
    try:
        x = np.asarray(a, dtype=float); y = np.asarray(b, dtype=float)
    except Exception:
        return a == b
    if x.shape != y.shape:
        return False
    return bool(np.all((x == y) | (np.isnan(x) & np.isnan(y)) | (np.abs(x - y) <= tol * np.maximum(1.0, np.abs(y)))))


def reuse_probe(fn, args, mutate, kwargs=None, t=3.0, tol=0.0, seed=None):
    """History / object-reuse probe. Every property of a bct routine is a statement about a *function of the argument
    values*: the result may depend neither on earlier calls nor on the identity of the array objects passed. This helper
      1. calls fn(*args) (warming any hidden per-object / per-size state),
      2. applies `mutate(args)` IN PLACE to the same objects (e.g. lesion an edge, move a node to another module),
      3. calls fn(*args) again on the SAME objects,
      4. calls fn on fresh deep copies of the mutated arguments,
    and returns None if 3 and 4 agree (same exception kind, or same_result within tol) or a dict describing the
    disagreement. `seed` (int) is passed as seed=... to each call when given. Timeouts return None (nothing to compare).
    Not covered here: an in-place edit of the caller's arrays by call 1 reaches both call 3 and call 4 (the snapshot is
    taken after it), so argument mutation as such is the business of C13 and of the per-check `input-modified` tests."""
    import copy
    kw = dict(kwargs or {})
    if seed is not None:
        kw['seed'] = seed
    r1 = call(fn, *args, t=t, **kw)
    mutate(args)
    snap = copy.deepcopy(args)
    r2 = call(fn, *args, t=t, **kw)
    r3 = call(fn, *copy.deepcopy(snap), t=t, **kw)
    if 'timeout' in (r1[0], r2[0], r3[0]):
        return None
    if r2[0] != r3[0]:
        return {'second_call_on_same_objects': r2[0], 'fresh_copies': r3[0], 'detail': [str(r2[1])[:200], str(r3[1])[:200]]}
    if r2[0] == 'exc':
        return None if exc_kind(r2[1]) == exc_kind(r3[1]) else {'second_call_on_same_objects': r2[1], 'fresh_copies': r3[1]}
    if not same_result(r2[1], r3[1], tol):
        return {'second_call_on_same_objects': str(r2[1])[:300], 'fresh_copies': str(r3[1])[:300]}
    return None


def digest(obj):
    return hashlib.sha1(json.dumps(obj, sort_keys=True, default=str).encode()).hexdigest()[:12]


def _pmap_worker(fx):
    func, x = fx
    _OUTCOMES.clear()
    r = func(x)
    return r, {k: dict(v) for k, v in _OUTCOMES.items()}


def _merge_outcomes(o):
    for k, v in o.items():
        d = _OUTCOMES.setdefault(k, {'ok': 0, 'exc': 0, 'timeout': 0})
        for s_, n_ in v.items():
            d[s_] = d.get(s_, 0) + n_


def pmap(func, items, procs=None):
    """multiprocessing map that keeps the SIGALRM watchdog usable in workers (and ships call outcomes back)"""
    import multiprocessing as mp
    procs = procs or min(16, os.cpu_count() or 4)
    if len(items) < 2 * procs:
        return [func(x) for x in items]
    ctx = mp.get_context('fork')
    saved = {k: dict(v) for k, v in _OUTCOMES.items()}
    with ctx.Pool(procs) as pool:
        res = pool.map(_pmap_worker, [(func, x) for x in items], chunksize=max(1, len(items) // (procs * 8)))
    _OUTCOMES.clear(); _merge_outcomes(saved)
    for _, o in res:
        _merge_outcomes(o)
    return [r for r, _ in res]


# ------------------------------------------------------------------ the Check object

class Check:
    def __init__(self, pid, argv=None):
        import argparse
        ap = argparse.ArgumentParser()
        ap.add_argument('--tier', default=os.environ.get('VERIF_TIER', 'quick'))
        ap.add_argument('--replay', default=None)
        a = ap.parse_args(argv)
        self.pid = pid
        self.tier = a.tier if a.tier in ('quick', 'thorough') else 'quick'
        self.replay = a.replay
        if self.replay:
            try:
                rp = json.load(open(self.replay))
            except Exception:
                rp = {}
            if 'no_longer_checks' in rp:
                print('replay file names a broken obligation / correspondence (no failing input): re-running the whole check')
                self.replay = None
        try:
            self.seed = int(os.environ.get('VERIF_SEED', '0'))
        except ValueError:
            self.seed = 0
        self.t0 = time.time()
        self.viol = []          # dicts: func, predicate, detail, (cond)
        self.breaks = []        # proof / correspondence breaks (not yet violations)
        self.cov = {'evaluations': 0, 'distinct_nontrivial': 0, 'samples': [], 'rule': ''}
        self.dist = {}          # input distribution counters
        self.obl = []           # (name, discharged, axioms)
        self.assumptions = []
        self.trusted = []
        self.checker_cmds = []
        self._nontrivial = set()
        self.known = json.load(open(os.path.join(VERIF, 'known_findings.json')))
        kd = os.path.join(VERIF, 'known_findings.d')
        if os.path.isdir(kd):
            for f in sorted(os.listdir(kd)):
                if f.endswith('.json'):
                    self.known.setdefault('open', []).extend(json.load(open(os.path.join(kd, f))).get('open', []))
        self.known_hit = {}
        self.rs = np.random.RandomState((self.seed * 7919 + int(hashlib.sha1(pid.encode()).hexdigest()[:6], 16)) % (2 ** 31))

    # -- counters
    def count(self, key, n=1):
        self.dist[key] = self.dist.get(key, 0) + n

    def case(self, sample=None, nontrivial_key=None):
        self.cov['evaluations'] += 1
        if nontrivial_key is not None:
            self._nontrivial.add(nontrivial_key)
        if sample is not None and len(self.cov['samples']) < 6:
            self.cov['samples'].append(sample)

    def merge_counts(self, evaluations=0, keys=(), dist=None, samples=()):
        self.cov['evaluations'] += evaluations
        self._nontrivial.update(keys)
        for k, v in (dist or {}).items():
            self.count(k, v)
        for s in samples:
            if len(self.cov['samples']) < 6:
                self.cov['samples'].append(s)

    # -- Lean gate
    def lean_gate(self, prop_modules, extra_modules=(), gen_modules=()):
        """Build the modules, grep them for forbidden tokens, audit axioms of every theorem in prop_modules
        (+ gen_modules, whose theorems are regenerated obligations)."""
        mods = list(prop_modules) + list(extra_modules) + list(gen_modules)
        cmd = 'cd lean && lake build ' + ' '.join(mods)
        self.checker_cmds.append(cmd)
        rc, log, dt = lake_build(mods)
        self.dist['lake_build_s'] = round(dt, 1)
        if rc != 0:
            errs = re.findall(r'error: (\S+\.lean:\d+:\d+: .*)', log)
            self.breaks.append({'kind': 'proof-build', 'modules': mods, 'errors': errs[:10] or [log[-1500:]]})
            for m in prop_modules + list(gen_modules):
                self.obl.append((m + ' (module failed to build)', False, []))
            return False
        # forbidden tokens in everything these modules import from our project
        seen = set()
        stack = list(mods)
        while stack:
            m = stack.pop()
            if m in seen or not m.startswith('BctVerif'):
                continue
            seen.add(m)
            src = strip_comments(open(module_file(m)).read())
            bad = FORBIDDEN.findall(src)
            if bad:
                self.breaks.append({'kind': 'forbidden-token', 'module': m, 'tokens': [b for b in bad][:5]})
            stack.extend(re.findall(r'^\s*import\s+(\S+)', src, flags=re.M))
        thms = []
        for m in list(prop_modules) + list(gen_modules):
            thms += theorems_in(m)
        axioms_audit.tag = self.pid + ('' if prop_modules else '_gen')
        prop_thms = [t for m in prop_modules for t in theorems_in(m)]
        ax, txt = axioms_audit(mods, thms, roots=(prop_thms if prop_modules else thms))
        self.checker_cmds.append('cd lean && lake env lean %s   # #print axioms + #check of %d theorems' % (axioms_audit.last_file, len(thms)))
        ok = True
        # statement pinning: the statements of the property theorems are recorded in lean/pins/<id>.json (written only by
        # tools/pin.py, a deliberate action); a theorem that disappears or whose statement changes is a break, so a
        # quietly weakened theorem cannot keep the check green
        if prop_modules and os.path.exists(pins_file(self.pid)):
            pins = json.load(open(pins_file(self.pid)))
            got = axioms_audit.statements
            defpins = pins.pop('__defs__', None)
            if defpins is not None:
                # the definitions the pinned statements are about (transitively): a changed or vanished body is a break too
                now = axioms_audit.defhashes
                for d, h in sorted(defpins.items()):
                    if now.get(d) != h:
                        ok = False
                        self.breaks.append({'kind': 'definition-changed', 'theorem': d, 'now': now.get(d, 'missing'),
                                            'note': 'a definition used by pinned statements differs from lean/pins/%s.json' % self.pid})
                for d in sorted(set(now) - set(defpins)):
                    ok = False
                    self.breaks.append({'kind': 'definition-added', 'theorem': d,
                                        'note': 'a project constant reachable from the pinned statements is not in lean/pins/%s.json '
                                                '(e.g. a new instance or definition that changes what a statement means)' % self.pid})
                self.dist['pinned_definitions'] = len(defpins)
            thmpins = pins.pop('__types__', None)
            if thmpins is not None:
                # structural hash of the elaborated statement (instances and implicit arguments included), next to the printed text
                for t, h in sorted(thmpins.items()):
                    if t in thms and axioms_audit.thmhashes.get(t) != h:
                        ok = False
                        self.breaks.append({'kind': 'statement-changed', 'theorem': t, 'now': 'elaborated type hash %s' % axioms_audit.thmhashes.get(t),
                                            'note': 'the elaborated statement differs from lean/pins/%s.json although its printed form may not' % self.pid})
            for t, h in sorted(pins.items()):
                if t not in thms:
                    continue        # reported below if its namespace is being audited
                g = got.get(t)
                if g is None or hashlib.sha1(g.encode()).hexdigest() != h:
                    ok = False
                    self.breaks.append({'kind': 'statement-changed', 'theorem': t, 'now': (g or 'missing')[:300],
                                        'note': 'statement differs from lean/pins/%s.json (re-pin with tools/pin.py only after review)' % self.pid})
            missing = [t for t in pins if t not in thms and t.rsplit('.', 1)[0] in {x.rsplit('.', 1)[0] for x in thms}]
            for t in missing:
                ok = False
                self.breaks.append({'kind': 'statement-changed', 'theorem': t, 'now': 'theorem no longer exists'})
            self.dist['pinned_statements'] = len(pins)
        for t in thms:
            a = ax.get(t)
            good = a is not None and set(a) <= ALLOWED_AXIOMS
            if t.endswith('_pin_ok'):
                # a source pin compares normalised source text with a reviewed reference: it has no semantics and is not counted as a
                # proof obligation; a failing pin is still a break (the routine is no longer the reviewed one)
                self.cov.setdefault('source_pins', []).append({'pin': t, 'holds': bool(good)})
            else:
                self.obl.append((t, good, a))
            if not good:
                ok = False
                self.breaks.append({'kind': 'axiom-audit', 'theorem': t, 'axioms': a, 'log': txt[-400:] if a is None else ''})
        # the T-gen chain: what the generated obligations MEAN (interpreters, `...Ok` checks, reference IRs, pin references, the model
        # functions named by the `_computes` statements) is pinned per Gen module in lean/pins/GEN.json, like the property statements
        if gen_modules and os.path.exists(gen_pins_file()):
            gp = json.load(open(gen_pins_file()))
            gen_thms = [t for m in gen_modules for t in theorems_in(m)]
            now = axioms_audit.defhashes if not prop_modules else closure_hashes(list(gen_modules), gen_thms, self.pid + '_gen')
            want = {}
            for m in gen_modules:
                want.update(gp.get(m, {}))
            if all(m in gp for m in gen_modules):
                for d in sorted(set(want) | set(now)):
                    if want.get(d) != now.get(d):
                        ok = False
                        self.breaks.append({'kind': 'definition-changed', 'theorem': d, 'now': now.get(d, 'missing'),
                                            'note': 'T-gen chain: a definition the generated obligations of %s are about differs from lean/pins/GEN.json' % ', '.join(gen_modules)})
                self.dist['pinned_tgen_definitions'] = len(want)
        # independent re-check of the compiled modules this gate relies on (one process per module, cached per .olean).
        # Thorough tier only: on a fresh restore nothing is cached and 3-6 s per module adds minutes to every first run, which the
        # quick tier ("run on every change") cannot afford; the quick tier relies on the kernel check done by `lake build`, the
        # forbidden-construct scan (no metaprogramming, no `#eval`, no `Lean.` API, no local instances) and the axiom audit.
        if self.tier == 'thorough' and not self.leanchecker(mods):
            ok = False
        return ok and not any(b['kind'] == 'forbidden-token' for b in self.breaks)

    def leanchecker(self, mods):
        """Independent re-check (leanchecker) of every project module in the import closure of `mods` (Model, Lemmas, Props, Gen),
        ONE MODULE PER PROCESS (3-6 s, 3-4 GB each; a single call over a whole closure needs > 50 GB) and cached by the hash of the
        compiled .olean (lean/.lake/leanchecked.json; tools/leancheck_all.py fills it at set-up), so every tier can afford it.
        A checker killed by the OS is retried once and is then a failure of the machinery (exit 2), never a verdict."""
        seen, stack = [], list(mods)
        while stack:
            m = stack.pop()
            if m in seen or not m.startswith('BctVerif') or not os.path.exists(module_file(m)):
                continue
            seen.append(m)
            stack.extend(re.findall(r'^\s*import\s+(\S+)', strip_comments(open(module_file(m)).read()), flags=re.M))
        bad, ran = leancheck_modules(sorted(seen))
        self.checker_cmds.append('cd lean && lake env leanchecker <module>   # one process per module, %d modules in the closure, %d not cached' % (len(seen), ran))
        self.dist['leanchecker_modules'] = len(seen); self.dist['leanchecker_run_now'] = ran
        self.dist['leanchecker_rc'] = 1 if bad else 0
        for m, log in bad:
            self.breaks.append({'kind': 'leanchecker', 'modules': [m], 'log': log[-800:]})
        return not bad

    # -- violations
    def violation(self, func, predicate, detail, cond=None):
        """A counter-example against the real code: property predicate `predicate` fails for `func` on `detail`."""
        self.viol.append({'func': func, 'predicate': predicate, 'detail': detail, 'cond': cond or {}})

    def corr_break(self, what, detail):
        self.breaks.append({'kind': 'correspondence', 'what': what, 'detail': detail})

    def _match_known(self, v):
        for k in self.known.get('open', []):
            if k['property'] != self.pid or k['function'] != v['func']:
                continue
            if k.get('predicate') not in (None, v['predicate']):
                continue
            cond = k.get('condition') or {}
            if all(v['cond'].get(a) == b for a, b in cond.items()):
                return k
        return None

    # -- finish
    def _never_ok(self):
        """A routine called at least 8 times under the watchdog that never once returned normally (always raised
        or always timed out) cannot be said to satisfy anything: report it as a break unless the check lists it in
        `never_ok_exempt` (routines known not to run in this environment, or streams that must be rejected)."""
        exempt = getattr(self, 'never_ok_exempt', set()) or set()
        for name, d in sorted(_OUTCOMES.items()):
            tot = sum(d.values())
            if tot >= 8 and d.get('ok', 0) == 0 and name not in exempt and not name.startswith('<'):
                self.breaks.append({'kind': 'never-returns-normally', 'routine': name, 'outcomes': d})
        self.dist['call_outcomes'] = {k: v for k, v in sorted(_OUTCOMES.items())}

    def finish(self):
        if not self.obl:
            sys.stderr.write('machinery failure: no Lean obligation was checked in this run, a proof-level verdict is impossible\n')
            sys.stdout.flush(); os._exit(2)
        self._never_ok()
        os.makedirs(os.path.join(VERIF, 'replays'), exist_ok=True)
        EVD = os.environ.get('BCT_EVIDENCE')
        if not EVD:
            # /verif/evidence describes /verif/lean run against /repo and nothing else: a run on another tree keeps its evidence apart
            overridden = ('BCT_LEAN' in os.environ and os.path.realpath(LEAN) != os.path.realpath(os.path.join(VERIF, 'lean'))) or \
                         ('BCT_REPO' in os.environ and os.path.realpath(REPO) != os.path.realpath('/repo'))
            EVD = os.path.join(VERIF, 'evidence') if not overridden else os.path.join(os.path.dirname(os.path.realpath(LEAN)), 'evidence_other_tree')
        os.makedirs(EVD, exist_ok=True)
        lines, new_viol = [], []
        for v in self.viol:
            k = self._match_known(v)
            if k is not None:
                self.known_hit.setdefault(k['id'], [k, 0, v])
                self.known_hit[k['id']][1] += 1
            else:
                new_viol.append(v)
        for kid, (k, cnt, v) in sorted(self.known_hit.items()):
            lines.append('KNOWN-FINDING: property=%s %s: %s (%s; %d cases this run)' % (self.pid, k['function'], k['what'], kid, cnt))
        # group new violations by (func, predicate): one replay each (smallest detail first)
        groups = {}
        for v in new_viol:
            groups.setdefault((v['func'], v['predicate']), []).append(v)
        nviol = 0
        for (func, pred), vs in sorted(groups.items()):
            vs.sort(key=lambda v: len(json.dumps(v['detail'], default=str)))
            path = os.path.join(VERIF, 'replays', '%s-%s-%s.json' % (self.pid, re.sub(r'\W+', '_', func), digest([pred, vs[0]['detail']])))
            json.dump({'property': self.pid, 'function': func, 'predicate': pred, 'count': len(vs), 'case': vs[0]['detail'],
                       'cond': vs[0]['cond'], 'seed': self.seed, 'tier': self.tier}, open(path, 'w'), indent=1, default=str)
            lines.append('VIOLATION property=%s replay=%s function=%s predicate=%s cases=%d' % (self.pid, path, func, pred, len(vs)))
            nviol += 1
        if self.breaks and not new_viol:
            # proof or correspondence no longer checks and the search found no failing input
            path = os.path.join(VERIF, 'replays', '%s-break-%s.json' % (self.pid, digest(self.breaks)))
            json.dump({'property': self.pid, 'no_longer_checks': self.breaks[:20], 'seed': self.seed, 'tier': self.tier,
                       'note': 'theorem / correspondence named here no longer checks; the failing-input search found no counter-example on the real code'},
                      open(path, 'w'), indent=1, default=str)
            lines.append('VIOLATION property=%s replay=%s no-failing-input-found' % (self.pid, path))
            nviol += 1
        elif self.breaks:
            for b in self.breaks[:5]:
                print('note: broken obligation alongside the violation: %s' % json.dumps(b, default=str)[:300])
        cov = dict(self.cov)
        cov['distinct_nontrivial'] = len(self._nontrivial)
        cov['obligations'] = len(self.obl)
        cov['discharged'] = sum(1 for o in self.obl if o[1])
        cov['checker_cmd'] = ' ; '.join(self.checker_cmds) or 'none'
        tb = list(self.trusted or TRUSTED_DEFAULT)
        if not any('translate/' in x for x in tb):
            tb.insert(0, TRUSTED_DEFAULT[0])
        cov['trusted_base'] = tb
        cov['theorems'] = [{'name': o[0], 'discharged': o[1], 'axioms': o[2]} for o in self.obl]
        cov['input_distribution'] = self.dist
        cov['breaks'] = self.breaks[:10]
        cov['known_findings_hit'] = {k: v[1] for k, v in self.known_hit.items()}
        cov['tree'] = tree_identity()
        ev = {'property_id': self.pid, 'tier': self.tier, 'seed': self.seed, 'level': 'proof', 'coverage': cov,
              'assumptions': self.assumptions, 'wall_s': round(time.time() - self.t0, 2), 'violations': nviol}
        json.dump(ev, open(os.path.join(EVD, self.pid + '.json'), 'w'), indent=1, default=str)
        for ln in lines:
            print(ln)
        print('%s tier=%s seed=%d evaluations=%d nontrivial=%d obligations=%d/%d violations=%d wall=%.1fs' % (
            self.pid, self.tier, self.seed, cov['evaluations'], cov['distinct_nontrivial'], cov['discharged'], cov['obligations'], nviol, time.time() - self.t0))
        sys.exit(1 if nviol else 0)


TRUSTED_DEFAULT = [
    'translators translate/effects.py, translate/kernels.py, translate/cores.py (AST -> IR / normalised source text; trusted, conservative: an unrecognised construct makes a generated obligation fail); source pins among the generated obligations carry no semantics and are listed under coverage.source_pins, not among the theorems',
    'Lean 4.33.0 kernel; axioms per theorem as listed under coverage.theorems (subset of propext, Classical.choice, Quot.sound)',
    'hand-written Lean model tied to /repo through the correspondence runs of this check (differential testing) and, for the routines with a T-gen family, through generated obligations over IRs extracted from the current source',
    'NumPy/SciPy/CPython semantics; Python harness and oracles in /verif/harness',
]
