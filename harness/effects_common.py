"""Shared by C05 and C13: run translate/effects.py over the current /repo source, (re)write the generated Lean
modules into common.LEAN, and turn a failed build of a generated module into breaks that name the function."""
import os, sys, re, json, inspect, importlib.util
from common import *  # noqa

# bct imports these lazily *inside* functions (maketoeplitzCIJ, reorder_matrix, dummyvar, motifs ...).  A watchdog alarm that
# fires during such a first import leaves a half-initialised module in sys.modules and every later call in that process
# raises; import them once, before any worker is forked and outside any watchdog.
import scipy.linalg, scipy.stats, scipy.sparse, scipy.io, scipy.sparse.csgraph  # noqa: E401,F401


def load_translator():
    p = os.path.join(VERIF, 'translate', 'effects.py')
    spec = importlib.util.spec_from_file_location('effects_translator', p)
    m = importlib.util.module_from_spec(spec)
    spec.loader.exec_module(m)
    return m


def run_translator(which):
    """which in ('rng', 'alias') -> (translator module, result dict, summary dict); writes only that Gen module"""
    sys.setrecursionlimit(20000)
    tr = load_translator()
    res = tr.translate(REPO)
    gen = os.path.join(LEAN, 'BctVerif', 'Gen')
    if which == 'rng':
        tr.emit_rng(res, os.path.join(gen, 'EffectsRng.lean'))
    else:
        tr.emit_alias(res, os.path.join(gen, 'EffectsAlias.lean'))
    return tr, res, tr.summary(res)


def selftest_breaks(ck, res):
    """translator self-test (reference analysis; the same expectations are Lean theorems `selftest_*` in the Gen module)"""
    for msg in res.get('selftest_failures', []):
        ck.breaks.append({'kind': 'translator-selftest', 'what': msg,
                          'note': 'the translator no longer rejects a mutating / undisciplined pattern it is documented to reject'})


def run_translator_safe(ck, which):
    """like run_translator, but a crash of the translator is a break of the check, not a machinery failure"""
    try:
        return run_translator(which)
    except (Exception, SystemExit, RecursionError) as e:  # noqa
        import traceback
        ck.breaks.append({'kind': 'translator-crash', 'what': 'translate/effects.py could not translate the current source',
                          'error': '%s: %s' % (type(e).__name__, str(e)[:300]), 'trace': traceback.format_exc()[-600:]})
        return None


def name_failed_obligations(ck, gen_module, mirror_fails):
    """after lean_gate: if the generated module failed to build, add one break per failing obligation (function name,
    reason from the reference analysis in the translator); also report disagreement between Lean and the reference."""
    lean_failed = set()
    src = open(module_file(gen_module)).read().split('\n')
    for b in ck.breaks:
        if b.get('kind') != 'proof-build':
            continue
        for e in b.get('errors', []):
            m = re.match(r'(\S+\.lean):(\d+):\d+: ', e)
            if m and os.path.basename(m.group(1)) == os.path.basename(module_file(gen_module)):
                ln = int(m.group(2))
                if 1 <= ln <= len(src):
                    t = re.match(r'theorem\s+(\S+)', src[ln - 1])
                    if t:
                        lean_failed.add(t.group(1))
    named = set()
    for thm in sorted(lean_failed):
        fn = re.sub(r'_(ok|safe|safe_others)$', '', thm)
        named.add(fn)
        ck.breaks.append({'kind': 'generated-obligation', 'theorem': '%s.%s' % (gen_module.replace('BctVerif', 'Bct'), thm),
                          'function': fn, 'reason': mirror_fails.get(fn, ['(no reason from the reference analysis)'])})
    for fn, why in mirror_fails.items():
        if fn not in named and fn != 'table':
            built = not any(b.get('kind') == 'proof-build' for b in ck.breaks)
            ck.breaks.append({'kind': 'generated-obligation' if not built else 'translator-mirror-disagrees',
                              'function': fn, 'reason': why,
                              'note': 'reference analysis rejects this function' + (' but Lean accepted the obligation' if built else '')})
    return lean_failed


def public_functions(bct):
    return {n: f for n, f in vars(bct).items()
            if inspect.isfunction(f) and getattr(f, '__module__', '').startswith('bct') and not n.startswith('_')}
