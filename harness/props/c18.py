"""C18 — random-walk and spectral measures satisfy their defining equations.

Search : residual of each defining equation evaluated on the arrays returned by the real bct
         (MFPT recurrence, diffusion efficiency = 1/MFPT and its mean, PageRank fixed point / positivity / sum 1,
         subgraph centrality = diag(scipy.linalg.expm(A)), eigenvector centrality residual / non-negativity /
         unit norm / lambda_max, walk counts by brute-force enumeration of node sequences).
Corr   : the Lean model `Walks` (exact Gauss-Jordan over Rat, exact integer matrix powers, truncated exponential
         series with explicit tail bound, exact certification of the eigenvector returned by LAPACK) vs the real
         outputs at 1e-8 relative.
"""
import sys
from fractions import Fraction
from common import *  # noqa
sys.path.insert(0, os.path.join(VERIF, 'translate')); import cores  # noqa: E402

PID = 'C18'
TOL = 1e-8
NMODEL = 12            # the Lean model replays cases up to this size; larger ones are judged by the residual predicates only
TOL_SINGLE = 5e-5      # float32 storage, and bool / uint8 storage (scipy.linalg runs those in single precision)
DTYPES = ('float64', 'int64', 'bool', 'uint8', 'int32', 'float32', 'float64', 'bool', 'int64', 'uint8')
DAMP = (0.5, 0.85, 0.99)


def n_terms(A):
    """smallest T with rho^T/T! * (T+1)/(T+1-rho) <= 1e-12, rho = max absolute row sum (exact integer arithmetic)"""
    rho = int(np.abs(A).sum(1).max()) if len(A) else 0
    T = rho + 1
    num, den = Fraction(rho) ** T, Fraction(1)
    for k in range(2, T + 1):
        den *= k
    while num / den * Fraction(T + 1, T + 1 - rho) > Fraction(1, 10 ** 12):
        T += 1; num *= rho; den *= T
    return T


# ------------------------------------------------------------------ graph families

def sym(n, edges, w=None):
    A = np.zeros((n, n))
    for t, (i, j) in enumerate(edges):
        A[i, j] = A[j, i] = 1 if w is None else w[t]
    return A


def is_connected(A):
    n = len(A)
    if n == 0:
        return False
    seen = {0}; st = [0]
    B = (A != 0) | (A.T != 0)
    while st:
        u = st.pop()
        for v in np.nonzero(B[u])[0]:
            if int(v) not in seen:
                seen.add(int(v)); st.append(int(v))
    return len(seen) == n


def strongly_connected(A):
    n = len(A)
    R = (A != 0) | np.eye(n, dtype=bool)
    for k in range(n):
        R = R | (R[:, [k]] & R[[k], :])
    return bool(R.all())


def canon(A):
    n = len(A)
    best = None
    for p in itertools.permutations(range(n)):
        B = A[np.ix_(p, p)]
        key = tuple(int(B[i, j]) for i in range(n) for j in range(i + 1, n))
        if best is None or key < best:
            best = key
    return best


def cycle(n):
    return sym(n, [(i, (i + 1) % n) for i in range(n)])


def kab(a, b):
    return sym(a + b, [(i, a + j) for i in range(a) for j in range(b)])


def circulant(n, offs):
    return sym(n, [(i, (i + o) % n) for i in range(n) for o in offs])


def complete(n):
    return sym(n, [(i, j) for i in range(n) for j in range(i + 1, n)])


def petersen():
    e = [(i, (i + 1) % 5) for i in range(5)] + [(5 + i, 5 + (i + 2) % 5) for i in range(5)] + [(i, i + 5) for i in range(5)]
    return sym(10, e)


def cube():
    return sym(8, [(i, i ^ (1 << b)) for i in range(8) for b in range(3) if i < i ^ (1 << b)])


def disjoint(*Gs):
    n = sum(len(G) for G in Gs)
    A = np.zeros((n, n)); o = 0
    for G in Gs:
        A[o:o + len(G), o:o + len(G)] = G; o += len(G)
    return A


def path(n):
    return sym(n, [(i, i + 1) for i in range(n - 1)])


def star_w():
    return sym(4, [(0, 1), (0, 2), (0, 3)], w=[1, 3, 7])


def grid(r, c):
    return sym(r * c, [(i * c + j, i * c + j + 1) for i in range(r) for j in range(c - 1)] + [(i * c + j, (i + 1) * c + j) for i in range(r - 1) for j in range(c)])


def lollipop(k, p_):
    return sym(k + p_, [(i, j) for i in range(k) for j in range(i + 1, k)] + [(k - 1 + t, k + t) for t in range(p_)])


def barbell(k, p_):
    n = 2 * k + p_
    return sym(n, [(i, j) for i in range(k) for j in range(i + 1, k)] + [(k + p_ + i, k + p_ + j) for i in range(k) for j in range(i + 1, k)]
               + [(k - 1 + t, k + t) for t in range(p_ + 1)])


def rand_tree(rs, n):
    return sym(n, [(int(rs.randint(v)), v) for v in range(1, n)])


BIG_N = (12, 16, 17, 24, 32, 33, 34, 40, 51, 55, 64, 65, 80, 100)


def big_graphs(rs, n):
    """connected graphs on exactly n nodes whose structure stresses size-dependent code paths: bipartite with unequal sides (periodic
    walks), grids, trees, paths, slowly mixing lollipops / barbells, sparse random, cycles of both parities"""
    G = []
    a = max(1, n // 3)
    G.append(('K%d,%d' % (a, n - a), kab(a, n - a)))
    for r in (2, 3, 4, 5, 6, 7, 8):
        if n % r == 0 and n // r >= r:
            G.append(('grid%dx%d' % (r, n // r), grid(r, n // r)))
    G.append(('tree', rand_tree(rs, n)))
    G.append(('path', path(n)))
    G.append(('star', kab(1, n - 1)))
    k = max(3, n // 2)
    G.append(('lollipop', lollipop(k, n - k)))
    k = max(3, n // 3)
    G.append(('barbell', barbell(k, n - 2 * k)))
    G.append(('cycle', cycle(n)))
    while True:
        A = np.maximum(rand_tree(rs, n), rand_graph(rs, n, 3.0 / n, False))
        if is_connected(A):
            break
    G.append(('sparse', A))
    return G


def rand_strong(rs, n, wmax):
    p = rs.permutation(n)
    A = np.zeros((n, n))
    for t in range(n):
        A[p[t], p[(t + 1) % n]] = 1
    extra = (rs.rand(n, n) < rs.choice([0.15, 0.35, 0.6])).astype(float)
    np.fill_diagonal(extra, 0)
    A = ((A + extra) > 0).astype(float)
    if wmax > 1:
        A = A * rs.randint(1, wmax + 1, size=(n, n))
    return A


def gen_cases(rs, tier):
    quick = tier != 'thorough'
    cases = []

    def add(fam, A, kind='und', ds=DAMP, falff=None, den=1):
        """A holds integer numerators; the real routines are called on A / den (den a power of two: exact in floats)"""
        A = np.asarray(A, dtype=float)
        t_ = len(cases)
        dt = DTYPES[t_ % len(DTYPES)] if den == 1 else 'float64'
        if dt == 'bool' and A.max(initial=0) > 1:
            dt = 'uint8'
        if len(A) > 16 and kind == 'und':      # scipy runs bool / uint8 / float32 eigenproblems in single precision: not judged at large n
            dt = {'bool': 'int64', 'uint8': 'int32', 'float32': 'float64'}.get(dt, dt)
        cases.append({'fam': fam, 'kind': kind, 'A': A.astype(int).tolist(), 'den': int(den), 'd': list(ds), 'falff': falff,
                      'dtype': dt, 'order': 'F' if t_ % 4 == 2 else 'C'})

    # every connected labelled graph n<=5 (thorough); one representative per isomorphism class + a random labelled slice (quick)
    seen = set()
    lab = []
    for n in (2, 3, 4, 5):
        for A in all_graphs(n, False):
            if not is_connected(A):
                continue
            lab.append(A)
            k = (n, canon(A))
            if k not in seen:
                seen.add(k); add('conn-iso-n%d' % n, A)
    if quick:
        idx = rs.choice(len(lab), size=160, replace=False)
        for i in idx:
            add('conn-labelled', lab[int(i)], ds=(DAMP[int(i) % 3],))
    else:
        for t, A in enumerate(lab):
            add('conn-labelled', A, ds=DAMP if t % 7 == 0 else (DAMP[t % 3],))
    # all graphs on <= 4 nodes (incl. disconnected, isolated nodes, empty) for the spectral measures / findwalks
    for n in (2, 3, 4):
        for A in all_graphs(n, False):
            if not is_connected(A) and (not quick or rs.rand() < 0.5):
                add('any-n%d' % n, A, ds=(0.85,))
    # highly symmetric: cycles, complete bipartite, regular, disjoint copies
    for n in range(3, 9 if quick else 11):
        add('cycle', cycle(n))
    for a in range(1, 5):
        for b in range(a, 5 if quick else 6):
            if a + b >= 3:
                add('Kab', kab(a, b))
    for G in [complete(4), complete(5), complete(6), circulant(6, (1, 2)), circulant(7, (1, 2)), circulant(8, (1, 4)),
              circulant(8, (1, 2, 3)), circulant(6, (1, 3)), cube(), petersen()]:
        add('regular', G)
    for G in [disjoint(cycle(3), cycle(3)), disjoint(cycle(4), cycle(4)), disjoint(cycle(3), cycle(4)), disjoint(kab(2, 2), kab(2, 2)),
              disjoint(path(2), path(2), path(2)), disjoint(path(3), path(3)), disjoint(complete(3), path(2)),
              disjoint(cycle(5), cycle(5)), disjoint(kab(1, 3), kab(1, 3)), disjoint(complete(4), complete(4)),
              disjoint(cycle(4), path(3)), disjoint(cycle(3), cycle(3), cycle(3))]:
        add('disjoint', G)
    # the same kind of disjoint copies with randomly relabelled / interleaved nodes: with a repeated lambda_max LAPACK then returns
    # mixed-sign combinations of the copies' Perron vectors, so non-negativity really depends on the abs()
    bases = [disjoint(complete(3), complete(3)), disjoint(complete(3), complete(3), complete(3)), disjoint(complete(4), complete(4)),
             disjoint(cycle(4), cycle(4)), disjoint(cycle(4), complete(3)), disjoint(cycle(5), cycle(5)), disjoint(kab(2, 3), kab(2, 3)),
             disjoint(path(2), path(2), path(2)), disjoint(cycle(3), cycle(3)) * 2, disjoint(kab(1, 3), kab(1, 3)), disjoint(cube(), cube())]
    for G in bases:
        m = len(G)
        perms = [np.argsort(np.arange(m) % 2, kind='stable'), np.argsort(np.arange(m) % 3, kind='stable')]   # perfect interleavings
        perms += [rs.permutation(m) for _ in range(3 if quick else 12)]
        for p_ in perms:
            add('disjoint-shuffled', G[np.ix_(p_, p_)], ds=(0.85,))
    # weighted undirected connected
    for t in range(60 if quick else 300):
        n = int(rs.randint(3, 7))
        while True:
            A = rand_graph(rs, n, rs.choice([0.4, 0.6, 0.9]), False, wmax=int(rs.choice([2, 3, 5])))
            if is_connected(A):
                break
        f = [int(x) for x in rs.randint(1, 5, size=n)] if t % 2 else None
        if f is not None and t % 4 == 1:
            f[int(rs.randint(n))] = 0
        add('weighted-und', A, ds=(DAMP[t % 3],), falff=f)
    # weighted symmetric structured
    for G in [cycle(4) * 2, kab(2, 3) * 3, cycle(6) * 2, disjoint(cycle(4) * 2, cycle(4))]:
        add('weighted-sym', G)
    # strongly connected directed (random-walk measures + findwalks)
    for t in range(80 if quick else 400):
        n = int(rs.randint(3, 7))
        A = rand_strong(rs, n, 1 if t % 2 == 0 else 3)
        f = [int(x) for x in rs.randint(1, 4, size=n)] if t % 3 == 0 else None
        add('strong-dir', A, kind='dir', ds=(DAMP[t % 3],), falff=f)
    for n in (3, 4, 5, 6):
        A = np.zeros((n, n))
        for i in range(n):
            A[i, (i + 1) % n] = 1
        add('dir-cycle', A, kind='dir')       # periodic chain, complex spectrum
    # arbitrary binary digraphs: findwalks only
    for t in range(40 if quick else 200):
        n = int(rs.randint(2, 7))
        add('any-dir', rand_graph(rs, n, rs.choice([0.2, 0.5, 0.8]), True), kind='dirany')
    if not quick:
        for A in all_graphs(3, True):
            add('any-dir3', A, kind='dirany')
    # ---- size axis (n = 12 .. 100): structures that break size-dependent fast paths; judged by the defining-equation residuals
    sizes = BIG_N
    for n in sizes:
        G = big_graphs(rs, n)
        if quick:
            G = [G[int(i)] for i in rs.choice(len(G), size=min(len(G), 3 if n <= 40 else 2), replace=False)]
        for name, A in G:
            if rs.rand() < 0.4:                      # weighted variant, weights 1..3
                W = np.triu(rs.randint(1, 4, size=A.shape), 1); A = A * (W + W.T)
            add('big-und:' + name.rstrip('0123456789,x'), A, ds=(DAMP[n % 3],), falff=[int(x) for x in rs.randint(1, 4, size=n)] if n % 2 else None)
        # directed: a periodic chain (every cycle length a multiple of 3) and a sparse strongly connected digraph
        m3 = n - n % 3
        Ad = np.zeros((n, n)); cls = np.arange(n) % 3
        for i in range(n):
            for j in rs.choice(np.nonzero(cls == (cls[i] + 1) % 3)[0], size=2, replace=False):
                Ad[i, j] = 1
        if strongly_connected(Ad):
            add('big-dir:period3', Ad, kind='dir', ds=(DAMP[n % 3],))
        add('big-dir:sparse', rand_strong(rs, n, 2) * (rs.rand(n, n) < 0.15) + np.roll(np.eye(n), 1, axis=1), kind='dir', ds=(DAMP[(n + 1) % 3],))
    # ---- self-connections (the quantifier does not exclude them; the defining equations hold with a non-empty diagonal)
    for t in range(24 if quick else 200):
        n = int(rs.randint(3, 8)) if t % 4 else int(rs.choice([12, 17, 33, 51]))
        und_ = t % 3 != 2
        if und_:
            while True:
                A = rand_graph(rs, n, min(0.9, max(0.4, 4.0 / n)), False, wmax=int(rs.choice([1, 3])))
                if is_connected(A):
                    break
        else:
            A = rand_strong(rs, n, int(rs.choice([1, 2])))
        loops = rs.choice(n, size=int(rs.randint(1, max(2, n // 2))), replace=False)
        for i in loops:
            A[i, i] = int(rs.randint(1, 4)) if A.max() > 1 else 1
        add('selfloop', A, kind='und' if und_ else 'dir', ds=(DAMP[t % 3],), falff=[int(x) for x in rs.randint(1, 4, size=n)] if t % 2 else None)
    # ---- rational weights k/den (den = 2,4,8,16): row / column strengths strictly between 0 and 1
    def frac_und(n, den, shape):
        while True:
            if shape == 'tree':
                E = [(int(rs.randint(v)), v) for v in range(1, n)]
            elif shape == 'cycle':
                E = [(i, (i + 1) % n) for i in range(n)]
            else:
                E = [(i, j) for i in range(n) for j in range(i + 1, n) if rs.rand() < 0.5]
            A = sym(n, E, w=[int(rs.randint(1, max(2, den // 2))) for _ in E]) if E else np.zeros((n, n))
            if is_connected(A):
                return A
    for t in range(36 if quick else 240):
        n = int(rs.randint(3, 7)); den = int(rs.choice([2, 4, 8, 16]))
        A = frac_und(n, den, ('tree', 'cycle', 'sparse')[t % 3])
        f = [int(x) for x in rs.randint(1, 5, size=n)] if t % 3 == 1 else None
        add('frac-und', A, ds=(DAMP[t % 3],), falff=f, den=den)
    for t in range(16 if quick else 100):      # heavy core + weakly attached pendant nodes
        m = int(rs.randint(3, 5)); den = int(rs.choice([4, 8, 16]))
        core = complete(m) * den * int(rs.randint(1, 3))
        n = m + int(rs.randint(1, 3))
        A = np.zeros((n, n)); A[:m, :m] = core
        for v in range(m, n):
            u = int(rs.randint(v)); w = int(rs.randint(1, den // 2))
            A[u, v] = A[v, u] = w
        add('frac-pendant', A, ds=(DAMP[t % 3],), den=den)
    for t in range(36 if quick else 240):      # weak directed cycles (+ weak chords): strongly connected, strengths < 1
        n = int(rs.randint(3, 7)); den = int(rs.choice([4, 8, 16]))
        p_ = rs.permutation(n)
        A = np.zeros((n, n))
        for q in range(n):
            A[p_[q], p_[(q + 1) % n]] = int(rs.randint(1, den // 2))
        if t % 2:
            extra = (rs.rand(n, n) < 0.25) * rs.randint(1, max(2, den // 4), size=(n, n))
            np.fill_diagonal(extra, 0)
            A = np.where(A > 0, A, extra)
        f = [int(x) for x in rs.randint(1, 4, size=n)] if t % 4 == 0 else None
        add('frac-dir', A, kind='dir', ds=(DAMP[t % 3],), falff=f, den=den)
    for (G, den) in [(cycle(4), 2), (cycle(5), 8), (kab(2, 3), 4), (path(4), 16), (star_w(), 8), (disjoint(cycle(3), cycle(4)), 8)]:
        add('frac-sym', G, den=den)
    return cases


# ------------------------------------------------------------------ oracles (independent of bct)

def walk_counts(Ab, qmax):
    """C[q][i][j] = number of node sequences i=v0,v1,..,vq=j with every step an edge (explicit enumeration)."""
    n = len(Ab)
    nb = [[int(v) for v in np.nonzero(Ab[u])[0]] for u in range(n)]
    C = np.zeros((qmax + 1, n, n), dtype=np.int64)

    def rec(start, u, q):
        C[q, start, u] += 1
        if q < qmax:
            for v in nb[u]:
                rec(start, v, q + 1)
    for s in range(n):
        rec(s, s, 0)
    return C


def walk_counts_exact(Ab, qmax):
    """exact walk counts with Python integers (object matrices): C[q] = B^q"""
    n = len(Ab)
    B = np.array(Ab.astype(int).tolist(), dtype=object)
    C = [np.array(np.eye(n, dtype=int).tolist(), dtype=object)]
    for q in range(1, qmax + 1):
        C.append(C[-1].dot(B))
    return C


def walk_counts_dp(Ab, qmax):
    n = len(Ab)
    C = np.zeros((qmax + 1, n, n), dtype=np.int64)
    C[0] = np.eye(n, dtype=np.int64)
    B = Ab.astype(np.int64)
    for q in range(1, qmax + 1):
        for i in range(n):
            for j in range(n):
                C[q, i, j] = sum(C[q - 1, i, k] for k in range(n) if B[k, j])
    return C


def close(a, b, tol=TOL):
    a = np.asarray(a, dtype=float); b = np.asarray(b, dtype=float)
    if a.shape != b.shape or not np.all(np.isfinite(a)):
        return False
    return bool(np.all(np.abs(a - b) <= tol * np.maximum(1.0, np.abs(b))))


def fr(x):
    f = Fraction(float(x))
    return '%d/%d' % (f.numerator, f.denominator) if f.denominator != 1 else '%d' % f.numerator


def run_case(c):
    bct = import_bct()
    import scipy.linalg as sla
    den = int(c.get('den', 1))
    Anum = np.array(c['A'], dtype=float)
    A = Anum / den; n = len(A); kind = c['kind']
    und = kind == 'und'
    conn = is_connected(A) if und else (kind == 'dir')
    out = {'fails': [], 'lines': [], 'timeouts': 0, 'ops': [], 'contract': []}
    F = out['fails']
    mstr = mat_str(Anum)
    dstr = '' if den == 1 else ' den=%d' % den
    dt = c.get('dtype', 'float64')
    Ar = A if (dt == 'float64' and c.get('order', 'C') == 'C') else np.array(A.astype(dt), order=c.get('order', 'C'))
    assert np.array_equal(np.asarray(Ar, dtype=float), A)       # every cast is exact (integer weights, bool only for binary graphs)
    single = dt in ('float32', 'bool', 'uint8')
    tol = TOL_SINGLE if single else TOL
    ka = tol / TOL                                              # absolute tolerances are scaled with it
    out['dtype'] = dt

    def fail(func, pred, info, extra=None):
        F.append((func, pred, info, extra or {}))

    def guarded(func, f, *a):
        st, v = call(f, *a, t=10.0, retry=10)
        if st == 'timeout':      # none of these routines loops: not returning within 10 s and again within 100 s on a <= 16-node graph is a failure
            out['timeouts'] += 1; fail(func, 'returns-within-budget', {'budget_s': 100.0}); return None
        if st == 'exc':
            fail(func, 'raises', {'exception': v}); return None
        return v

    def frs(xs):
        return ','.join(fr(x) for x in np.asarray(xs, dtype=float).ravel())

    # ---- random-walk measures (connected / strongly connected)
    if conn and n >= 2:
        rs_ = A.sum(1)
        P = A / rs_[:, None]
        M = guarded('mean_first_passage_time', bct.mean_first_passage_time, Ar.copy())
        if M is not None:
            M = np.asarray(M)
            out['ops'].append('mfpt')
            if M.shape != (n, n) or not np.all(np.isfinite(M)) or np.iscomplexobj(M) and np.abs(M.imag).max() > 1e-12:
                fail('mean_first_passage_time', 'mfpt-finite-real', {'M': str(M)})
            else:
                M = M.real
                rhs = 1 + P @ M - P * np.diag(M)[None, :]        # 1 + sum_{k != j} P[i,k] M[k,j]
                off = ~np.eye(n, dtype=bool)
                if not close(M[off], rhs[off], tol):
                    w_ = int(np.argmax(np.abs(M - rhs)[off] / np.maximum(1, np.abs(rhs[off]))))
                    fail('mean_first_passage_time', 'mfpt-recurrence', {'M': M.tolist() if n <= 12 else 'n=%d' % n, 'max_relative_residual': float((np.abs(M - rhs)[off] / np.maximum(1, np.abs(rhs[off])))[w_])})
                if np.abs(np.diag(M)).max() > 1e-9 * ka:
                    fail('mean_first_passage_time', 'mfpt-diagonal', {'diag': np.diag(M).tolist()})
                if (M[off] < 1 - 1e-9 * ka).any():
                    fail('mean_first_passage_time', 'mfpt-at-least-one-step', {'M': M.tolist()})
                if n <= NMODEL:
                    out['lines'].append(('mfpt', 'mfpt n=%d A=%s%s' % (n, mstr, dstr), {'M': M.ravel().tolist(), 'tol': tol}))
            de = guarded('diffusion_efficiency', bct.diffusion_efficiency, Ar.copy())
            if de is not None and M.shape == (n, n) and np.all(np.isfinite(M)):
                g, E = de; E = np.asarray(E, dtype=float)
                out['ops'].append('diffeff')
                off = ~np.eye(n, dtype=bool)
                if E.shape != (n, n) or not close((E * M.real)[off], np.ones(n * n - n), tol):
                    fail('diffusion_efficiency', 'diffeff-inverse', {'E': E.tolist()})
                elif np.abs(np.diag(E)).max() != 0:
                    fail('diffusion_efficiency', 'diffeff-diagonal', {'diag': np.diag(E).tolist()})
                elif not close(g, E[off].mean(), tol):
                    fail('diffusion_efficiency', 'diffeff-mean', {'g': float(g), 'mean': float(E[off].mean())})
                else:                 # independently of bct's own MFPT: 1/E must satisfy the first-passage recurrence
                    with np.errstate(all='ignore'):
                        Mh = np.where(off, 1.0 / np.where(off, E, 1.0), 0.0)
                    rh = 1 + P @ Mh
                    if not close(Mh[off], rh[off], tol):
                        fail('diffusion_efficiency', 'diffeff-recurrence', {'max_relative_residual': float((np.abs(Mh - rh)[off] / np.maximum(1, np.abs(rh[off]))).max())})
                if n <= NMODEL:
                  out['lines'].append(('diffeff', 'diffeff n=%d A=%s%s' % (n, mstr, dstr), {'g': float(g), 'E': E.ravel().tolist(), 'tol': tol}))

    # ---- PageRank
    deg = A.sum(0)
    if n >= 1 and (kind != 'dirany'):
        f = c.get('falff')
        for d in c['d']:
            fa = None if f is None else np.array(f, dtype=float)
            r = guarded('pagerank_centrality', bct.pagerank_centrality, Ar.copy(), d, fa)
            if r is None:
                continue
            r = np.asarray(r, dtype=float)
            out['ops'].append('pagerank')
            nf = np.ones(n) / n if f is None else np.array(f, dtype=float) / np.sum(f)
            cond = {'d': d, 'falff': f}
            if r.shape != (n,) or not np.all(np.isfinite(r)):
                fail('pagerank_centrality', 'pagerank-finite', dict(cond, r=str(r)))
                continue
            if abs(r.sum() - 1) > 1e-9 * ka:
                fail('pagerank_centrality', 'pagerank-sum-one', dict(cond, r=r.tolist()))
            if (deg > 0).all():
                rhs = d * (A / deg[None, :]) @ r + (1 - d) * nf
                if not close(r, rhs, tol):
                    fail('pagerank_centrality', 'pagerank-fixed-point', dict(cond, r=r.tolist(), rhs=rhs.tolist()))
                if not ((r > 0) | ((nf == 0) & (r >= -1e-15))).all() or (conn and not (r > 0).all()):
                    fail('pagerank_centrality', 'pagerank-positive', dict(cond, r=r.tolist()))
            elif (r < -1e-15).any():
                fail('pagerank_centrality', 'pagerank-positive', dict(cond, r=r.tolist()))
            line = 'pagerank n=%d A=%s%s d=%s' % (n, mstr, dstr, fr(d)) + ('' if f is None else ' f=' + ','.join(str(x) for x in f))
            if n <= NMODEL:
                out['lines'].append(('pagerank', line, {'r': r.tolist(), 'tol': tol}))

    # ---- spectral measures (undirected)
    if und and n >= 1:
        Cs = guarded('subgraph_centrality', bct.subgraph_centrality, Ar.copy())
        if Cs is not None:
            Cs = np.asarray(Cs)
            out['ops'].append('subgraph')
            ref = np.diag(sla.expm(A))
            # floating-point accuracy of a matrix exponential is relative to its largest entry (a barbell has exp(20) next to
            # path nodes of order 1): per-entry 1e-8 plus 1e-11 of the largest entry
            okx = Cs.shape == (n,) and np.all(np.isfinite(Cs)) and bool(np.all(np.abs(Cs - ref) <= tol * np.maximum(1.0, np.abs(ref)) + 1e-11 * ka * np.abs(ref).max()))
            if not okx:
                fail('subgraph_centrality', 'expm-diagonal', {'Cs': np.asarray(Cs).tolist(), 'expm_diag': ref.tolist()})
            if den == 1 and not single and n <= NMODEL:
              out['lines'].append(('expdiag', 'expdiag n=%d A=%s terms=%d' % (n, mstr, n_terms(A)), {'S': np.asarray(Cs, dtype=float).tolist()}))
            # post-processing as coded, on the same eigh output (LAPACK is deterministic): dot(vecs*vecs, exp(vals)); oracle contract checked
            if np.allclose(A, A.T) and Cs.shape == (n,) and not single and n <= NMODEL:
                w_, V_ = sla.eigh(A)
                okc = (np.abs(A @ V_ - V_ * w_[None, :]).max() <= 1e-8 * max(1.0, np.abs(w_).max())
                       and np.abs(V_ @ V_.T - np.eye(n)).max() <= 1e-10)
                out['contract'].append(('eigh', bool(okc)))
                ev = np.exp(w_)
                out['lines'].append(('subpost', 'subpost n=%d A=%s vecs=%s ev=%s' % (n, mstr, frs(V_), frs(ev)),
                                     {'S': np.real(Cs).astype(float).tolist()}))
        v = guarded('eigenvector_centrality_und', bct.eigenvector_centrality_und, Ar.copy())
        if v is not None:
            v = np.asarray(v)
            out['ops'].append('eigvec')
            lam = float(np.linalg.eigvalsh(A).max())
            if v.shape != (n,) or np.iscomplexobj(v) or not np.all(np.isfinite(v)):
                fail('eigenvector_centrality_und', 'eig-real-vector', {'v': str(v)})
            else:
                v = v.astype(float)
                if (v < 0).any():
                    fail('eigenvector_centrality_und', 'eig-nonneg', {'v': v.tolist()})
                if abs(np.linalg.norm(v) - 1) > 1e-9 * ka:
                    fail('eigenvector_centrality_und', 'eig-unit-norm', {'v': v.tolist(), 'norm': float(np.linalg.norm(v))})
                res = float(np.abs(A @ v - lam * v).max())
                if res > tol * max(1.0, abs(lam)):
                    fail('eigenvector_centrality_und', 'eig-residual-lambda-max', {'v': v.tolist(), 'lambda_max': lam, 'residual': res})
                Av = A @ v
                # post-processing as coded on the same eig output: i = argmax(vals); abs(vecs[:, i]); oracle contract checked
                skipm = single or n > NMODEL
                w_, V_ = sla.eig(A) if not skipm else (np.array([1j]), np.zeros((1, 1), dtype=complex))
                # For a repeated non-maximal eigenvalue LAPACK may return a complex-conjugate pair (imaginary parts ~1e-16) with complex
                # columns; the contract `EigOracle A vals vecs i` only concerns the selected column i and the list of eigenvalues.
                i_ = int(np.argmax(w_)); wr = np.real(w_); sc = max(1.0, np.abs(wr).max())
                if skipm:
                    pass        # single-precision LAPACK path / large n: judged by the search predicates only
                elif np.abs(np.imag(w_)).max() <= 1e-9 * sc and np.abs(np.imag(V_[:, i_])).max() == 0:
                    col = np.real(V_[:, i_])
                    okc = (np.abs(A @ col - wr[i_] * col).max() <= 1e-8 * sc and abs(col @ col - 1) <= 1e-10
                           and np.abs(np.sort(wr) - np.linalg.eigvalsh(A)).max() <= 1e-8 * sc
                           and i_ == int(np.argmax(wr)))
                    out['contract'].append(('eig', bool(okc)))
                    out['lines'].append(('eigpost', 'eigpost n=%d A=%s vals=%s vecs=%s' % (n, mstr, frs(wr), frs(np.real(V_))),
                                         {'i': i_, 'v': v.tolist()}))
                else:
                    out['contract'].append(('eig-selected-column-not-real', False))   # the theorem's hypothesis is not met: reported as a break
                exp = {'nrm2': float(v @ v), 'vmin': float(v.min()), 'ray': float(v @ Av / (v @ v)) if v @ v > 0 else None,
                       'lam': lam, 'conn': bool(conn)}
                if den == 1 and not single and n <= NMODEL:
                  out['lines'].append(('eigcert', 'eigcert n=%d A=%s v=%s' % (n, mstr, ','.join(fr(x) for x in v)), exp))

    # ---- findwalks (binary directed / undirected; weights discarded)
    if n >= 2:
        fw = guarded('findwalks', bct.findwalks, Ar.copy())
        if fw is not None:
            Wq, twalk, wlq = fw
            Wq = np.asarray(Wq); wlq = np.asarray(wlq)
            out['ops'].append('findwalks')
            Ab = A != 0
            C = walk_counts(Ab, n - 1) if n <= 6 else walk_counts_exact(Ab, n - 1)
            if Wq.shape != (n, n, n):
                fail('findwalks', 'walk-shape', {'shape': list(Wq.shape)})
            else:
                def same_slice(q):
                    if n <= 6:
                        return np.array_equal(Wq[:, :, q], C[q])
                    mx = max(int(v) for v in C[q].ravel())
                    if mx < 2 ** 53:                                   # exactly representable: exact comparison
                        return np.array_equal(Wq[:, :, q], C[q].astype(float))
                    ref = C[q].astype(float)                           # beyond 2^53 the float products round: 1e-9 relative
                    return bool(np.all(np.abs(Wq[:, :, q] - ref) <= 1e-9 * np.maximum(1.0, ref)))
                bad = [q for q in range(1, n) if not same_slice(q)]
                artefact = False
                if bad and dt in ('bool', 'uint8') and n <= 6:
                    # known defect: `binarize` keeps the storage type, so the powers are computed in it: logical products for bool
                    # (walk *existence*), arithmetic modulo 256 for uint8. Attributed only if the output is exactly that.
                    emu = [(C[q] > 0).astype(float) if dt == 'bool' else (C[q] % 256).astype(float) for q in range(n)]
                    artefact = all(np.array_equal(Wq[:, :, q], emu[q]) for q in range(1, n))
                if bad:
                    q = bad[0]
                    fail('findwalks', 'walk-count', {'q': q, 'dtype': dt, 'Wq_q': Wq[:, :, q].tolist() if n <= 12 else 'n=%d' % n,
                                                     'true': [[int(v) for v in r_] for r_ in np.asarray(C[q]).tolist()] if n <= 12 else 'n=%d' % n}, {'dtype_artefact': bool(artefact)})
                if np.any(Wq[:, :, 0] != 0):
                    fail('findwalks', 'walk-slice0', {'Wq_0': Wq[:, :, 0].tolist()})
                if not close(wlq, Wq.sum(0).sum(0), 1e-12) or not close(twalk, Wq.sum(), 1e-12):
                    fail('findwalks', 'walk-totals', {'twalk': float(twalk), 'wlq': wlq.tolist()})
                finite = bool(np.all(np.isfinite(Wq))) and bool(np.all(np.isfinite(wlq))) and bool(np.isfinite(twalk))
                if not finite and not bad:
                    fail('findwalks', 'walk-count', {'dtype': dt, 'non_finite_entries': int((~np.isfinite(Wq)).sum())}, {'dtype_artefact': False})
                if artefact:
                    out['nocorr'] = 1
                elif n <= 8 and finite and bool(np.all(Wq == np.round(Wq))):
                    # the expected line is only built from finite integer-valued output (a non-finite / fractional result is already a walk-count violation above)
                    sl = ';'.join(mat_str(Wq[:, :, q]) for q in range(n))
                    out['lines'].append(('findwalks', 'findwalks n=%d A=%s' % (n, mstr),
                                         {'line': 'Wq=%s twalk=%d wlq=%s' % (sl, int(twalk), ','.join(str(int(x)) for x in wlq))}))
    return out



# ------------------------------------------------------------------ history / object-reuse probes

ROUTINES = ('mean_first_passage_time', 'diffusion_efficiency', 'pagerank_centrality', 'subgraph_centrality',
            'eigenvector_centrality_und', 'findwalks')


def gen_probes(rs, tier):
    """short call sequences on shared objects: the result of every routine is a function of the argument values only"""
    N = 120 if tier != 'thorough' else 900
    P = []
    kinds = ('arg-mutate', 'returned-edit', 'pair', 'sequence', 'option-sequence')
    for t in range(N):
        f = ROUTINES[t % len(ROUTINES)]
        und = f in ('subgraph_centrality', 'eigenvector_centrality_und') or rs.rand() < 0.5
        n = int(rs.randint(3, 8))
        if und:
            while True:
                A = rand_graph(rs, n, rs.choice([0.5, 0.8]), False, wmax=int(rs.choice([1, 3])))
                if is_connected(A):
                    break
        else:
            A = rand_strong(rs, n, int(rs.choice([1, 3])))
        while True:       # a second, different matrix of the same size
            B = rand_graph(rs, n, 0.7, False, wmax=2) if und else rand_strong(rs, n, 2)
            if (is_connected(B) if und else True) and not np.array_equal(A, B):
                break
        P.append({'probe': kinds[(t // len(ROUTINES)) % len(kinds)], 'f': f, 'g': ROUTINES[int(rs.randint(len(ROUTINES)))], 'und': bool(und),
                  'A': A.astype(int).tolist(), 'B': B.astype(int).tolist(), 'd': float(DAMP[t % 3]),
                  'falff': [int(x) for x in rs.randint(1, 5, size=n)], 'edit': int(rs.randint(3)), 'seed': int(rs.randint(2 ** 31 - 1))})
    return P


def run_probe(pc):
    bct = import_bct()
    import copy
    A = np.array(pc['A'], dtype=float); B = np.array(pc['B'], dtype=float); n = len(A); und = pc['und']
    d = pc['d']
    prs = np.random.RandomState(pc['seed'])

    def routine(name):
        f = getattr(bct, name)
        if name == 'pagerank_centrality':
            return lambda M, *fa: f(M, d, *fa)
        if name in ('subgraph_centrality', 'eigenvector_centrality_und') and not und:
            return lambda M: f(np.maximum(M, M.T))      # spectral routines only see symmetric input
        return f
    f = routine(pc['f']); g = routine(pc['g'])
    out = {'probe': pc['probe'], 'f': pc['f'], 'fail': None, 'ran': 0}
    edges = [(i, j) for i in range(n) for j in range(n) if A[i, j] != 0 and (i < j or not und)]
    (ei, ej) = edges[int(prs.randint(len(edges)))]

    def mutate(args):          # re-weight one existing edge in place (symmetric for undirected input): stays in the domain
        M = args[0]
        M[ei, ej] += 2
        if und:
            M[ej, ei] += 2
        if len(args) > 1 and isinstance(args[1], np.ndarray):
            args[1][0] += 3       # and the prior vector

    def edit(r):               # the caller edits the returned array(s) in place
        for a in (r if isinstance(r, tuple) else (r,)):
            if isinstance(a, np.ndarray) and a.size:
                if pc['edit'] == 0:
                    a *= -3.0
                elif pc['edit'] == 1:
                    a[...] = 7.0
                else:
                    np.reciprocal(a, out=a, where=(a != 0))

    def snap(r):
        return copy.deepcopy(r)
    T = 20.0
    kind = pc['probe']
    if kind == 'arg-mutate':
        args = [A.copy()] + ([np.array(pc['falff'], dtype=float)] if pc['f'] == 'pagerank_centrality' and pc['edit'] else [])
        res = reuse_probe(f, args, mutate, t=T, tol=1e-12)
        out['ran'] = 1
        if res is not None:
            out['fail'] = res
    elif kind == 'pair':       # g(A) between two f(A) on the same object, A edited in place in between
        M = A.copy()
        res = reuse_probe(lambda X: (g(X), f(X))[1], [M], mutate, t=T, tol=1e-12)
        out['ran'] = 1
        if res is not None:
            out['fail'] = dict(res, g=pc['g'])
    elif kind == 'returned-edit':    # f(A); edit the returned array in place; [g(A)]; f(A) again must equal the first result
        M = A.copy()
        s1, r1 = call(f, M, t=T)
        if s1 == 'ok':
            want = snap(r1); edit(r1)
            if pc['edit'] != 1:
                call(g, M, t=T)
            s2, r2 = call(f, M, t=T)
            s3, r3 = call(f, A.copy(), t=T)
            out['ran'] = 1
            if s2 == 'ok' and s3 == 'ok' and not (same_result(r2, want, 1e-12) and same_result(r3, want, 1e-12)) and np.array_equal(M, A):
                out['fail'] = {'first_result': str(want)[:300], 'after_editing_the_returned_array': str(r2)[:300], 'on_a_fresh_copy': str(r3)[:300], 'g': pc['g']}
            elif s2 != 'ok' or s3 != 'ok':
                out['fail'] = {'second_call': s2, 'fresh_copy_call': s3, 'detail': str(r2)[:200]}
    elif kind == 'sequence':         # f(A), g(B), f(B), f(A): same-size inputs in mixed order
        s1, r1 = call(f, A.copy(), t=T)
        want = snap(r1)
        call(g, B.copy(), t=T); call(f, B.copy(), t=T)
        s2, r2 = call(f, A.copy(), t=T)
        out['ran'] = 1
        if s1 == 'ok' and (s2 != 'ok' or not same_result(r2, want, 1e-12)):
            out['fail'] = {'first_result': str(want)[:300], 'after_g(B)_f(B)': str(r2)[:300], 'g': pc['g'], 'B': pc['B']}
    else:                            # option away from its default, then the default
        fa = np.array(pc['falff'], dtype=float)
        s0, r0 = call(bct.pagerank_centrality, A.copy(), d, fa, t=T)
        s1, r1 = call(bct.pagerank_centrality, A.copy(), d, t=T)
        s2, r2 = call(bct.pagerank_centrality, A.copy(), d, np.ones(n) * 5.0, t=T)     # uniform prior given explicitly, unnormalised
        s3, r3 = call(bct.pagerank_centrality, A.copy(), d, fa * 4.0, t=T)             # the prior is only used through falff / sum(falff)
        out['ran'] = 1; out['f'] = 'pagerank_centrality'
        if 'ok' != s1 or s2 != 'ok' or not same_result(r1, r2, 1e-12):
            out['fail'] = {'default_prior_after_custom_prior': str(r1)[:300], 'explicit_uniform_prior': str(r2)[:300]}
        elif s0 != s3 or (s0 == 'ok' and not same_result(r0, r3, 1e-12)):
            out['fail'] = {'prior_f': str(r0)[:300], 'prior_4f': str(r3)[:300]}
    return out


def run_any(c):
    return run_probe(c) if 'probe' in c else run_case(c)


# ------------------------------------------------------------------ correspondence

def fvals(s):
    return [float(Fraction(t)) for t in s.split(',')]


def compare(op, res, exp):
    """None if the model line agrees with the real output, else a short description"""
    if res.startswith('error='):
        return 'model returned ' + res
    d = kv(res)
    try:
        if op == 'mfpt':
            return None if close(exp['M'], fvals(d['M']), exp.get('tol', TOL)) else 'M differs'
        if op == 'diffeff':
            ok = close(exp['E'], fvals(d['E']), exp.get('tol', TOL)) and close(exp['g'], float(Fraction(d['g'])), exp.get('tol', TOL))
            return None if ok else 'g/E differs'
        if op == 'pagerank':
            return None if close(exp['r'], fvals(d['r']), exp.get('tol', TOL)) else 'r differs'
        if op == 'findwalks':
            return None if res == exp['line'] else 'Wq/twalk/wlq differ'
        if op == 'expdiag':
            S = np.array(fvals(d['S'])); b = float(Fraction(d['bound']))
            py = np.array(exp['S'])
            ok = b <= 1e-9 and py.shape == S.shape and bool(np.all(np.abs(py - S) <= b + TOL * np.maximum(1, np.abs(S))))
            return None if ok else 'series (bound %.3g) differs' % b
        if op == 'eigpost':
            vm = fvals(d['v'])
            ok = int(d['i']) == exp['i'] and vm == [float(x) for x in exp['v']]
            return None if ok else 'argmax / abs(column) differ from the returned vector (model i=%s, numpy argmax=%d)' % (d['i'], exp['i'])
        if op == 'subpost':
            return None if close(exp['S'], fvals(d['S']), 1e-12) else 'dot(vecs*vecs, exp(vals)) differs'
        if op == 'eigcert':
            nrm2 = float(Fraction(d['nrm2'])); vmin = float(Fraction(d['vmin'])); ray = float(Fraction(d['ray'])); res2 = float(Fraction(d['res2']))
            if abs(nrm2 - exp['nrm2']) > 1e-12 or abs(vmin - exp['vmin']) > 1e-15 or abs(ray - exp['ray']) > 1e-9:
                return 'exact norm/min/Rayleigh differ from float evaluation'
            if abs(nrm2 - 1) > 1e-9 or vmin < 0 or res2 > 1e-16 * max(1, ray * ray) * 100 or abs(ray - exp['lam']) > TOL * max(1, abs(exp['lam'])):
                return 'exact certificate rejects the vector (nrm2=%.12g vmin=%.3g ray=%.12g res2=%.3g lam=%.12g)' % (nrm2, vmin, ray, res2, exp['lam'])
            if exp['conn'] and d['lo'] != '-':
                lo = float(Fraction(d['lo'])); hi = float(Fraction(d['hi']))
                if not (lo - 1e-12 <= exp['lam'] <= hi + 1e-12 and hi - lo <= 1e-7 * max(1, hi)):
                    return 'Collatz-Wielandt bracket [%.12g, %.12g] does not pin lambda_max=%.12g' % (lo, hi, exp['lam'])
            return None
    except Exception as e:  # malformed model output is a break, never agreement
        return 'unparsable model output: %s' % e
    return 'unknown op'


def malformed_stream(bct):
    """inputs outside the quantifier: only the documented rejection / 'no claim' is compared"""
    items = []
    Z = np.array([[0., 1, 0], [0, 0, 0], [1, 0, 0]])
    st, v = call(bct.mean_first_passage_time, Z.copy(), t=5)
    items.append(('mfpt n=3 A=%s' % mat_str(Z), 'error=singular' if st == 'exc' and v.startswith('LinAlgError') else 'py:%s %s' % (st, v)))
    st, v = call(bct.findwalks, np.zeros((1, 1)), t=5)
    items.append(('findwalks n=1 A=0', 'error=IndexError' if st == 'exc' and v.startswith('IndexError') else 'py:%s %s' % (st, v)))
    for bad in ['mfpt n=3 A=0,1,1', 'pagerank n=2 A=0,1,1,0', 'pagerank n=2 A=0,1,1,0 d=1/0', 'nosuchop n=2 A=0,1,1,0', 'expdiag n=2 A=0,1,1,0',
                'eigcert n=2 A=0,1,1,0 v=1/2', 'findwalks n=x A=0', 'eigpost n=2 A=0,0,0,0 vals=1 vecs=1,0,0,1', 'subpost n=2 A=0,0,0,0 vecs=1,0,0 ev=1,1', '']:
        items.append((bad, 'error=protocol'))
    items.append(('expdiag n=2 A=0,9,9,0 terms=3', 'error=terms'))
    items.append(('eigpost n=0 A=- vals=- vecs=-', 'error=protocol'))
    return items


def main():
    ck = Check(PID)
    ck.cov['rule'] = ('cases = (graph, damping d, prior f): every connected labelled graph on <=5 nodes (thorough; one per isomorphism class plus a random '
                      'labelled slice in quick), all graphs on <=4 nodes, cycles, K_{a,b}, regular graphs (circulants, K_n, cube, Petersen), disjoint copies (block ordered and with interleaved / randomly shuffled node labels), every integer-weighted case stored as float64 / int64 / int32 / float32 / uint8 / bool (binary graphs) in C or Fortran order, '
                      'random weighted connected undirected and strongly connected directed graphs n=3..6, rational weights k/den (den=2..16: trees, cycles, pendant nodes, weak directed cycles with row/column strengths in (0,1)), d in {.5,.85,.99}; each case is run through '
                      'every routine whose domain contains it; the case list is shuffled before it is split over the workers; history / object-reuse probes (argument edited in place between two calls, returned array edited in place, g(A) between two f(A), f(A) g(B) f(B) f(A) on same-size inputs, prior option then default); non-trivial = distinct (graph, d, f) with at least one edge on which at least one routine returned')
    ck.assumptions += ['random-walk measures only on connected undirected / strongly connected directed inputs; spectral measures on symmetric non-negative input',
                       'LAPACK / expm / libm are outside the proof: float results are compared with exact rational values at 1e-8 relative',
                       'PageRank fixed point is asserted only when no column of A is empty (otherwise the code rescales, see notes/C18.md)']
    # T-gen: whole bodies of pagerank_centrality / mean_first_passage_time re-extracted from /repo's current source
    ck.cov['cores'] = cores.generate(families=['walks', 'pinwalk'])
    for p_ in ck.cov['cores']['problems']:
        ck.corr_break('core extractor (translate/cores.py)', p_)
    ok = ck.lean_gate(['BctVerif.Props.C18'], extra_modules=['BctVerif.Model.Walks'])
    ck.lean_gate([], gen_modules=['BctVerif.Gen.CoresWalks', 'BctVerif.Gen.CoresPinWalk'])
    if ck.tier == 'thorough' and ok:
        ck.leanchecker(['BctVerif.Props.C18', 'BctVerif.Model.Walks'])
    if ck.replay:
        cases = [json.load(open(ck.replay))['case']['case']]
    else:
        cases = gen_cases(ck.rs, ck.tier) + gen_probes(ck.rs, ck.tier)
        # interleave: no worker sees the cases grouped by family, routine or size (hidden state across calls must not line up with the case order)
        cases = [cases[i] for i in ck.rs.permutation(len(cases))]
    results = pmap(run_any, cases)
    lines, meta = [], []
    for c, r in zip(cases, results):
        if 'probe' in c:
            ck.count('probe:' + c['probe'], r['ran']); ck.count('probe-routine:' + r['f'], r['ran'])
            ck.case(nontrivial_key=digest(c) if r['ran'] else None)
            if r['fail'] is not None:
                ck.violation(r['f'], 'result-depends-on-history', {'case': c, 'info': r['fail']}, {'family': 'probe:' + c['probe'], 'den': 1})
            continue
        A = np.array(c['A'])
        nontriv = bool(A.any()) and bool(r['ops'])
        ck.count('family:' + c['fam']); ck.count('n=%d' % len(A)); ck.count('timeouts', r['timeouts'])
        for o in r['ops']:
            ck.count('op:' + o)
        ck.case(sample={'family': c['fam'], 'A': c['A'], 'den': c.get('den', 1), 'd': c['d'], 'falff': c['falff'], 'routines': sorted(set(r['ops']))} if nontriv and c['fam'] in ('cycle', 'strong-dir', 'disjoint', 'disjoint-shuffled', 'frac-dir', 'frac-pendant') else None,
                nontrivial_key=digest([c['A'], c.get('den', 1), c['d'], c['falff']]) if nontriv else None)
        for kind, okc in r['contract']:
            ck.count('oracle_contract:%s:%s' % (kind, 'ok' if okc else 'FAILED'))
            if not okc:
                ck.corr_break('LAPACK output does not meet the oracle contract assumed by eigenvector_spec / subgraph_spec (%s)' % kind, {'case': c})
        ck.count('dtype:%s/%s' % (c.get('dtype', 'float64'), c.get('order', 'C')))
        if r.get('nocorr'):
            ck.count('correspondence_skipped(findwalks storage-type artefact: reported as a violation, not sent to the model)')
        for func, pred, info, extra in r['fails']:
            cond = dict({'family': c['fam'], 'den': c.get('den', 1), 'dtype_artefact': False}, **extra)
            ck.violation(func, pred, {'case': c, 'info': info}, cond)
        for op, line, exp in r['lines']:
            lines.append(line); meta.append((c, op, exp))
    if not ck.replay:
        for o in ('mfpt', 'diffeff', 'pagerank', 'subgraph', 'eigvec', 'findwalks'):
            if not ck.dist.get('op:' + o):
                ck.corr_break('routine never returned normally in this run', {'op': o})
    if ok:
        try:
            bct = import_bct()
            mal = [] if ck.replay else malformed_stream(bct)
            outs = run_driver('Walks', lines + [m[0] if m[0] else 'x' for m in mal], timeout=2400)
            nd = 0
            for (c, op, exp), o in zip(meta, outs):
                why = compare(op, o, exp)
                if why is not None:
                    nd += 1
                    if nd <= 5:
                        ck.corr_break('Walks model vs bct (%s)' % op, {'case': c, 'why': why, 'model': o[:300]})
            for (ln, want), o in zip(mal, outs[len(lines):]):
                ck.count('malformed_cases')
                if o != want:
                    nd += 1
                    ck.corr_break('Walks model, malformed stream', {'line': ln, 'model': o[:200], 'expected': want})
            ck.cov['traces_validated_against_impl'] = len(outs) - nd
            ck.count('correspondence_cases', len(outs)); ck.count('correspondence_disagreements', nd)
        except DriverError as e:
            ck.corr_break('Walks driver', str(e))
    ck.finish()


if __name__ == '__main__':
    main()
