"""C16 — connected components are exactly the classes of mutually reachable nodes.

Lean: BctVerif.Props.C16 (theorems about the executable model BctVerif.Model.Comp).
Correspondence: Main/Comp.lean vs bct.get_components / number_of_components (labels compared verbatim:
the model reproduces the scan order, hence the label numbering).
Search: union-find oracle on the real outputs (co-membership, labels 1..m, sizes, singletons, rejection of
asymmetric input) and agreement with the finite entries of distance_bin / breadthdist / reachdist.
"""
import sys
from common import *  # noqa
sys.path.insert(0, os.path.join(VERIF, 'translate')); import cores  # noqa: E402

PID = 'C16'
T_CALL = 3.0
import multiprocessing as _mp
_CONFIRMED = _mp.Value('i', 0)     # confirmed (twice timed-out) calls of this run, shared with the forked pool workers
GIVE_UP_AFTER = 4


def wcall(f, *a, **k):
    """watchdog call whose timeout is a verdict: a timeout is re-tried once with 10x the budget (common.call retry=10) so that
    a single wall-clock stall of a loaded machine cannot become a break; once GIVE_UP_AFTER calls have timed out twice the
    verdict is settled and the remaining calls of the run are not started (keeps a hanging tree from costing 33 s per call)."""
    if _CONFIRMED.value >= GIVE_UP_AFTER:
        return ('timeout', None)
    r = call(f, *a, t=T_CALL, retry=10, **k)
    if r[0] == 'timeout':
        with _CONFIRMED.get_lock():
            _CONFIRMED.value += 1
    return r


# ------------------------------------------------------------------ oracle: union-find over the nonzero off-diagonal cells

def uf_classes(A):
    n = len(A)
    par = list(range(n))

    def find(x):
        while par[x] != x:
            par[x] = par[par[x]]; x = par[x]
        return x
    for i in range(n):
        for j in range(n):
            if i != j and (A[i][j] != 0 or A[j][i] != 0):
                a, b = find(i), find(j)
                if a != b:
                    par[max(a, b)] = min(a, b)
    return [find(x) for x in range(n)]


def ints(xs):
    return ','.join(str(int(x)) for x in xs) if len(xs) else '-'


def flat(A):
    return [x for r in A for x in r]


# ------------------------------------------------------------------ representation axis (audit 3): same values, other storage

REPS = ('bool', 'uint8', 'int32', 'int64', 'float32', 'fortran', 'tview', 'strided')


def rep_ok(A, rep):
    """can `rep` hold the values of A exactly?"""
    v = flat(A)
    if rep == 'bool':
        return all(x in (0, 1) for x in v)
    if rep == 'uint8':
        return all(x == int(x) and 0 <= x <= 255 for x in v)
    if rep in ('int32', 'int64'):
        return all(x == int(x) for x in v)
    if rep == 'float32':
        return all(float(np.float32(x)) == x for x in v)
    return True


def represent(A, rep):
    M = np.array(A, dtype=float).reshape(len(A), len(A))      # (n = 0: a 0x0 matrix)
    if rep in (None, 'float64'):
        return M
    if rep in ('bool', 'uint8', 'int32', 'int64', 'float32'):
        R = M.astype(getattr(np, rep) if rep != 'bool' else bool)
        assert np.array_equal(R.astype(float), M), 'representation must keep the values'
        return R
    if rep == 'fortran':
        return np.asfortranarray(M)
    if rep == 'tview':
        return M.T.copy().T
    if rep == 'strided':
        B = np.zeros((2 * len(A), 2 * len(A)))
        B[::2, ::2] = M
        return B[::2, ::2]
    raise ValueError(rep)


def run_job(job):
    bct = import_bct()
    A = [[float(x) if isinstance(x, str) else x for x in r] for r in job['A']]     # special values travel as strings ('inf', '-0.0', '5e-324')
    n = len(A); scale = job.get('scale', 1)
    out = {'viol': [], 'lines': [], 'n': n, 'status': {}, 'nontrivial': None, 'evals': 0, 'timeouts': [], 'dist': {}}

    def st(s):
        out['status'][s] = out['status'].get(s, 0) + 1

    def viol(func, pred, obs, exp, cond=None):
        out['viol'].append((func, pred, {'case': job, 'observed': obs, 'expected': exp}, cond or {}))

    if job.get('kind') == 'probe':
        return run_probe(job, bct, out, viol)
    rep = job.get('rep')
    Af = represent(A, rep)
    if job.get('encode') == 'rank':
        # special values (inf, 1e-300, denormals, -0.0 ...): the Int model sees the signed rank of each distinct non-zero value,
        # which keeps exactly what the routine may depend on: zero / non-zero (-0.0 is zero) and equality of A[i,j] and A[j,i]
        vals = sorted({abs(x) for x in flat(A) if x != 0})
        rk = {v: i + 1 for i, v in enumerate(vals)}
        Aint = [[0 if x == 0 else (rk[abs(x)] if x > 0 else -rk[abs(x)]) for x in r] for r in A]
    else:
        Aint = [[int(round(x * scale)) for x in r] for r in A]       # what the Lean model sees (scale keeps zero/nonzero and equality)
        assert all(abs(x * scale - round(x * scale)) == 0 for x in flat(A))
    sym = all(A[i][j] == A[j][i] for i in range(n) for j in range(n))
    A0 = Af.copy()
    r = wcall(bct.get_components, Af)
    r2 = wcall(bct.number_of_components, represent(A, rep)) if r[0] != 'timeout' else r
    out['evals'] += 1
    st(r[0])
    if r[0] == 'timeout' or r2[0] == 'timeout':
        out['timeouts'].append('get_components'); return out
    line = 'get_components n=%d A=%s' % (n, ints(flat(Aint)))
    line2 = 'number_of_components n=%d A=%s' % (n, ints(flat(Aint)))
    if not sym:
        # malformed stream: the only acceptable outcome is BCTParamError, from both routines
        for func, rr, ln in (('get_components', r, line), ('number_of_components', r2, line2)):
            if rr[0] == 'exc' and exc_kind(rr[1]) == 'BCTParamError':
                out['lines'].append((ln, 'error=BCTParamError', func))
            else:
                viol(func, 'rejects-asymmetric', rr[1] if rr[0] == 'exc' else 'returned %s' % (str(rr[1])[:120],), 'BCTParamError')
        out['dist']['malformed'] = 1
        return out
    if r[0] == 'exc':
        viol('get_components', 'raises', r[1], None); return out
    comps, sizes = r[1]
    comps = [int(x) for x in np.asarray(comps).ravel()]
    sizes = [int(x) for x in np.asarray(sizes).ravel()]
    if not job.get('nolean'):     # (K257: 66 000 scanned cells cost the interpreted model ~10 s; judged by the oracle only)
        out['lines'].append((line, 'comps=%s sizes=%s' % (ints(comps), ints(sizes)), 'get_components'))
    r3 = wcall(bct.get_components, represent(A, rep), no_depend=True)      # the routine's only option (documented as ignored)
    if r3[0] == 'ok' and not same_result(r3[1], r[1]):
        viol('get_components', 'option-no_depend-ignored', str(r3[1])[:200], str(r[1])[:200])
    elif r3[0] == 'exc':
        viol('get_components', 'raises', r3[1], None)
    if r2[0] == 'exc':
        viol('number_of_components', 'raises', r2[1], None)
    else:
        if n <= 130:      # (beyond, the model would only repeat the get_components computation; the count is judged below)
            out['lines'].append((line2, 'm=%d' % int(r2[1]), 'number_of_components'))
    cls = uf_classes(A)
    m_true = len(set(cls))
    out['dist']['m=%d' % min(m_true, 6)] = 1
    if m_true >= 2 and any(cls.count(c) >= 2 for c in set(cls)):
        out['nontrivial'] = digest(['gc', A])
    if len(comps) != n:
        viol('get_components', 'one-label-per-node', comps, 'length %d' % n); return out
    bad = [(x, y) for x in range(n) for y in range(x + 1, n) if (comps[x] == comps[y]) != (cls[x] == cls[y])]
    if bad:
        x, y = bad[0]
        viol('get_components', 'same-label-iff-path', {'comps': comps, 'pair': [x, y], 'same_label': comps[x] == comps[y]},
             {'joined_by_path': cls[x] == cls[y], 'classes': cls})
    if sorted(set(comps)) != list(range(1, len(sizes) + 1)):
        viol('get_components', 'labels-1..m', {'labels': sorted(set(comps)), 'm': len(sizes)}, list(range(1, len(sizes) + 1)))
    want = [comps.count(l + 1) for l in range(len(sizes))]
    if sizes != want:
        viol('get_components', 'sizes', sizes, want)
    for v in range(n):
        if all(A[v][w] == 0 for w in range(n) if w != v):
            if comps.count(comps[v]) != 1 or not (1 <= comps[v] <= len(sizes)) or sizes[comps[v] - 1] != 1:
                viol('get_components', 'isolated-singletons', {'node': v, 'comps': comps, 'sizes': sizes}, 'own component of size 1'); break
    if r2[0] == 'ok' and int(r2[1]) != m_true:
        viol('number_of_components', 'number-of-components', int(r2[1]), m_true)
    if not np.array_equal(Af, A0):
        out['dist']['input_modified'] = 1        # C13's business; counted only
    # agreement with the finite entries of the three distance routines on the same network (binary, empty diagonal)
    if job.get('dist', True) and n > 0:      # a zero-node network has no pairs to compare (and np.array([]) is 1-d)
        B = (np.array(A, dtype=float).reshape(n, n) != 0).astype(float)
        np.fill_diagonal(B, 0)
        Bl = B.tolist()
        for name, f, pick in (('distance_bin', bct.distance_bin, lambda o: o),
                              ('breadthdist', bct.breadthdist, lambda o: o[1]),
                              ('reachdist', bct.reachdist, lambda o: o[1])):
            rd = wcall(f, represent(Bl, rep))
            if rd[0] == 'timeout':
                out['timeouts'].append(name); continue
            if rd[0] == 'exc':
                # the distance routine itself fails on this storage of the same network
                viol(name, 'raises', {'exception': rd[1], 'storage': rep or 'float64', 'network': Bl}, 'no exception',
                     {'storage': 'integer-or-bool' if rep in ('bool', 'uint8', 'int32', 'int64') else 'float'}); continue
            D = np.asarray(pick(rd[1]), dtype=float)
            out['dist']['agree:' + name] = out['dist'].get('agree:' + name, 0) + 1
            badp = [(x, y) for x in range(n) for y in range(n) if x != y and bool(np.isfinite(D[x, y])) != (comps[x] == comps[y])]
            if badp:
                x, y = badp[0]
                viol('get_components', 'agrees-' + name, {'pair': [x, y], 'D': float(D[x, y]), 'comps': comps}, {'classes': cls})
    return out


# ------------------------------------------------------------------ history / object-reuse probes (round 3)

def run_probe(job, bct, out, viol):
    """common.reuse_probe(target, (A,)): between the two calls on the SAME array object `mutate` optionally calls the partner
    routine on it and then edits the matrix in place, symmetrically (join two components, cut an edge, threshold / binarize
    with copy=False).  Additionally number_of_components and get_components must agree on the edited object."""
    rs = np.random.RandomState(job['pseed'])
    target, warm, edit = job['probe']
    A = np.array(job['A'], dtype=float)
    n = len(A)
    log = []

    def mutate(a):
        M = a[0]
        if warm != 'none':
            call(getattr(bct, warm), M, t=T_CALL); log.append('%s(A) on the same object' % warm)
        if edit == 'join':
            cls = uf_classes(M.tolist())
            reps = sorted(set(cls))
            if len(reps) >= 2:
                c1, c2 = [int(x) for x in rs.choice(len(reps), size=2, replace=False)]
                i = [v for v in range(n) if cls[v] == reps[c1]][0]; j = [v for v in range(n) if cls[v] == reps[c2]][-1]
                M[i, j] = M[j, i] = 1.0; log.append('A[%d,%d] = A[%d,%d] = 1 in place (joins two components)' % (i, j, j, i))
        elif edit == 'cut':
            es = [(i, j) for i in range(n) for j in range(i + 1, n) if M[i, j] != 0]
            for _ in range(int(rs.randint(1, 3))):
                if es:
                    i, j = es.pop(int(rs.randint(len(es))))
                    M[i, j] = M[j, i] = 0.0; log.append('A[%d,%d] = A[%d,%d] = 0 in place' % (i, j, j, i))
        elif edit == 'threshold':
            thr = float(rs.randint(2, 5))
            call(bct.threshold_absolute, M, thr, copy=False, t=T_CALL); log.append('threshold_absolute(A, %r, copy=False)' % thr)
        elif edit == 'binarize':
            call(bct.binarize, M, copy=False, t=T_CALL); log.append('binarize(A, copy=False)')

    d = reuse_probe(getattr(bct, target), [A], mutate, t=T_CALL)
    out['evals'] += 1
    out['status']['probe'] = out['status'].get('probe', 0) + 1
    if d is not None:
        d['between_the_two_calls'] = log
        d['matrix_at_second_call'] = A.tolist()
        viol(target, 'result-depends-on-history', d, 'second call on the same array object = call on fresh copies')
    # the two routines on the edited object, and the oracle
    r1 = call(bct.number_of_components, A, t=T_CALL); r2 = call(bct.get_components, A, t=T_CALL)
    if r1[0] == 'ok' and r2[0] == 'ok':
        m_true = len(set(uf_classes(A.tolist())))
        if int(r1[1]) != len(r2[1][1]) or int(r1[1]) != m_true:
            viol('number_of_components', 'number-of-components', {'number_of_components': int(r1[1]), 'len(comp_sizes)': len(r2[1][1]),
                 'between_the_calls': log, 'matrix': A.tolist()}, m_true)
    if d is None:
        out['nontrivial'] = digest(['probe', job['probe'], job['A'], job['pseed']])
    return out


def gen_probes(rs, m):
    jobs = []
    combos = [(t_, w, e) for t_ in ('number_of_components', 'get_components') for w in ('none', 'number_of_components', 'get_components')
              for e in ('join', 'cut', 'threshold', 'binarize')]
    for q in range(m):
        c = combos[q % len(combos)]
        n = int(rs.randint(5, 13))
        A = forest(rs, n, int(rs.randint(2, 5))) if rs.rand() < .6 else rand_sparse(rs, n, 1.5 / n)
        if c[2] in ('threshold', 'binarize') or rs.rand() < .3:
            for i in range(n):
                for j in range(i + 1, n):
                    if A[i][j]:
                        A[i][j] = A[j][i] = int(rs.randint(1, 6))
        jobs.append({'kind': 'probe', 'probe': list(c), 'A': A, 'fam': 'reuse-probe', 'pseed': int(rs.randint(1 << 30)), 'dist': False})
    return jobs


# ------------------------------------------------------------------ generators

def und_from_bits(n, code):
    A = [[0] * n for _ in range(n)]
    for i in range(n):
        for j in range(i + 1, n):
            if code & 1:
                A[i][j] = A[j][i] = 1
            code >>= 1
    return A


def decorate(rs, A, mode):
    """same network, weighted and/or with an arbitrary diagonal; returns (A, scale)"""
    n = len(A)
    B = [r[:] for r in A]
    scale = 1
    if mode in ('w', 'wd'):
        if rs.rand() < .5:
            vals = [1, 2, 3, 7, -1, -4]
        else:
            vals = [.25, .5, 1.75, 3.0, -.5]; scale = 4
        for i in range(n):
            for j in range(i + 1, n):
                if B[i][j]:
                    B[i][j] = B[j][i] = vals[rs.randint(len(vals))]
    if mode in ('d', 'wd'):
        for i in range(n):
            if rs.rand() < .5:
                B[i][i] = [1, 2, -3][rs.randint(3)]
    return B, scale


def perm_graph(rs, A):
    n = len(A); p = rs.permutation(n)
    return [[A[p[i]][p[j]] for j in range(n)] for i in range(n)]


def forest(rs, n, ntrees):
    A = [[0] * n for _ in range(n)]
    roots = list(range(min(ntrees, n)))
    for v in range(len(roots), n):
        u = int(rs.randint(0, v))
        A[u][v] = A[v][u] = 1
    return perm_graph(rs, A)


def late_merge(rs, n):
    """many partial components are built first (edges among high-index partners scanned early from low rows),
    then single late edges join several of them at once"""
    A = [[0] * n for _ in range(n)]
    h = n // 2
    for i in range(h):                       # matching i -- n-1-i : h partial components, all started in the first rows
        A[i][n - 1 - i] = A[n - 1 - i][i] = 1
    hub = n - 1 - int(rs.randint(0, h))      # a late row that touches several of them
    for i in range(h, n):
        if i != hub and rs.rand() < .6:
            A[hub][i] = A[i][hub] = 1
    if rs.rand() < .5:
        return A
    return perm_graph(rs, A)


def rand_sparse(rs, n, p):
    A = [[0] * n for _ in range(n)]
    for i in range(n):
        for j in range(i + 1, n):
            if rs.rand() < p:
                A[i][j] = A[j][i] = 1
    return A


def pick(rs, N, m):
    return range(N) if m >= N else sorted(rs.choice(N, size=m, replace=False).tolist())


def gen_jobs(rs, tier):
    th = tier == 'thorough'
    jobs = []
    jobs.append({'A': [], 'fam': 'n=0', 'dist': False})      # bct returns two empty arrays / 0; the model mirrors it
    for n in range(1, 7):
        N = 1 << (n * (n - 1) // 2)
        for code in pick(rs, N, N if (th or n <= 5) else 10000):
            A = und_from_bits(n, code)
            jobs.append({'A': A, 'fam': 'all-n%d' % n, 'dist': n <= 5 or code % 4 == 0})
            if n >= 3 and code % (3 if th else 5) == 0:
                B, sc = decorate(rs, A, ['w', 'd', 'wd'][code % 3])
                jobs.append({'A': B, 'scale': sc, 'fam': 'decorated-n%d' % n, 'dist': False})
    for _ in range(3000 if th else 300):
        n = int(rs.randint(7, 15))
        fam = ['forest', 'late-merge', 'sparse', 'isolated'][rs.randint(4)]
        if fam == 'forest':
            A = forest(rs, n, int(rs.randint(1, 5)))
        elif fam == 'late-merge':
            A = late_merge(rs, n)
        elif fam == 'sparse':
            A = rand_sparse(rs, n, rs.choice([1.0 / n, 1.5 / n, 2.5 / n]))
        else:
            A = rand_sparse(rs, n, 2.0 / n)
            for v in rs.choice(n, size=int(rs.randint(1, 4)), replace=False):
                for w in range(n):
                    A[v][w] = A[w][v] = 0
        sc = 1
        if rs.rand() < .4:
            A, sc = decorate(rs, A, ['w', 'd', 'wd'][rs.randint(3)])
        jobs.append({'A': A, 'scale': sc, 'fam': fam, 'dist': True})
    # malformed stream: asymmetric input (a one-directional edge, or unequal weights) must raise BCTParamError
    for _ in range(400 if th else 80):
        n = int(rs.randint(2, 9))
        A = rand_sparse(rs, n, rs.choice([.2, .5]))
        i, j = [int(x) for x in rs.choice(n, size=2, replace=False)]
        kind = rs.randint(6)
        if kind == 0:
            A[i][j] = 1; A[j][i] = 0
        elif kind == 1:
            A[i][j] = 2; A[j][i] = 1
        elif kind == 2:
            A[i][j] = 1; A[j][i] = -1
        elif kind == 3:
            # asymmetry far below any float tolerance: a one-sided edge of tiny weight is still a directed edge
            A[i][j] = float(rs.choice([2.0 ** -30, 2.0 ** -40, 2.0 ** -27])); A[j][i] = 0
        elif kind == 4:
            A[i][j] = 1.0; A[j][i] = 1.0 + float(rs.choice([2.0 ** -20, 2.0 ** -30, 2.0 ** -40]))
        else:
            A[i][j] = 0; A[j][i] = float(rs.choice([2.0 ** -34, 2.0 ** -28]))
        jobs.append({'A': A, 'fam': 'asymmetric', 'dist': False, 'scale': 2 ** 40 if kind >= 3 else 1})
    # --- special-value weights: "connection" = non-zero entry (inf, -inf, 1e-8, 9e-9, 1e-300, denormals, huge, negative; -0.0 is no edge)
    SPECIAL = ['inf', '-inf', '1e-08', '9e-09', '-1e-09', '1e-300', '5e-324', '-5e-324', '1e+308', '-3.0', '2.5', '1e-07']
    for q in range(1500 if th else 260):
        n = int(rs.randint(4, 13)) if q % 9 else int(rs.choice([20, 30, 41]))
        shape = q % 4
        if shape == 0:
            A = forest(rs, n, int(rs.randint(1, 4)))                 # every edge is a bridge
        elif shape == 1:                                             # two cliques joined by a single bridge
            h = n // 2
            A = [[int(i != j and ((i < h) == (j < h))) for j in range(n)] for i in range(n)]
            a, b = int(rs.randint(0, h)), int(rs.randint(h, n)); A[a][b] = A[b][a] = 1
            if rs.rand() < .5:
                A = perm_graph(rs, A)
        elif shape == 2:
            A = late_merge(rs, n)
        else:
            A = rand_sparse(rs, n, 1.6 / n)
        B = [['0.0'] * n for _ in range(n)]
        bridge_special = rs.rand() < .8
        for i in range(n):
            for j in range(i + 1, n):
                if A[i][j]:
                    w = SPECIAL[int(rs.randint(len(SPECIAL)))] if (bridge_special and rs.rand() < (.9 if shape in (0, 1) else .5)) else '1.0'
                    B[i][j] = B[j][i] = w
                elif rs.rand() < .15:
                    B[i][j] = B[j][i] = '-0.0'                      # minus zero is still "no connection"
        if rs.rand() < .3:
            for i in range(n):
                if rs.rand() < .4:
                    B[i][i] = SPECIAL[int(rs.randint(len(SPECIAL)))]
        jobs.append({'A': B, 'fam': 'special-weights', 'encode': 'rank', 'dist': n <= 12})
    for q in range(120 if th else 30):                               # malformed: asymmetric only through a special value
        n = int(rs.randint(2, 8))
        A = rand_sparse(rs, n, .4)
        B = [[repr(float(x)) for x in r] for r in A]
        i, j = [int(x) for x in rs.choice(n, size=2, replace=False)]
        B[i][j], B[j][i] = [('inf', '-inf'), ('1e-300', '0.0'), ('5e-324', '-0.0'), ('inf', '1e+308'), ('1e-08', '9e-09'), ('-1e-09', '0.0')][q % 6]
        jobs.append({'A': B, 'fam': 'asymmetric-special', 'encode': 'rank', 'dist': False})
    # --- size axis (also in quick): n just above powers of two, chains longer than 2^floor(log2 n), degree >= 256
    def chain_graph(n, L, order):
        A = [[0] * n for _ in range(n)]
        for t in range(L - 1):
            A[order[t]][order[t + 1]] = A[order[t + 1]][order[t]] = 1
        return A
    sizes = [33, 34, 40, 65, 66, 100, 129, 130, 257] if th else [33, 34, 40, 65, 66, 100, 129, 130, 257]
    for n in sizes:
        threads = [('identity', list(range(n))), ('reversed', list(range(n - 1, -1, -1))),
                   ('low-node-in-the-middle', list(range(n // 2, n)) [::-1] + list(range(n // 2))[::-1][::-1]),
                   ('shuffled', [int(x) for x in rs.permutation(n)])]
        for name, order in threads[:(4 if n <= 130 else 2)]:
            L = n if name != 'shuffled' else n - int(rs.randint(0, 4))
            A = chain_graph(n, L, order)
            jobs.append({'A': A, 'fam': 'size:chain', 'dist': n <= 100})
        if n <= 130:
            A = chain_graph(n, n - 4, [int(x) for x in rs.permutation(n)])          # a long chain plus a short one and isolated nodes
            o = [v for v in range(n) if not any(A[v])]
            if len(o) >= 3:
                A[o[0]][o[1]] = A[o[1]][o[0]] = 1
            jobs.append({'A': A, 'fam': 'size:chain', 'dist': n <= 100})
            A = rand_sparse(rs, n, 1.2 / n)
            jobs.append({'A': A, 'fam': 'size:sparse', 'dist': n <= 100})
    A = [[int(i != j) for j in range(257)] for i in range(257)]                      # K257 minus a few edges: degrees 254..256
    for _ in range(3):
        i, j = [int(x) for x in rs.choice(256, size=2, replace=False)]
        A[i][j] = A[j][i] = 0
    jobs.append({'A': A, 'fam': 'size:dense-degree-256', 'dist': False, 'nolean': True})
    A = [[int(i != j and ((i < 130) == (j < 130))) for j in range(150)] for i in range(150)]   # two cliques (130 + 20), 2 components
    jobs.append({'A': A, 'fam': 'size:dense', 'dist': False})
    # representation axis: a fraction of all cases again with the same values in another storage (dtype / layout)
    extra = []
    for q, j in enumerate(jobs):
        if rs.rand() > (.3 if th else .12) or j.get('encode') or len(j['A']) > 130:
            continue
        ok_reps = [r_ for r_ in REPS if rep_ok(j['A'], r_)]
        e = dict(j); e['rep'] = ok_reps[int(rs.randint(len(ok_reps)))]; e['fam'] = 'rep:' + e['rep']
        if e['rep'] in ('bool', 'uint8', 'int32', 'int64', 'float32') and len(j['A']) <= 8:
            e['dist'] = True                      # the three distance routines on the same storage
        extra.append(e)
    jobs += extra
    jobs += gen_probes(rs, 800 if th else 120)
    return jobs



def run_driver_par(main, lines, k=8):
    """common.run_driver on k interleaved chunks in parallel (the driver is single-threaded; large-n lines dominate)"""
    from concurrent.futures import ThreadPoolExecutor
    if len(lines) < 4 * k:
        return run_driver(main, lines)
    chunks = [lines[i::k] for i in range(k)]
    with ThreadPoolExecutor(k) as ex:
        outs = list(ex.map(lambda c: run_driver(main, c), chunks))
    res = [None] * len(lines)
    for i, o in enumerate(outs):
        res[i::k] = o
    return res


def main():
    ck = Check(PID)
    ck.cov['rule'] = ('jobs = one matrix: every undirected graph n<=6 (thorough; n=6 sliced in quick) — every labelling of every graph, hence '
                      'every row-major scan order —, a third of them also weighted (integers incl. negative, dyadic k/4 sent to the model as 4A) '
                      'and/or with nonzero diagonal; random forests, late-merge graphs, sparse graphs and graphs with isolated nodes n=7..14; '
                      'asymmetric matrices as malformed stream; non-trivial = distinct matrix with >= 2 components of which one has >= 2 nodes')
    ck.assumptions += ['symmetric input (asymmetric input only has to be rejected)',
                       'agreement with distance_bin / breadthdist / reachdist is judged on the binarised network with empty diagonal (their documented domain), off-diagonal pairs only']
    # T-gen: re-extract the core update steps from /repo's current source (translate/cores.py); the generated
    # obligations say the extracted IR is the reference program whose interpreter is proved equal to the model
    ck.cov['cores'] = cores.generate(families=['comp', 'bin', 'bfs', 'reach'])
    for p_ in ck.cov['cores']['problems']:
        ck.corr_break('core extractor (translate/cores.py)', p_)
    ok = ck.lean_gate(['BctVerif.Props.C16'], extra_modules=['BctVerif.Model.Comp'])
    ck.lean_gate([], gen_modules=['BctVerif.Gen.CoresComp', 'BctVerif.Gen.CoresBin', 'BctVerif.Gen.CoresBfs', 'BctVerif.Gen.CoresReach'])
    if ck.tier == 'thorough' and ok:
        ck.leanchecker(['BctVerif.Props.C16', 'BctVerif.Model.Comp'])
    if ck.replay:
        jobs = [json.load(open(ck.replay))['case']['case']]
    else:
        jobs = gen_jobs(ck.rs, ck.tier)
        # history across calls: never group by family or size — every worker sees sizes, families and probes interleaved
        jobs = [jobs[i] for i in ck.rs.permutation(len(jobs))]
    results = pmap(run_job, jobs)
    lines, exps, funcs = [], [], []
    ntimeouts = 0
    for job, r in zip(jobs, results):
        ck.count('family:' + job.get('fam', '?')); ck.count('n=%d' % r['n'])
        for s, c in r['status'].items():
            ck.count('status:' + s, c)
        ck.merge_counts(evaluations=r['evals'], keys=[r['nontrivial']] if r['nontrivial'] else [], dist=r['dist'],
                        samples=[{'A': job['A']}] if r['nontrivial'] and 5 <= r['n'] <= 14 and not job.get('encode') else [])
        for func, pred, detail, cond in r['viol']:
            ck.violation(func, pred, detail, cond)
        for t in r['timeouts']:
            ntimeouts += 1
            ck.count('timeouts')
            if ntimeouts <= 3:   # the Comp model and the three Dist models (C03: distBin_total, breadthdist_total) always return
                ck.corr_break('bct.%s timed out twice (3 s, then 30 s) although its Lean model terminates' % t, {'job': job})
        for ln, ex, fn in r['lines']:
            lines.append(ln); exps.append(ex); funcs.append(fn)
    if ok:
        try:
            outs = run_driver_par('Comp', lines)
            nd = 0
            for ln, o, ex, fn in zip(lines, outs, exps, funcs):
                if o != ex:
                    nd += 1
                    if nd <= 5:
                        ck.corr_break('Comp model vs bct.' + fn, {'line': ln, 'model': o[:400], 'impl': ex[:400]})
            ck.cov['traces_validated_against_impl'] = len(outs) - nd
            ck.count('correspondence_cases', len(outs)); ck.count('correspondence_disagreements', nd)
        except DriverError as e:
            ck.corr_break('Comp driver', str(e))
    ck.finish()


if __name__ == '__main__':
    main()
