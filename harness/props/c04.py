"""C04 — graph measures are equivariant under renumbering of the nodes.

Search (backbone): for every deterministic measure f named in the property and permutations p,
    f(A[ix_(p,p)])  vs  f(A)[p]  /  f(A)[ix_(p,p)]  /  f(A)      (vectors / matrices / scalars, distributions)
on the real bct; exact where the outputs are exact, 1e-9 otherwise.
Proof: lean/BctVerif/Props/C04.lean (equivariance of the executable model `Model/Measures.lean`, all n, all σ).
Correspondence: the model driver `Main/Measures.lean` against the real functions on the same matrices.
"""
import sys, math
from fractions import Fraction
from common import *  # noqa
sys.path.insert(0, os.path.join(VERIF, 'translate')); import cores  # noqa: E402

PID = 'C04'
TOL = 1e-9
MAX_TIMEOUT_FRAC = 0.01   # per measure variant
ABORT_AFTER_TIMEOUTS = 2    # per work item: calls that exceeded t and, re-tried, 10 t

# --------------------------------------------------------------------------- graph classes
# class of a graph: b/w/s (binary, positive integer weights, signed integer weights) x u/d
ACCEPT = {'bu': {'bu'}, 'bd': {'bu', 'bd'}, 'wu': {'bu', 'wu'}, 'wd': {'bu', 'bd', 'wu', 'wd'},
          'su': {'bu', 'wu', 'su'}, 'sd': {'bu', 'bd', 'wu', 'wd', 'su', 'sd'}}


def connected_und(A):
    n = len(A)
    if n == 0:
        return False
    B = (A != 0) | (A != 0).T
    seen = {0}; st = [0]
    while st:
        u = st.pop()
        for v in np.nonzero(B[u])[0]:
            if v not in seen:
                seen.add(int(v)); st.append(int(v))
    return len(seen) == n


def has_edge(A):
    return bool(np.any(A != 0))


def isolated_edge(A):
    """some connection i->j whose endpoints have no other neighbour (in or out): edge_nei_overlap_* then divides the Python
    ints 0 / 0 (`len(intersect1d) / len(union1d)`) -> ZeroDivisionError.  Renumbering-invariant."""
    B = (A != 0) | (A != 0).T
    n = len(A)
    for i, j in zip(*np.nonzero(A)):
        others = [k for k in range(n) if k != i and k != j and (B[i, k] or B[j, k])]
        if not others:
            return True
    return False


def length_absorbed(A):
    """some connection length is lost when added to another one (a + b == b for positive a < b, e.g. 1e-300 next to 1): the
    Dijkstra loops of the weighted betweenness routines then see zero-length steps"""
    v = np.unique(A[A > 0])
    return bool(len(v) > 1 and v[-1] + v[0] == v[-1])


def top_simple(A):
    """is the largest eigenvalue of the symmetric matrix A simple?"""
    if len(A) < 2:
        return True
    w = np.linalg.eigvalsh((A + A.T) / 2.0)
    return bool(w[-1] - w[-2] > 1e-9 * max(1.0, abs(w[-1])))


# --------------------------------------------------------------------------- measures
# (quick, thorough) size caps; everything not listed is whole-matrix algebra and runs up to the 257..300 case
_MED = (129, 129)
SIZE_CAPS = {'clustering_coef_wu_sign:zhang': (40, 65), 'clustering_coef_wu_sign:costantini': (40, 65),
             'efficiency_wei:local': (34, 65), 'efficiency_wei:original': (34, 65),
             'distance_wei': _MED, 'distance_wei_floyd': _MED, 'breadthdist': _MED, 'charpath:of distance_wei, finite only': _MED,
             'efficiency_wei:global': _MED, 'efficiency_bin:local': _MED, 'betweenness_wei': _MED, 'edge_betweenness_bin': _MED,
             'edge_betweenness_wei': _MED, 'flow_coef_bd': _MED, 'kcoreness_centrality_bu': _MED, 'kcoreness_centrality_bd': _MED,
             'matching_ind': _MED, 'matching_ind_und': _MED, 'gtom:nr_steps=3': _MED, 'gtom:nr_steps=4': _MED,
             'edge_nei_overlap_bu': _MED, 'edge_nei_overlap_bd': _MED, 'get_components': _MED}
SIZES = (12, 16, 17, 24, 32, 33, 34, 40, 64, 65, 100, 129)
STRUCTURES = ('chain', 'dense', 'disconnected', 'modules', 'node0-unreachable')


class M:
    """fn(bct, A, ci) -> tuple of outputs; outs = ((label, kind, exact), ...)
    kind: v per-node vector | m per-pair matrix | s scalar | d distribution/array that must be unchanged |
          ms multiset of rows | part partition given as label vector |
          x / xp excluded matrix / matrix of node indices (tie-dependent by definition, counted only)"""

    def __init__(self, name, dom, fn, outs, variant='', need=None, cond=None, t=2.0, uses_ci=False, cond_fn=None, legit_raise=None,
                 cond_pair=None):
        self.name, self.dom, self.fn, self.outs, self.variant, self.need, self.t = name, dom, fn, outs, variant, need, t
        self.cond_pair = cond_pair  # (A, p, f(A), f(A[p,p])) -> extra keys of an equivariance violation's cond
        self.cond_fn = cond_fn      # graph -> extra keys of a violation's cond (matched against known findings)
        # (exception kind, predicate on the graph): the only in-domain exception that follows from the routine's own code;
        # any other exception on an in-domain input is a violation, whether or not both numberings raise it
        self.legit_raise = legit_raise
        # largest n of the size family in the (quick, thorough) tier: python-level O(n^3) loops are capped lower
        self.nmax = SIZE_CAPS.get(self.name + (':' + variant if variant else ''), SIZE_CAPS.get(name, (300, 300)))
        self.uses_ci = uses_ci      # the measure reads the per-node input ci (else results are cached per labelled graph)
        self.cond = cond or {}
        self.key = name + (':' + variant if variant else '')


V, MM, S, D, MS = 'v', 'm', 's', 'd', 'ms'
EX, AP = True, False


def build_measures():
    L = []

    def add(*a, **k):
        L.append(M(*a, **k))

    # ---- degree.py
    add('degrees_und', 'wu', lambda b, A, ci: (b.degrees_und(A),), (('deg', V, EX),))
    add('degrees_dir', 'wd', lambda b, A, ci: b.degrees_dir(A), (('id', V, EX), ('od', V, EX), ('deg', V, EX)))
    add('strengths_und', 'wu', lambda b, A, ci: (b.strengths_und(A),), (('str', V, EX),))
    add('strengths_dir', 'wd', lambda b, A, ci: (b.strengths_dir(A),), (('str', V, EX),))
    add('strengths_und_sign', 'su', lambda b, A, ci: b.strengths_und_sign(A),
        (('Spos', V, EX), ('Sneg', V, EX), ('vpos', S, EX), ('vneg', S, EX)))
    # ---- physical_connectivity.py
    # `k / (n*n - n)` on Python numbers: the 1-node graph divides by zero
    add('density_und', 'wu', lambda b, A, ci: b.density_und(A), (('kden', S, EX), ('n', S, EX), ('k', S, EX)),
        legit_raise=('ZeroDivisionError', lambda A: len(A) <= 1))
    add('density_dir', 'wd', lambda b, A, ci: b.density_dir(A), (('kden', S, EX), ('n', S, EX), ('k', S, EX)),
        legit_raise=('ZeroDivisionError', lambda A: len(A) <= 1))
    # ---- clustering.py
    add('clustering_coef_bu', 'bu', lambda b, A, ci: (b.clustering_coef_bu(A),), (('C', V, EX),))
    add('clustering_coef_bd', 'bd', lambda b, A, ci: (b.clustering_coef_bd(A),), (('C', V, EX),))
    add('clustering_coef_wu', 'wu', lambda b, A, ci: (b.clustering_coef_wu(A),), (('C', V, AP),))
    add('clustering_coef_wd', 'wd', lambda b, A, ci: (b.clustering_coef_wd(A),), (('C', V, AP),))
    for ct in ('default', 'zhang', 'costantini'):
        if ct == 'costantini':
            add('clustering_coef_wu_sign', 'su', lambda b, A, ci, ct=ct: (b.clustering_coef_wu_sign(A, ct),), (('C', V, AP),), variant=ct)
        else:
            add('clustering_coef_wu_sign', 'su', lambda b, A, ci, ct=ct: b.clustering_coef_wu_sign(A, ct),
                (('Cpos', V, AP), ('Cneg', V, AP)), variant=ct)
    add('transitivity_bu', 'bu', lambda b, A, ci: (b.transitivity_bu(A),), (('T', S, EX),))
    add('transitivity_bd', 'bd', lambda b, A, ci: (b.transitivity_bd(A),), (('T', S, EX),))
    add('transitivity_wu', 'wu', lambda b, A, ci: (b.transitivity_wu(A),), (('T', S, AP),))
    add('transitivity_wd', 'wd', lambda b, A, ci: (b.transitivity_wd(A),), (('T', S, AP),))
    add('get_components', 'wu', lambda b, A, ci: b.get_components(A), (('comps', 'part', EX), ('sizes', MS, EX)))
    add('get_components', 'wu', lambda b, A, ci: b.get_components(A, no_depend=True), (('comps', 'part', EX), ('sizes', MS, EX)), variant='no_depend=True')
    # ---- distance.py
    add('distance_bin', 'wd', lambda b, A, ci: (b.distance_bin(A),), (('D', MM, EX),))
    add('distance_wei', 'wd', lambda b, A, ci: b.distance_wei(A), (('D', MM, EX), ('B', 'x', EX)))
    add('distance_wei_floyd', 'wd', lambda b, A, ci: b.distance_wei_floyd(A), (('SPL', MM, EX), ('hops', 'x', EX), ('Pmat', 'xp', EX)))
    add('distance_wei_floyd', 'wd', lambda b, A, ci: b.distance_wei_floyd(A, transform='inv'),
        (('SPL', MM, AP), ('hops', 'x', EX), ('Pmat', 'xp', EX)), variant='inv',
        cond_fn=lambda A: {'inv_of_negative_zero': bool(np.signbit(A[A == 0]).any())})
    add('distance_wei_floyd', 'wd', lambda b, A, ci: b.distance_wei_floyd(A / 16.0, transform='log'),
        (('SPL', MM, AP), ('hops', 'x', EX), ('Pmat', 'xp', EX)), variant='log')
    add('breadthdist', 'wd', lambda b, A, ci: b.breadthdist(A), (('R', MM, EX), ('D', MM, EX)))
    add('reachdist', 'wd', lambda b, A, ci: b.reachdist(A.copy()), (('R', MM, EX), ('D', MM, EX)))
    add('charpath', 'wd', lambda b, A, ci: b.charpath(b.distance_bin(A)),
        (('lambda', S, EX), ('efficiency', S, AP), ('ecc', V, EX), ('radius', S, EX), ('diameter', S, EX)), variant='of distance_bin')
    add('charpath', 'wd', lambda b, A, ci: b.charpath(b.distance_wei(A)[0], include_diagonal=False, include_infinite=False),
        (('lambda', S, AP), ('efficiency', S, AP), ('ecc', V, EX), ('radius', S, EX), ('diameter', S, EX)), variant='of distance_wei, finite only',
        need=lambda A: has_edge(A))
    for inc_d, inc_i in ((True, True), (True, False)):
        add('charpath', 'wd', lambda b, A, ci, inc_d=inc_d, inc_i=inc_i: b.charpath(b.distance_bin(A), include_diagonal=inc_d, include_infinite=inc_i),
            (('lambda', S, AP), ('efficiency', S, AP), ('ecc', V, EX), ('radius', S, EX), ('diameter', S, EX)),
            variant='of distance_bin, include_diagonal=%s include_infinite=%s' % (inc_d, inc_i), need=has_edge)
    add('reachdist', 'bd', lambda b, A, ci: b.reachdist(A.copy(), ensure_binary=False), (('R', MM, EX), ('D', MM, EX)), variant='ensure_binary=False')
    # ---- efficiency.py
    add('efficiency_bin', 'wd', lambda b, A, ci: (b.efficiency_bin(A.copy()),), (('E', S, AP),), variant='global')
    add('efficiency_bin', 'wd', lambda b, A, ci: (b.efficiency_bin(A.copy(), local=True),), (('Eloc', V, AP),), variant='local')
    add('efficiency_wei', 'wd', lambda b, A, ci: (b.efficiency_wei(A),), (('E', S, AP),), variant='global')
    add('efficiency_wei', 'wd', lambda b, A, ci: (b.efficiency_wei(A, local=True),), (('Eloc', V, AP),), variant='local')
    add('efficiency_wei', 'wd', lambda b, A, ci: (b.efficiency_wei(A, local='original'),), (('Eloc', V, AP),), variant='original')
    # ---- centrality.py
    add('betweenness_bin', 'bd', lambda b, A, ci: (b.betweenness_bin(A),), (('BC', V, AP),))
    add('betweenness_wei', 'wd', lambda b, A, ci: (b.betweenness_wei(A),), (('BC', V, AP),),
        cond_fn=lambda A: {'length_absorbed': length_absorbed(A)})
    add('edge_betweenness_bin', 'bd', lambda b, A, ci: b.edge_betweenness_bin(A), (('EBC', MM, AP), ('BC', V, AP)))
    add('edge_betweenness_wei', 'wd', lambda b, A, ci: b.edge_betweenness_wei(A), (('EBC', MM, AP), ('BC', V, AP)),
        cond_fn=lambda A: {'length_absorbed': length_absorbed(A)})
    add('pagerank_centrality', 'wd', lambda b, A, ci: (b.pagerank_centrality(A, 0.85),), (('r', V, AP),), variant='uniform')
    add('pagerank_centrality', 'wd', lambda b, A, ci: (b.pagerank_centrality(A, 0.5, falff=np.asarray(ci, float) + 1.0),), (('r', V, AP),), variant='falff', uses_ci=True)
    # documented domain: any undirected matrix; "the eigenvector of the largest eigenvalue" is unique only when that eigenvalue is simple
    add('eigenvector_centrality_und', 'wu', lambda b, A, ci: (b.eigenvector_centrality_und(A),), (('v', V, AP),),
        need=lambda A: len(A) >= 2, cond_fn=lambda A: {'top_eigenvalue_simple': top_simple(A)})
    add('subgraph_centrality', 'bu', lambda b, A, ci: (b.subgraph_centrality(A),), (('Cs', V, AP),))
    add('flow_coef_bd', 'bd', lambda b, A, ci: b.flow_coef_bd(A), (('fc', V, EX), ('FC', S, AP), ('total_flo', V, EX)))
    add('participation_coef', 'wd', lambda b, A, ci: (b.participation_coef(A, ci),), (('P', V, AP),), variant='undirected/out', uses_ci=True)
    add('participation_coef', 'wd', lambda b, A, ci: (b.participation_coef(A, ci, degree='in'),), (('P', V, AP),), variant='in', uses_ci=True)
    add('participation_coef_sign', 'su', lambda b, A, ci: b.participation_coef_sign(A, ci), (('Ppos', V, AP), ('Pneg', V, AP)), uses_ci=True)
    for fl in (0, 1, 2, 3):
        add('module_degree_zscore', 'wd', lambda b, A, ci, fl=fl: (b.module_degree_zscore(A, ci, fl),), (('Z', V, AP),), variant='flag=%d' % fl, uses_ci=True)
    add('kcoreness_centrality_bu', 'bu', lambda b, A, ci: b.kcoreness_centrality_bu(A), (('coreness', V, EX), ('kn', D, EX)))
    add('kcoreness_centrality_bd', 'bd', lambda b, A, ci: b.kcoreness_centrality_bd(A), (('coreness', V, EX), ('kn', D, EX)))
    # ---- core.py
    for k in (1, 2, 3):
        add('kcore_bu', 'bu', lambda b, A, ci, k=k: b.kcore_bu(A, k), (('core', MM, EX), ('kn', S, EX)), variant='k=%d' % k)
        add('kcore_bd', 'bd', lambda b, A, ci, k=k + 1: b.kcore_bd(A, k), (('core', MM, EX), ('kn', S, EX)), variant='k=%d' % (k + 1))
    # peel=True: peelorder as "round in which the node was peeled" (0 = never), peellevel flattened (one entry per peeled node)
    add('kcore_bu', 'bu', lambda b, A, ci: _peel(b.kcore_bu(A, 2, peel=True), len(A)),
        (('core', MM, EX), ('kn', S, EX), ('peel round of each node', V, EX), ('peellevel', D, EX)), variant='k=2 peel=True')
    add('kcore_bd', 'bd', lambda b, A, ci: _peel(b.kcore_bd(A, 3, peel=True), len(A)),
        (('core', MM, EX), ('kn', S, EX), ('peel round of each node', V, EX), ('peellevel', D, EX)), variant='k=3 peel=True')
    for s in (2, 4, 7):
        add('score_wu', 'wu', lambda b, A, ci, s=s: b.score_wu(A, s), (('score', MM, EX), ('sn', S, EX)), variant='s=%d' % s)
    add('rich_club_bu', 'bu', lambda b, A, ci: b.rich_club_bu(A), (('R', D, EX), ('Nk', D, EX), ('Ek', D, EX)), need=has_edge)
    add('rich_club_bd', 'bd', lambda b, A, ci: b.rich_club_bd(A), (('R', D, EX), ('Nk', D, EX), ('Ek', D, EX)), need=has_edge)
    add('rich_club_bu', 'bu', lambda b, A, ci: b.rich_club_bu(A, klevel=2), (('R', D, EX), ('Nk', D, EX), ('Ek', D, EX)), variant='klevel=2', need=has_edge)
    add('rich_club_bd', 'bd', lambda b, A, ci: b.rich_club_bd(A, klevel=3), (('R', D, EX), ('Nk', D, EX), ('Ek', D, EX)), variant='klevel=3', need=has_edge)
    add('rich_club_wu', 'wu', lambda b, A, ci: (b.rich_club_wu(A, klevel=2),), (('Rw', D, EX),), variant='klevel=2', need=has_edge)
    add('rich_club_wu', 'wu', lambda b, A, ci: (b.rich_club_wu(A),), (('Rw', D, EX),), need=has_edge)
    add('rich_club_wd', 'wd', lambda b, A, ci: (b.rich_club_wd(A),), (('Rw', D, EX),), need=has_edge)
    add('assortativity_bin', 'bu', lambda b, A, ci: (b.assortativity_bin(A, 0),), (('r', S, AP),), variant='flag=0', need=has_edge)
    for fl in (1, 2, 3, 4):
        add('assortativity_bin', 'bd', lambda b, A, ci, fl=fl: (b.assortativity_bin(A, fl),), (('r', S, AP),), variant='flag=%d' % fl, need=has_edge)
    add('assortativity_wei', 'wu', lambda b, A, ci: (b.assortativity_wei(A, 0),), (('r', S, AP),), variant='flag=0', need=has_edge)
    # ---- similarity.py
    add('matching_ind', 'bd', lambda b, A, ci: b.matching_ind(A), (('Min', MM, EX), ('Mout', MM, EX), ('Mall', MM, EX)))
    add('matching_ind_und', 'bu', lambda b, A, ci: (b.matching_ind_und(A),), (('M0', MM, EX),))
    for ns in (0, 1, 2, 3, 4):
        add('gtom', 'bu', lambda b, A, ci, ns=ns: (b.gtom(A, ns),), (('gt', MM, EX),), variant='nr_steps=%d' % ns,
            cond={'nr_steps': ns, 'nr_steps_ge_3': ns >= 3}, cond_pair=gtom_pair_cond(ns) if ns >= 3 else None)
    add('edge_nei_overlap_bu', 'bu', lambda b, A, ci: _eno(b.edge_nei_overlap_bu(A)), (('EC', MM, EX), ('ec,degij', MS, EX)),
        legit_raise=('ZeroDivisionError', isolated_edge))
    add('edge_nei_overlap_bd', 'bd', lambda b, A, ci: _eno(b.edge_nei_overlap_bd(A)), (('EC', MM, EX), ('ec,degij', MS, EX)),
        legit_raise=('ZeroDivisionError', isolated_edge))
    return L


def gtom_ascoded(A, nr_steps):
    """gtom exactly as coded (binarise; `range(2, nr_steps)` rounds of the IN-PLACE neighbourhood expansion, node by node in index
    order; numerator / denominator formula) in plain Python on exact fractions - the algorithm of the Lean model `Measures.gtom`"""
    n = len(A)
    bm = [[1 if A[i][j] != 0 else 0 for j in range(n)] for i in range(n)]
    if nr_steps == 0:
        return [[Fraction(x) for x in row] for row in bm]
    B = [row[:] for row in bm]
    for _ in range(2, nr_steps):
        for i in range(n):
            ng = [c for c in range(n) if B[i][c] == 1]
            new = sorted({c for r in ng for c in range(n) if B[r][c] == 1} - {i})
            for c in new:
                B[i][c] = 1
                B[c][i] = 1
    k = [sum(B[r][c] for r in range(n)) for c in range(n)]
    out = []
    for i in range(n):
        row = []
        for j in range(n):
            num = sum(B[i][t] * B[t][j] for t in range(n)) + bm[i][j] + (1 if i == j else 0)
            den = -bm[i][j] + max(k[i], k[j]) + 1
            row.append(Fraction(num, den) if den != 0 else None)
        out.append(row)
    return out


def gtom_pair_cond(ns):
    def f(A, p, base, permd):
        """is bct's output on both numberings exactly what the as-coded in-place algorithm gives? (then a failure of
        equivariance is the known order dependence and nothing else)"""
        try:
            ok = True
            for M_, out in ((A, base), (A[np.ix_(p, p)], permd)):
                if out[0] != 'ok':
                    return {'ascoded_model_agrees': False}
                ref = gtom_ascoded(M_.tolist(), ns)
                got = np.asarray(out[1][0], float)
                for i in range(len(M_)):
                    for j in range(len(M_)):
                        r = ref[i][j]
                        ok = ok and r is not None and float(r) == got[i, j]
            return {'ascoded_model_agrees': bool(ok)}
        except Exception:
            return {'ascoded_model_agrees': False}
    return f


def _peel(r, n):
    core, kn, order, level = r
    rnd = np.zeros(n)
    for t, ff in enumerate(order):
        rnd[np.asarray(ff, int)] = t + 1
    lev = np.concatenate([np.asarray(x, float).ravel() for x in level]) if len(level) else np.zeros(0)
    return core, kn, rnd, lev


def _eno(r):
    EC, ec, degij = r
    return EC, np.column_stack([np.asarray(ec, float), np.asarray(degij, float).T]) if len(ec) else np.zeros((0, 3))


MEASURES = build_measures()
MIDX = {m.key: i for i, m in enumerate(MEASURES)}

# --------------------------------------------------------------------------- comparison


def same(x, y, exact, tol=TOL):
    try:
        x = np.asarray(x, dtype=float); y = np.asarray(y, dtype=float)
    except Exception:
        return False
    if x.shape != y.shape:
        return False
    if x.size == 0:
        return True
    nx, ny = np.isnan(x), np.isnan(y)
    if (nx != ny).any():
        return False
    ix, iy = np.isinf(x), np.isinf(y)
    if (ix != iy).any() or (x[ix] != y[ix]).any():
        return False
    f = ~(nx | ix)
    if exact:
        return bool((x[f] == y[f]).all())
    return bool((np.abs(x[f] - y[f]) <= tol * np.maximum(1.0, np.abs(y[f]))).all())


def canon_rows(x):
    x = np.asarray(x, dtype=float)
    if x.ndim == 1:
        x = x.reshape(-1, 1)
    return sorted(tuple(r) for r in x.tolist())


def part_of(lab):
    lab = np.asarray(lab).ravel().tolist()
    blocks = {}
    for i, l in enumerate(lab):
        blocks.setdefault(l, []).append(i)
    return blocks


def compare(kind, exact, base, perm_out, p, tol=TOL):
    """does perm_out (= f(A[p,p])) equal the renumbered base (= f(A)) ?  p[i] = old index of new node i"""
    if kind == V:
        b = np.asarray(base)
        if b.ndim != 1 or len(b) != len(p):
            return False
        return same(perm_out, b[p], exact, tol)
    if kind == MM:
        b = np.asarray(base)
        if b.ndim != 2 or b.shape != (len(p), len(p)):
            return False
        return same(perm_out, b[np.ix_(p, p)], exact, tol)
    if kind in (S, D):
        return same(perm_out, base, exact, tol)
    if kind == MS:
        a, b = canon_rows(perm_out), canon_rows(base)
        return len(a) == len(b) and same(np.array(a), np.array(b), exact, tol)
    if kind == 'part':
        # nodes i,j of the renumbered graph share a block iff p[i], p[j] do in the original
        pb = sorted(sorted(p[i] for i in blk) for blk in part_of(perm_out).values())
        bb = sorted(sorted(blk) for blk in part_of(base).values())
        return len(np.asarray(perm_out).ravel()) == len(p) and pb == [[int(t) for t in blk] for blk in bb]
    raise ValueError(kind)


# --------------------------------------------------------------------------- evaluation in workers
_bct = None


def bct_mod():
    global _bct
    if _bct is None:
        _bct = import_bct()
    return _bct


def graph_class(A):
    und = bool((A == A.T).all())
    if ((A == 0) | (A == 1)).all():
        w = 'b'
    elif (A >= 0).all():
        w = 'w'
    else:
        w = 's'
    return w + ('u' if und else 'd')


def ci_of(A):
    """community labels attached to the nodes (an input that is renumbered together with the graph); non-contiguous on purpose"""
    n = len(A)
    if n >= 34:         # more than 32 modules (33 for n = 34, 37 from n = 38 on), labels not contiguous
        k = min(37, n - 1)
        return np.array([((5 * i + 2) % k) * 3 + 1 for i in range(n)])
    return np.array([(3 * i + 1) % 4 * 2 + 3 for i in range(n)]) if n > 2 else np.array([5, 3][:n])


REPS = ('F-order', 'strided-view', 'int64', 'bool', 'float32')
# SciPy's LAPACK wrappers compute in single precision for float32 *and* bool input: inexact outputs are then compared to 1e-4
SINGLE_PRECISION_REPS = ('float32', 'bool')


def rep_ok(rep, A):
    """can the matrix be presented in this representation without changing a value?"""
    if rep in ('F-order', 'strided-view'):
        return True
    if rep == 'int64':
        return bool((A == np.round(A)).all())
    if rep == 'bool':
        return bool(((A == 0) | (A == 1)).all())
    if rep == 'float32':
        return bool((A.astype(np.float32).astype(np.float64) == A).all())
    return False


def rep_apply(rep, A):
    """the same matrix in another memory layout / dtype (None: float64, C order)"""
    if rep is None:
        return A.copy()
    if rep == 'F-order':
        return np.asfortranarray(A)
    if rep == 'strided-view':            # every second row/column of a larger buffer: not contiguous, does not own its data
        n = len(A)
        B = np.full((2 * n + 1, 2 * n + 1), 7.0)
        B[::2, ::2][:n, :n] = A
        return B[::2, ::2][:n, :n]
    if rep == 'int64':
        return A.astype(np.int64)
    if rep == 'bool':
        return A.astype(bool)
    if rep == 'float32':
        return A.astype(np.float32)
    raise ValueError(rep)


def pick_rep(m, A):
    """a fraction (~1/4) of the (measure, graph) cases of the list families is run in another representation; the choice is a
    function of the case so that a replay reproduces it"""
    h = int(hashlib.sha1(m.key.encode() + A.tobytes()).hexdigest()[:8], 16)
    if h % 4 != 0:
        return None
    cands = [r for r in REPS if rep_ok(r, A)]
    return cands[(h // 4) % len(cands)] if cands else None


def evaluate(m, A, ci, rep=None):
    """('ok', outputs) | ('exc', kind) | ('timeout', None)"""
    st, v = call(m.fn, bct_mod(), rep_apply(rep, A), ci.copy(), t=m.t * (1 + (len(A) // 32) ** 2), retry=10)
    if st == 'ok':
        if not isinstance(v, tuple):
            v = (v,)
        return 'ok', v
    if st == 'exc':
        return 'exc', v.split(':', 1)[0]
    return st, None


def cond_of(m, A, rep=None):
    c = dict(m.cond)
    if rep is not None:
        c['rep'] = rep
    if m.cond_fn is not None:
        c.update(m.cond_fn(A))
    return c


def check_pair(m, A, ci, p, base, permd, res, rep=None):
    """compare one (graph, permutation) pair; res is the worker's accumulator"""
    res['pairs'] += 1
    if base[0] == 'timeout' or permd[0] == 'timeout':
        res['timeouts'] += 1
        return
    if base[0] == 'exc' or permd[0] == 'exc':
        legit = (m.legit_raise is not None and base[0] == 'exc' and base[1] == m.legit_raise[0] and m.legit_raise[1](A))
        if base[0] == permd[0] and base[1] == permd[1] and legit:
            res['both_raise'] += 1
            res['raise_kinds'][base[1]] = res['raise_kinds'].get(base[1], 0) + 1
        elif base[0] == permd[0] and base[1] == permd[1]:
            # both numberings raise, but nothing in the routine's code makes this input an error case
            res['viol'].append({'measure': m.key, 'name': m.name, 'pred': 'raises-on-in-domain-input', 'cond': cond_of(m, A, rep),
                                'detail': {'measure': m.key, 'A': A.tolist(), 'p': [int(t) for t in p], 'ci': ci.tolist(), 'rep': rep,
                                           'exception': base[1]}})
        else:
            res['viol'].append({'measure': m.key, 'name': m.name, 'pred': 'raises-on-one-numbering-only', 'cond': cond_of(m, A, rep),
                                'detail': {'measure': m.key, 'A': A.tolist(), 'p': [int(t) for t in p], 'ci': ci.tolist(), 'rep': rep,
                                           'base': str(base[:2])[:200], 'renumbered': str(permd[:2])[:200]}})
        return
    res['ok_pairs'] += 1
    for (label, kind, exact), bo, po in zip(m.outs, base[1], permd[1]):
        if kind in ('x', 'xp'):
            # excluded output (defined only up to a choice among ties): count how often it moves, never a violation
            if kind == 'xp':      # entries are node indices: renumber the values as well (off-diagonal cells)
                inv = np.argsort(p); b2 = np.asarray(bo)[np.ix_(p, p)].astype(int); po2 = np.asarray(po).astype(int)
                off = ~np.eye(len(p), dtype=bool)
                if not np.array_equal(inv[b2][off], po2[off]):
                    res['excluded_differs'] += 1
            elif not compare(MM, True, bo, po, p):
                res['excluded_differs'] += 1
            continue
        if not compare(kind, exact, bo, po, p, tol=(1e-4 if rep in SINGLE_PRECISION_REPS else TOL)):
            cnd = cond_of(m, A, rep)
            if m.cond_pair is not None:
                cnd.update(m.cond_pair(A, p, base, permd))
            res['viol'].append({'measure': m.key, 'name': m.name, 'pred': 'equivariance', 'cond': cnd,
                                'detail': {'measure': m.key, 'output': label, 'kind': kind, 'exact': exact, 'A': A.tolist(),
                                           'p': [int(t) for t in p], 'ci': ci.tolist(), 'rep': rep,
                                           'f(A)': np.asarray(bo, float).tolist(), 'f(A[p,p])': np.asarray(po, float).tolist()}})
            return
    if len(m.outs) != len(base[1]) or len(m.outs) != len(permd[1]):
        res['viol'].append({'measure': m.key, 'name': m.name, 'pred': 'output-arity', 'cond': cond_of(m, A, rep),
                            'detail': {'measure': m.key, 'A': A.tolist(), 'expected': len(m.outs), 'got': len(base[1])}})


def new_res(m, fam):
    return {'measure': m.key, 'family': fam, 'pairs': 0, 'ok_pairs': 0, 'calls': 0, 'timeouts': 0, 'both_raise': 0, 'raise_kinds': {}, 'excluded_differs': 0,
            'viol': [], 'nontrivial': 0, 'sample': None, 'aborted': False, 'rep_pairs': {}, 'rep_rejected': {}, 'pre_calls': 0}


def perms_of(n):
    return [np.array(p) for p in itertools.permutations(range(n))]


# every call made by this worker process, most recent last (matrices of the last few only): a failing case is stored together
# with what the process ran just before it, and --replay re-runs that trail first (hidden state carried between calls)
import collections
_TRAIL = collections.deque(maxlen=5)
_NONDEFAULT = {}      # (bct module, n) -> the last few calls with a non-default option on inputs of that size
_MODULE_OF = {}


def note_call(m, A, ci, rep):
    e = (m.key, np.asarray(A).tolist(), np.asarray(ci).tolist(), rep)
    _TRAIL.append(e)
    if m.variant:       # per non-default variant and size: its first call and its last two
        d = _NONDEFAULT.setdefault((module_of(m), len(A)), {})
        if m.key not in d:
            d[m.key] = [e, collections.deque(maxlen=2)]
        else:
            d[m.key][1].append(e)


def history_for(m, A):
    """what this worker ran before the call under test that could matter: the last non-default-option calls of routines of the
    same source file on inputs of the same size, then the last five calls of any kind"""
    h = []
    for first, last in _NONDEFAULT.get((module_of(m), len(A)), {}).values():
        h.append(first); h.extend(last)
    return h + list(_TRAIL)


def module_of(m):
    if m.name not in _MODULE_OF:
        _MODULE_OF[m.name] = getattr(getattr(bct_mod(), m.name, None), '__module__', '?')
    return _MODULE_OF[m.name]


def siblings(m):
    """other variants living in the same bct source file (they may share module-level state), non-default options first"""
    mod = module_of(m)
    sib = [x for x in MEASURES if x is not m and module_of(x) == mod]
    return sorted(sib, key=lambda x: (x.name != m.name, x.variant == ''))


class Runner:
    """all cases of one (measure variant, family) inside a batch; f is evaluated once per distinct labelled graph (cache)"""

    def __init__(self, mi, fam, forced_rep=None):
        self.m = MEASURES[mi]
        self.fam = fam
        self.res = new_res(self.m, fam)
        self.cache = {}
        self.seen = set()
        self.mkey = self.m.key.encode() + b'|'
        self.forced_rep = forced_rep

    def ev(self, A, ci, rep=None):
        m = self.m
        k = (A.tobytes(), ci.tobytes() if m.uses_ci else b'', rep)
        if k not in self.cache:
            r = evaluate(m, A, ci, rep)
            note_call(m, A, ci, rep)
            self.res['calls'] += 1
            if r[0] == 'timeout':       # never cached: a wall-clock hit says nothing about the next call
                return r
            self.cache[k] = r
        return self.cache[k]

    def graph(self, A, plist):
        m, res = self.m, self.res
        if res['timeouts'] >= ABORT_AFTER_TIMEOUTS:      # a hanging measure must not hang the check: give up
            res['aborted'] = True
            return
        if graph_class(A) not in ACCEPT[m.dom]:
            return
        if m.need is not None and not m.need(A):
            return
        ci = ci_of(A)
        exh = self.fam.startswith('exh')
        rep = self.forced_rep if self.forced_rep is not None else (None if exh else pick_rep(m, A))
        if rep == 'none':
            rep = None
        h = int(hashlib.sha1(b'pre' + self.mkey + A.tobytes()).hexdigest()[:8], 16)
        if not exh and self.forced_rep is None and h % 3 == 0:
            # history: a sibling variant (another option of the same routine first, else another routine of the same source file)
            # runs on a same-size input right before the call under test; its result is not judged here
            sib = [x for x in siblings(m) if graph_class(A) in ACCEPT[x.dom] and (x.need is None or x.need(A)) and len(A) <= x.nmax[0]]
            if sib:
                x = sib[(h // 3) % min(len(sib), 4)]
                B = A[np.ix_(plist[-1], plist[-1])]
                evaluate(x, B, ci[plist[-1]])
                note_call(x, B, ci[plist[-1]], None)
                res['pre_calls'] += 1
        trail = history_for(m, A)
        base = self.ev(A, ci, rep)
        if rep is not None and base[0] == 'exc':
            # "where accepted": the routine does not take this dtype/layout -> counted, and the case runs in the default one
            res['rep_rejected'][rep] = res['rep_rejected'].get(rep, 0) + 1
            rep = None
            base = self.ev(A, ci, rep)
        if base[0] == 'timeout':        # one call timed out (after the retry): one count, the graph is skipped
            res['timeouts'] += 1
            return
        if rep is not None:
            res['rep_pairs'][rep] = res['rep_pairs'].get(rep, 0) + len(plist)
        for p in plist:
            if res['timeouts'] >= ABORT_AFTER_TIMEOUTS:
                break
            Ap = A[np.ix_(p, p)]
            permd = self.ev(Ap, ci[p], rep)
            nv = len(res['viol'])
            check_pair(m, A, ci, p, base, permd, res, rep)
            if len(res['viol']) > nv:
                res['viol'][-1]['detail']['worker_history'] = trail
            if not (Ap == A).all():        # non-trivial: the renumbering changes the matrix (p is not an automorphism)
                self.seen.add(int.from_bytes(hashlib.blake2b(self.mkey + len(A).to_bytes(2, 'little') + A.tobytes() + np.asarray(p, np.uint16).tobytes(),
                                                             digest_size=8).digest(), 'little'))
            if res['sample'] is None and base[0] == 'ok' and has_edge(A) and not (Ap == A).all() and len(res['viol']) == nv:
                res['sample'] = {'measure': m.key, 'A': A.tolist(), 'p': [int(t) for t in p],
                                 'f(A)': [np.asarray(o, float).tolist() for o in base[1]][:2]}

    def finish(self):
        res = self.res
        res['nontrivial'] = len(self.seen)
        res['keys'] = np.fromiter(self.seen, dtype=np.uint64, count=len(self.seen))
        if len(res['viol']) > 40:
            res['nviol_total'] = len(res['viol'])
            res['viol'].sort(key=lambda v: len(json.dumps(v['detail'], default=str)))
            res['viol'] = res['viol'][:40]
        return res


def run_batch(batch):
    """A batch mixes measures (and, for the list families, sizes and families) inside one worker:
    kind 'exh':  (fam, payload, [measure indices]) - every labelled graph of the family (or the listed ones) x all n!, the measures
                 of the group taking turns on each graph in an order shuffled per graph;
    kind 'list': [(measure index, fam, A, perms), ...] already shuffled by the parent.
    -> list of per-(measure, family) results"""
    rs = np.random.RandomState(batch['seed'])
    forced = batch.get('forced_rep')
    for (mk, A_, ci_, rp_) in batch.get('history', []):       # replay: what the failing worker ran just before
        evaluate(MEASURES[MIDX[mk]], np.array(A_, float), np.array(ci_), rp_)
    runners = {}
    if batch['kind'] == 'exh':
        fam, payload, mis = batch['fam'], batch['payload'], batch['mis']
        n, directed, subset, weights = payload
        graphs = list(all_graphs(n, directed, weights)) if subset is None else [np.array(a, float) for a in subset]
        if directed:        # the symmetric ones are covered by the undirected enumeration of the same n
            graphs = [A for A in graphs if not (A == A.T).all()]
        if weights != (1,):  # the binary ones are covered by the binary enumeration
            graphs = [A for A in graphs if graph_class(A)[0] != 'b']
        plist = perms_of(n)
        for mi in mis:
            runners[(mi, fam)] = Runner(mi, fam, forced)
        for A in graphs:
            for mi in rs.permutation(mis):
                runners[(int(mi), fam)].graph(A, plist)
    else:
        for mi, fam, A, ps in batch['units']:
            r = runners.get((mi, fam))
            if r is None:
                r = runners[(mi, fam)] = Runner(mi, fam, forced)
            r.graph(np.array(A, float), [np.array(p) for p in ps])
    return [r.finish() for r in runners.values()]


# --------------------------------------------------------------------------- object-reuse / history probes (common.reuse_probe)

PROBE_KINDS = ('renumber', 'lesion', 'pair', 'returned-edit')


def _lesion(A):
    """remove one connection in place (both directions if the matrix is symmetric): stays in every measure's domain class"""
    und = bool((A == A.T).all())
    idx = np.argwhere(A != 0)
    if len(idx) == 0:
        return
    i, j = idx[len(idx) // 2]
    A[i, j] = 0
    if und:
        A[j, i] = 0


def run_probe(item):
    """item = (measure index, A, p, kind).  -> (measure key, kind, None | violation dict)
    renumber / lesion: common.reuse_probe - call f on the objects (A, ci), edit them IN PLACE (renumber both with p / remove a
        connection), call f again on the same objects and compare with f on fresh copies of the edited arguments;
    pair: the same with a sibling routine g called on the shared objects between the two calls of f (g(A); f(A));
    returned-edit: call f, overwrite the returned arrays in place, call f again on the untouched argument: same values."""
    mi, A, p, kind = item
    m = MEASURES[mi]
    A = np.array(A, float); p = np.array(p)
    if graph_class(A) not in ACCEPT[m.dom] or (m.need is not None and not m.need(A)):
        return m.key, kind, 'skipped', None
    b = bct_mod()
    ci = ci_of(A)
    tol = 0.0 if all(e for (_, k, e) in m.outs if k not in ('x', 'xp')) else TOL
    f = lambda A_, ci_: m.fn(b, A_, ci_)
    if kind in ('renumber', 'lesion', 'pair'):
        def mutate(args):
            if kind == 'lesion':
                _lesion(args[0])
            else:
                args[0][:] = args[0][np.ix_(p, p)]
                args[1][:] = args[1][p]
        fn = f
        g = None
        if kind == 'pair':
            sib = [x for x in siblings(m) if graph_class(A) in ACCEPT[x.dom] and (x.need is None or x.need(A))]
            if sib:
                g = sib[int(p[0]) % min(len(sib), 4)]

                def fn(A_, ci_):
                    try:
                        g.fn(b, A_, ci_)
                    except Exception:
                        pass
                    return m.fn(b, A_, ci_)
        args = [A.copy(), ci.copy()]
        d = reuse_probe(fn, args, mutate, t=4 * m.t, tol=tol)
        if d is None:
            return m.key, kind, 'ok', None
        d.update({'measure': m.key, 'probe': kind, 'A': A.tolist(), 'p': [int(t) for t in p], 'ci': ci.tolist(),
                  'between_the_two_calls': None if g is None else g.key})
        return m.key, kind, 'viol', {'measure': m.key, 'name': m.name, 'pred': 'result-depends-on-history', 'cond': cond_of(m, A), 'detail': d}
    # returned-edit
    A0 = A.copy()
    r1 = call(f, A0, ci.copy(), t=4 * m.t)
    if r1[0] != 'ok':
        return m.key, kind, 'skipped', None
    import copy
    keep = copy.deepcopy(r1[1])
    outs = r1[1] if isinstance(r1[1], tuple) else (r1[1],)
    for o in outs:
        if isinstance(o, np.ndarray) and o.size and o.flags.writeable:
            try:
                o[...] = 7
            except Exception:
                pass
    r2 = call(f, A0, ci.copy(), t=4 * m.t)
    if r2[0] == 'timeout':
        return m.key, kind, 'skipped', None
    if r2[0] == 'ok' and same_result(r2[1], keep, tol) and (A0 == A).all():
        return m.key, kind, 'ok', None
    d = {'measure': m.key, 'probe': kind, 'A': A.tolist(), 'p': [int(t) for t in p], 'ci': ci.tolist(),
         'first_call': str(keep)[:300], 'after_editing_the_returned_arrays': str(r2[1])[:300], 'argument_changed': bool((A0 != A).any())}
    return m.key, kind, 'viol', {'measure': m.key, 'name': m.name, 'pred': 'result-depends-on-history', 'cond': cond_of(m, A), 'detail': d}


def build_probes(rs, tier, only=None):
    """one probe per measure variant in the quick tier (kinds taking turns), six in the thorough tier; small random graphs of the
    variant's own class, sizes 4..7 mixed"""
    per = 1 if tier == 'quick' else 6
    items = []
    for mi, m in enumerate(MEASURES):
        if only and m.name not in only and m.key not in only:
            continue
        cls = sorted(ACCEPT[m.dom])[-1] if m.dom not in ('su', 'sd') else 'su'
        cls = {'bu': 'bu', 'bd': 'bd', 'wu': 'wu', 'wd': 'wd', 'su': 'su', 'sd': 'su'}[m.dom]
        for k in range(per):
            n = int(rs.randint(4, 8))
            A = rand_graph(rs, n, rs.choice([.4, .6]), cls[1] == 'd', wmax=1 if cls[0] == 'b' else 3, signed=cls[0] == 's')
            q = rs.permutation(n)               # keep it connected: the spectral measures need it, the others do not mind
            for a_, b_ in zip(q[:-1], q[1:]):
                if A[a_, b_] == 0:
                    A[a_, b_] = 1
                    if cls[1] == 'u':
                        A[b_, a_] = 1
            if cls[1] == 'u':
                A = np.triu(A, 1); A = A + A.T
            if cls[0] == 's':
                A[q[0], q[1]] = A[q[1], q[0]] = -1
            p = rs.permutation(n)
            if (p == np.arange(n)).all():
                p = np.roll(p, 1)
            items.append((mi, A.tolist(), p.tolist(), PROBE_KINDS[(mi + k) % len(PROBE_KINDS)]))
    return items


# --------------------------------------------------------------------------- input families


def sym(A):
    A = np.triu(A, 1)
    return A + A.T


def structured_graphs():
    """graphs with many automorphisms / degenerate spectra / ties in lengths (n >= 5 so they are disjoint from the exhaustive part)"""
    G = []

    def cyc(n, w=1.0):
        A = np.zeros((n, n))
        for i in range(n):
            A[i, (i + 1) % n] = A[(i + 1) % n, i] = w
        return A

    def kab(a, b):
        A = np.zeros((a + b, a + b)); A[:a, a:] = 1; A[a:, :a] = 1
        return A

    def disj(*Bs):
        n = sum(len(B) for B in Bs); A = np.zeros((n, n)); o = 0
        for B in Bs:
            A[o:o + len(B), o:o + len(B)] = B; o += len(B)
        return A

    def path(n):
        A = np.zeros((n, n))
        for i in range(n - 1):
            A[i, i + 1] = A[i + 1, i] = 1
        return A

    def star(n):
        A = np.zeros((n, n)); A[0, 1:] = 1; A[1:, 0] = 1
        return A

    def complete(n):
        return np.ones((n, n)) - np.eye(n)

    def dcyc(n):
        A = np.zeros((n, n))
        for i in range(n):
            A[i, (i + 1) % n] = 1
        return A

    for n in (5, 6, 7, 8):
        G.append(('C%d' % n, cyc(n)))
    G += [('K2,3', kab(2, 3)), ('K3,3', kab(3, 3)), ('K2,4', kab(2, 4)), ('K1,5', star(6)), ('K4,4', kab(4, 4)),
          ('2xC3', disj(cyc(3), cyc(3))), ('2xC4', disj(cyc(4), cyc(4))), ('C3+C4', disj(cyc(3), cyc(4))), ('3xK2', disj(path(2), path(2), path(2))),
          ('2xK3+iso', disj(cyc(3), cyc(3), np.zeros((1, 1)))), ('P5', path(5)), ('P6', path(6)), ('K5', complete(5)), ('K6', complete(6)),
          ('C4+P3', disj(cyc(4), path(3))), ('K3,3+K2', disj(kab(3, 3), path(2))), ('empty5', np.zeros((5, 5))),
          ('dC5', dcyc(5)), ('dC6', dcyc(6)), ('2xdC3', disj(dcyc(3), dcyc(3))), ('dC4+C3', disj(dcyc(4), cyc(3)))]
    # Petersen graph
    P = np.zeros((10, 10))
    for i in range(5):
        for a, b in ((i, (i + 1) % 5), (5 + i, 5 + (i + 2) % 5), (i, 5 + i)):
            P[a, b] = P[b, a] = 1
    G.append(('petersen', P))
    # cube Q3
    Q = np.zeros((8, 8))
    for i in range(8):
        for b in (1, 2, 4):
            Q[i, i ^ b] = 1
    G.append(('Q3', Q))
    # wheel W5 (hub + C5), prism
    W = np.zeros((6, 6)); W[:5, :5] = cyc(5); W[5, :5] = 1; W[:5, 5] = 1
    G.append(('wheel5', W))
    # ties in lengths: weighted graphs with several equal-length shortest paths of different hop counts
    T1 = np.zeros((5, 5))
    for a, b, w in ((0, 1, 1), (1, 2, 1), (0, 2, 2), (2, 3, 1), (3, 4, 1), (2, 4, 2), (0, 4, 4)):
        T1[a, b] = T1[b, a] = w
    G.append(('ties-w1', T1))
    T2 = cyc(6, 2.0); T2[0, 3] = T2[3, 0] = 6; T2[1, 4] = T2[4, 1] = 6
    G.append(('ties-C6-chords', T2))
    T3 = np.zeros((6, 6))
    for a, b, w in ((0, 1, 2), (0, 2, 1), (2, 1, 1), (1, 3, 3), (2, 3, 4), (3, 4, 1), (3, 5, 2), (4, 5, 1), (5, 0, 5)):
        T3[a, b] = w
    G.append(('ties-dir', T3))
    T4 = kab(3, 3) * 2.0; T4[0, 1] = T4[1, 0] = 4; T4[3, 4] = T4[4, 3] = 4
    G.append(('ties-K33+4', T4))
    S1 = cyc(5); S1[0, 1] = S1[1, 0] = -1; S1[2, 3] = S1[3, 2] = -2; S1[0, 2] = S1[2, 0] = 3
    G.append(('signed-C5', S1))
    S2 = complete(5); S2[0, 1] = S2[1, 0] = -1; S2[2, 3] = S2[3, 2] = -1; S2[1, 4] = S2[4, 1] = -1
    G.append(('signed-K5', S2))
    return G


PATH_MEASURES = {'betweenness_wei', 'edge_betweenness_wei', 'distance_wei', 'distance_wei_floyd', 'efficiency_wei', 'charpath'}
FAMILY_ONLY = {'neartie': PATH_MEASURES, 'neartie-inv': {'efficiency_wei'}}
# self-loops are outside the documented domain of the path / neighbourhood routines (BCT convention: empty diagonal; e.g. `breadth`
# reports the neighbours of a self-looped source at distance 1 or 2 depending on the visiting order)
FAMILY_EXCLUDE = {'special-selfloop': {'breadthdist', 'reachdist', 'distance_bin', 'distance_wei', 'distance_wei_floyd', 'charpath',
                                       'efficiency_bin', 'efficiency_wei', 'betweenness_bin', 'betweenness_wei', 'edge_betweenness_bin',
                                       'edge_betweenness_wei', 'flow_coef_bd', 'edge_nei_overlap_bu', 'edge_nei_overlap_bd'}}


def neartie_graphs(rs, count):
    """dyadic length matrices (n = 4, 5) with *near* ties: two routes whose total lengths differ by eps = 2^-40 .. 2^-30 (all sums
    exact in floats) and whose penultimate nodes are at exactly the same distance from the source, so that a routine that
    compares lengths with a tolerance makes the result depend on the order in which the tied predecessors are relaxed"""
    out = []
    for c in range(count):
        n = 4 if c % 3 == 0 else 5
        eps = 2.0 ** -int(rs.choice([30, 33, 36, 40]))
        directed = bool(c % 2)
        A = np.zeros((n, n))
        q = rs.permutation(n)
        s_, a, b, t = q[:4]
        x, y = rs.choice([.25, .5]), rs.choice([.25, .5])

        def put_edge(i, j, w):
            A[i, j] = w
            if not directed:
                A[j, i] = w
        put_edge(s_, a, x); put_edge(s_, b, x)                 # exactly tied penultimate nodes
        put_edge(a, t, y); put_edge(b, t, y + eps)             # routes of length x+y and x+y+eps
        if n == 5:
            e = q[4]
            kind = c % 4
            if kind == 0:                                      # a tail behind the target: more pairs route through the near tie
                put_edge(t, e, .25)
            elif kind == 1:                                    # a third route, exactly tied with the shorter one
                put_edge(s_, e, x); put_edge(e, t, y)
            elif kind == 2:                                    # a third route, longer by 2 eps
                put_edge(s_, e, x); put_edge(e, t, y + 2 * eps)
            else:                                              # the source is reached through e
                put_edge(e, s_, .5)
        if rs.rand() < .5:                                     # a direct connection that is (nearly) tied as well
            put_edge(s_, t, x + y + rs.choice([0.0, eps, -eps]))
        if directed and rs.rand() < .5:                        # some back edges
            put_edge(t, s_, .75)
        out.append(A)
    # palette graphs: lengths from {1/4, 1/4+eps, 1/2, 1/2+eps, 1/2+2eps}: many accidental exact and near ties
    for c in range(count // 2):
        n = 5 if c % 2 else 4
        eps = 2.0 ** -int(rs.choice([30, 36, 40]))
        pal = np.array([.25, .25 + eps, .5, .5 + eps, .5 + 2 * eps])
        A = (rs.rand(n, n) < .7) * pal[rs.randint(0, len(pal), size=(n, n))]
        np.fill_diagonal(A, 0)
        if c % 3 == 0:
            A = np.triu(A, 1); A = A + A.T
        out.append(A)
    return out


def size_graph(rs, n, cls, structure):
    """one graph of class cls (b/w/s x u/d) on n nodes with the given structure (see STRUCTURES)"""
    und = cls[1] == 'u'
    A = np.zeros((n, n))

    def w():
        if cls[0] == 'b':
            return 1.0
        v = float(rs.randint(1, 5))
        return -v if cls[0] == 's' and rs.rand() < .3 else v

    def edge(i, j, both=False):
        if i == j:
            return
        A[i, j] = w()
        if und:
            A[j, i] = A[i, j]
        elif both:
            A[j, i] = w()
    if structure == 'chain':                 # a long path through all nodes in a shuffled order, a few chords
        q = rs.permutation(n)
        for a, b in zip(q[:-1], q[1:]):
            edge(a, b)
        for _ in range(max(1, n // 16)):
            edge(*rs.randint(0, n, size=2))
    elif structure == 'dense':
        dens = .5 if n <= 65 else (.15 if n <= 129 else .05)
        M_ = rs.rand(n, n) < dens
        for i, j in zip(*np.nonzero(M_)):
            if (not und) or i < j:
                edge(i, j)
    elif structure == 'disconnected':        # three components of different kinds, isolated nodes, node 0 isolated
        q = [int(x) for x in rs.permutation(np.arange(1, n))]
        k = max(2, (n - 3) // 3)
        c1, c2, c3 = q[:k], q[k:2 * k], q[2 * k:n - 3]
        for a, b in zip(c1[:-1], c1[1:]):
            edge(a, b, both=True)                                  # a path
        for a, b in zip(c2, c2[1:] + c2[:1]):
            edge(a, b)                                             # a (directed) cycle
        for a in c3:
            for b in c3:
                if a < b and rs.rand() < .4:
                    edge(a, b, both=rs.rand() < .5)                # a random blob
    elif structure == 'modules':             # a ring of small cliques: n/3 (> 32 from n = 100 on) tightly knit modules
        q = [int(x) for x in rs.permutation(n)]
        blocks = [q[o:o + 3] for o in range(0, n, 3)]
        for blk in blocks:
            for a in blk:
                for b in blk:
                    if a < b:
                        edge(a, b, both=True)
        for b1, b2 in zip(blocks, blocks[1:] + blocks[:1]):
            edge(b1[0], b2[-1])
    else:                                    # node 0 cannot be reached (directed: only out-edges; undirected: isolated), one sink
        q = [int(x) for x in rs.permutation(np.arange(1, n))]
        for a, b in zip(q[:-1], q[1:]):
            edge(a, b)
        for _ in range(n // 4):
            a, b = rs.randint(1, n, size=2)
            edge(int(a), int(b))
        if not und:
            for b in q[:3]:
                A[0, b] = w()
            A[q[-1], :] = 0                  # sink
    np.fill_diagonal(A, 0)
    if cls[0] == 's' and not (A < 0).any() and n > 2:
        i, j = np.argwhere(A != 0)[0]
        A[i, j] = -abs(A[i, j])
        if und:
            A[j, i] = A[i, j]
    return A


def size_family(rs, tier):
    """the size axis: for every class and every n of SIZES (+ one 257..300 case) one graph per structure (thorough) / a rotating
    structure (quick: `build_batches` keeps one structure per (variant, size)); one random permutation (thorough: two)"""
    lst = []
    big = int(rs.randint(257, 301))
    for si, n in enumerate(SIZES + (big,)):
        for ci_, cls in enumerate(('bu', 'bd', 'wu', 'wd', 'su')):
            for ti, st in enumerate(STRUCTURES):
                A = size_graph(rs, n, cls, st)
                ps = [rs.permutation(n).tolist() for _ in range(1 if tier == 'quick' else 2)]
                lst.append((A.tolist(), ps, {'n': n, 'cls': cls, 'structure': ti, 'size_index': si}))
    return lst


def special_family(rs, tier):
    """special values where the routines' domains allow them: -0.0 in place of absent connections (every measure), tiny weights
    2^-996 (about 1.5e-300) and weights in (0, 1] whose maximum is exactly 1.0 (weighted measures), self-loops (BCT's convention is an empty
    diagonal, but a renumbering maps the diagonal to itself, so every routine must still be equivariant)"""
    lst = []
    for c in range(8 if tier == 'quick' else 48):
        n = int(rs.randint(5, 9))
        kind = c % 4
        cls = ('bu', 'bd', 'wu', 'wd')[c % 4 if kind in (0, 3) else 2 + c % 2]
        A = rand_graph(rs, n, rs.choice([.3, .6]), cls[1] == 'd', wmax=1 if cls[0] == 'b' else 4)
        if kind == 0:                          # negative zeros
            Z = (A == 0) & (rs.rand(n, n) < .5)
            if cls[1] == 'u':
                Z = np.triu(Z, 1); Z = Z | Z.T
            A = np.where(Z, -0.0, A)
        elif kind == 1:                        # some tiny weights
            T = (A != 0) & (rs.rand(n, n) < .4)
            if cls[1] == 'u':
                T = np.triu(T, 1); T = T | T.T
            A = np.where(T, 2.0 ** -996, A)       # about 1.5e-300, dyadic: sums of such weights stay exact
        elif kind == 2:                        # weights k/4 with maximum exactly 1.0
            A = A / 4.0
        else:                                  # self-loops
            for i in rs.choice(n, size=2, replace=False):
                A[i, i] = 1.0 if cls[0] == 'b' else float(rs.randint(1, 4))
        lst.append((A.tolist(), [rs.permutation(n).tolist() for _ in range(3)], kind == 3))
    return lst


def gen_families(rs, tier):
    """-> list of (family name, payload description) ; payloads are measure independent"""
    fams = []
    quick = tier == 'quick'
    # exhaustive: all labelled graphs n <= 4 x all n! permutations
    for n in (1, 2, 3):
        fams.append(('exh-u%d' % n, (n, False, None, (1,))))
        fams.append(('exh-d%d' % n, (n, True, None, (1,))))
    fams.append(('exh-u4', (4, False, None, (1,))))
    # every graph with weights in {1,2} / {1,-1} (the binary ones are skipped: covered above)
    fams.append(('exh-wu3', (3, False, None, (1, 2))))
    if quick:
        allw = [A for A in all_graphs(3, True, (1, 2))]
        pick = set(rs.choice(len(allw), size=150, replace=False).tolist())
        fams.append(('exh-wd3-slice', (3, True, [A.tolist() for i, A in enumerate(allw) if i in pick], (1, 2))))
    else:
        fams.append(('exh-wd3', (3, True, None, (1, 2))))
    fams.append(('exh-su3', (3, False, None, (1, -1))))
    if not quick:
        fams.append(('exh-wu4', (4, False, None, (1, 2))))
        fams.append(('exh-su4', (4, False, None, (1, -1))))
    if quick:
        idx = set(rs.choice(4096, size=40, replace=False).tolist())
        sub = [A.tolist() for i, A in enumerate(all_graphs(4, True)) if i in idx]
        fams.append(('exh-d4-slice', (4, True, sub, (1,))))
    else:
        fams.append(('exh-d4', (4, True, None, (1,))))
        fams.append(('exh-u5', (5, False, None, (1,))))
    # list families: no labelled graph occurs twice (so that distinct (measure, A, p) can be counted without storing them);
    # 5-node binary undirected graphs are left out in the thorough tier, where exh-u5 covers all of them
    seen_graphs = set()

    def put(lst, A, perms):
        A = np.asarray(A, float)
        k = (A.shape[0], A.tobytes())
        if k in seen_graphs or (not quick and len(A) == 5 and graph_class(A) == 'bu'):
            return
        seen_graphs.add(k)
        lst.append((A.tolist(), perms))

    # structured graphs: reversal, a rotation, random permutations (automorphisms included on purpose)
    lst = []
    for name, A in structured_graphs():
        n = len(A)
        ps = [list(range(n))[::-1], list(range(1, n)) + [0]] + [rs.permutation(n).tolist() for _ in range(2 if quick else 10)]
        put(lst, A, ps)
    put(lst, D17_WITNESS['A'], [D17_WITNESS['p']] + ([] if quick else [rs.permutation(5).tolist() for _ in range(10)]))
    fams.append(('structured', lst))
    fams.append(('size', size_family(rs, tier)))
    lst, lsts = [], []
    for A, ps, selfloop in special_family(rs, tier):
        put(lsts if selfloop else lst, A, ps)
    fams.append(('special', lst))
    fams.append(('special-selfloop', lsts))
    # near ties in path lengths (dyadic, exact in floats) x all n! permutations; the elementwise inverses for efficiency_wei
    lst, lsti = [], []
    for A in neartie_graphs(rs, 8 if quick else 60):
        ps = [list(p) for p in itertools.permutations(range(len(A)))]
        put(lst, A, ps)
        with np.errstate(divide='ignore'):
            put(lsti, np.where(A != 0, 1.0 / np.where(A != 0, A, 1.0), 0.0), ps)
    fams.append(('neartie', lst))
    fams.append(('neartie-inv', lsti))
    # sampled 5-node graphs x all 5! permutations
    p5 = [list(p) for p in itertools.permutations(range(5))]
    n5 = 4 if quick else 60
    for cls in ('bu', 'bd', 'wu', 'wd', 'su'):
        lst = []
        for _ in range(n5):
            dens = rs.choice([.3, .5, .7])
            A = rand_graph(rs, 5, dens, cls[1] == 'd', wmax=1 if cls[0] == 'b' else 4, signed=cls[0] == 's')
            if cls[0] == 's' and not (A < 0).any():
                A[0, 1] = A[1, 0] = -1
            put(lst, A, p5)
        fams.append(('n5-all120-' + cls, lst))
    # random graphs n = 6..10 with random permutations
    nr = 12 if quick else 150
    npm = 3 if quick else 6
    for cls in ('bu', 'bd', 'wu', 'wd', 'su'):
        lst = []
        for _ in range(nr):
            n = int(rs.randint(6, 11))
            dens = rs.choice([.15, .3, .5, .8])
            A = rand_graph(rs, n, dens, cls[1] == 'd', wmax=1 if cls[0] == 'b' else int(rs.choice([2, 3, 9])), signed=cls[0] == 's')
            if cls[0] == 's' and not (A < 0).any():
                A[0, 1] = A[1, 0] = -2
            if rs.rand() < .3 and n > 6:      # plant isolated nodes / a second component
                k = int(rs.randint(1, 3)); A[:k, :] = 0; A[:, :k] = 0
            put(lst, A, [rs.permutation(n).tolist() for _ in range(npm)])
        fams.append(('rand-' + cls, lst))
    # connected random undirected graphs (spectral measures need them): spanning path + chords
    lst = []
    for _ in range(nr):
        n = int(rs.randint(6, 11))
        A = rand_graph(rs, n, rs.choice([.2, .4]), False)
        q = rs.permutation(n)
        for a, b in zip(q[:-1], q[1:]):
            A[a, b] = A[b, a] = 1
        put(lst, A, [rs.permutation(n).tolist() for _ in range(npm)])
    fams.append(('rand-connected-bu', lst))
    return fams


SIZE_CLASS = {'bu': 'bu', 'bd': 'bd', 'wu': 'wu', 'wd': 'wd', 'su': 'su', 'sd': 'su'}


def build_batches(rs, fams, only=None, forced_rep=None, history=None, tier='quick'):
    """work for the pool: batches that mix measures (group of 4 variants taking turns per graph for the exhaustive families;
    for the list families single (variant, graph) units of all variants, families and sizes shuffled together)"""
    batches, units = [], []
    for fam, payload in fams:
        mis = []
        for mi, m in enumerate(MEASURES):
            if only and m.name not in only and m.key not in only:
                continue
            if fam.startswith('exh'):
                n, directed, sub, weights = payload
                if directed and m.dom in ('bu', 'wu', 'su'):
                    continue
                if weights != (1,) and m.dom[0] == 'b' or (-1 in weights and m.dom[0] != 's'):
                    continue
                mis.append(mi)
            else:
                if fam in FAMILY_ONLY and m.name not in FAMILY_ONLY[fam]:
                    continue
                if fam in FAMILY_EXCLUDE and m.name in FAMILY_EXCLUDE[fam]:
                    continue
                cls = None
                if fam.startswith('n5-all120-') or fam.startswith('rand-') and not fam.startswith('rand-connected'):
                    cls = fam.rsplit('-', 1)[1]
                if cls is not None and cls not in ACCEPT[m.dom]:
                    continue
                if fam == 'size':
                    cap = m.nmax[0 if tier == 'quick' else 1]
                    for A, ps, info in payload:
                        if info['cls'] not in ACCEPT[m.dom] or info['cls'] != SIZE_CLASS[m.dom] or info['n'] > cap:
                            continue
                        if m.need is not None and not m.need(np.array(A)):
                            continue
                        # quick: one structure per (variant, size), rotating; python-loop routines get the sparse ones above 65 nodes
                        if tier == 'quick' and info['structure'] != (mi + info['size_index']) % len(STRUCTURES):
                            continue
                        if tier == 'quick' and info['n'] in ((16, 32, 64) if mi % 2 else (17, 33, 65)):
                            continue            # "16/17, 32/33, 64/65": one of each pair per variant, the other one for its neighbour
                        if info['structure'] == 1 and info['n'] > 65 and m.nmax[1] <= 129:
                            continue
                        units.append((mi, fam, A, ps))
                    continue
                for A, ps in payload:
                    units.append((mi, fam, A, ps))
        if fam.startswith('exh') and mis:
            mis = [int(x) for x in rs.permutation(mis)]
            n, directed, sub, weights = payload
            ngraphs = len(sub) if sub is not None else (1 + len(weights)) ** (n * (n - 1) // (1 if directed else 2))
            group = 4 if ngraphs * math.factorial(n) > 2000 else 16
            for o in range(0, len(mis), group):
                batches.append({'kind': 'exh', 'fam': fam, 'payload': payload, 'mis': mis[o:o + group], 'cost': ngraphs * math.factorial(n) * len(mis[o:o + group])})
    order = rs.permutation(len(units))
    cur, cost = [], 0
    for i in order:
        u = units[int(i)]
        cur.append(u); cost += len(u[3]) * (1 + (len(u[2]) // 16) ** 2)
        if cost >= 1500:
            batches.append({'kind': 'list', 'units': cur, 'cost': cost}); cur, cost = [], 0
    if cur:
        batches.append({'kind': 'list', 'units': cur, 'cost': cost})
    for b_ in batches:
        b_['seed'] = int(rs.randint(2 ** 31 - 1))
        if forced_rep is not None:
            b_['forced_rep'] = forced_rep
        if history:
            b_['history'] = history
    batches.sort(key=lambda b_: -b_['cost'])       # heavy ones first, one batch per task so that the pool balances
    return batches


class _Counted(set):
    """Check.finish takes len() of the set of non-trivial keys; the keys are kept as one numpy array (16 M in the thorough tier)"""

    def __init__(self, n):
        super().__init__()
        self._n = n

    def __len__(self):
        return self._n


def pmap1(func, items, procs=None):
    """like common.pmap but one item per task (items differ in cost by three orders of magnitude)"""
    import multiprocessing as mp
    procs = procs or min(16, os.cpu_count() or 4)
    if len(items) < 2 * procs:
        return [func(x) for x in items]
    with mp.get_context('fork').Pool(procs) as pool:
        return pool.map(func, items, chunksize=1)


# --------------------------------------------------------------------------- D17 witness (replayed on the real code every run)
# smallest counter-example of gtom(nr_steps=3) (exhaustive over n <= 5): the path 0-4-2-3-1 and the transposition (1 2)
D17_WITNESS = {'A': [[0, 0, 0, 0, 1], [0, 0, 0, 1, 0], [0, 0, 0, 1, 1], [0, 1, 1, 0, 0], [1, 0, 1, 0, 0]], 'p': [0, 2, 1, 3, 4]}


def main():
    ck = Check(PID)
    only = set(os.environ.get('C04_ONLY', '').split(',')) - {''}
    ck.cov['rule'] = ('cases = (measure, graph A, permutation p): the real measure is called on A and on A[ix_(p,p)] (node data such as ci/falff '
                      'renumbered with it) and the outputs compared as vectors (f(A)[p]), matrices (f(A)[ix_(p,p)]), scalars/distributions (equal), '
                      'multisets or partitions; graphs: every labelled graph n<=4 x all n! permutations (a random slice of the 4-node digraphs in the '
                      'quick tier), every graph with weights {1,2} (undirected n=3, a slice of 150 of the 3-node digraphs in quick, all in thorough; thorough: undirected n=4) or {1,-1} (undirected n=3; thorough: n=4), sampled 5-node binary/weighted/signed graphs x all 120, random n=6..10 x random permutations, structured graphs '
                      'with many automorphisms / degenerate spectra / ties in lengths, dyadic 4/5-node length matrices with near ties (routes differing by 2^-40..2^-30 behind exactly tied predecessors) x all n! for the path-based weighted measures; about a quarter of the list-family cases are presented in another representation (Fortran order, strided view, int64, bool, float32 where the routine accepts it); non-trivial = distinct (measure variant, A, p) with A non-empty '
                      'whose matrix is changed by p (p is not an automorphism of A); measured as the number of distinct 64-bit hashes of (variant, n, '
                      'A, p) collected from all workers (the families are also disjoint by construction)')
    ck.assumptions += ['each measure is exercised on its documented domain (binary vs weighted, undirected vs directed, connected for eigenvector '
                       'centrality, empty diagonal); floats compared exactly where the output is an integer or one division of integers, within 1e-9 otherwise',
                       'outputs the library defines only up to a choice among ties (hops and Pmat of distance_wei_floyd, B of distance_wei) are excluded',
                       'calls that hit the watchdog are counted as timeouts, not violations']
    t_ = time.time()
    # T-gen source pins (translate/cores.py): rename-tolerant normalised bodies of the routines this check covers that have no interpreted tie
    ck.cov['cores'] = cores.generate(families=['pinmeas', 'pinpart', 'pinwalk'])
    for p_ in ck.cov['cores']['problems']:
        ck.corr_break('core extractor (translate/cores.py)', p_)
    ok = ck.lean_gate(['BctVerif.Props.C04'], extra_modules=['BctVerif.Model.Measures'])
    ck.lean_gate([], gen_modules=['BctVerif.Gen.CoresPinMeas', 'BctVerif.Gen.CoresPinPart', 'BctVerif.Gen.CoresPinWalk'])
    ck.dist['lean_gate_s'] = round(time.time() - t_, 1)
    if ck.tier == 'thorough' and ok:
        ck.leanchecker(['BctVerif.Props.C04', 'BctVerif.Model.Measures'])
    if ck.replay:
        rp = json.load(open(ck.replay))
        c = rp['case']
        if c.get('probe'):
            key, kind, st, v = run_probe((MIDX[c['measure']], c['A'], c['p'], c['probe']))
            ck.cov['evaluations'] += 1
            ck._nontrivial = {0, 1}
            if v is not None:
                ck.violation(v['name'], v['pred'], v['detail'], v['cond'])
            ck.finish()
        key = c['measure']
        fams = [('replay', [(c['A'], [c['p']])])]
        only = {key}
        replay_rep = c.get('rep') or 'none' 
    else:
        fams = gen_families(ck.rs, ck.tier)
    if ck.replay:
        batches = build_batches(ck.rs, fams, only, forced_rep=replay_rep, history=rp['case'].get('worker_history'))
    else:
        batches = build_batches(ck.rs, fams, only, tier=ck.tier)
    t_ = time.time()
    results = [r for rl in pmap1(run_batch, batches) for r in rl]
    ck.dist['search_s'] = round(time.time() - t_, 1)
    ck.count('batches', len(batches))
    table = {}
    pool_samples = {}
    for r in results:
        t = table.setdefault(r['measure'], {'pairs': 0, 'returned_normally': 0, 'calls': 0, 'timeouts': 0, 'both_raise': 0,
                                            'excluded_outputs_differ': 0, 'nontrivial': 0})
        t['pairs'] += r['pairs']; t['calls'] += r['calls']; t['returned_normally'] += r['ok_pairs']; t['timeouts'] += r['timeouts']; t['both_raise'] += r['both_raise']
        t['excluded_outputs_differ'] += r['excluded_differs']; t['nontrivial'] += r['nontrivial']
        ck.count('calls_preceded_by_a_sibling_variant', r['pre_calls'])
        if r['aborted']:
            t['items_aborted_on_timeouts'] = t.get('items_aborted_on_timeouts', 0) + 1
        for rp, c in r['rep_pairs'].items():
            ck.count('representation:' + rp, c)
        for rp, c in r['rep_rejected'].items():
            ck.count('representation-not-accepted:' + rp, c)
            t['rep_not_accepted'] = t.get('rep_not_accepted', 0) + c
        for kd, c in r['raise_kinds'].items():
            t['raise:' + kd] = t.get('raise:' + kd, 0) + c
        ck.count('family:' + r['family'], r['pairs'])
        ck.count('timeouts', r['timeouts'])
        ck.cov['evaluations'] += r['pairs']
        if r['sample'] is not None:
            pool_samples.setdefault(r['family'].split('-')[0], []).append(r['sample'])
        for v in r['viol']:
            ck.violation(v['name'], v['pred'], v['detail'], v['cond'])
    # one sample per family group, drawn at random (different measures / graphs), at most 8
    for fam_ in sorted(pool_samples):
        lst_ = pool_samples[fam_]
        if len(ck.cov['samples']) < 8:
            ck.cov['samples'].append(lst_[int(ck.rs.randint(len(lst_)))])
    # a measure that (almost) never returns normally cannot be said to satisfy the property: bounded, not just counted
    if not ck.replay:
        for k in sorted(table):
            t = table[k]
            why = None
            if t['pairs'] and t['returned_normally'] == 0:
                why = 'never returned normally'
            elif t.get('items_aborted_on_timeouts') or t['timeouts'] > max(2, MAX_TIMEOUT_FRAC * t['pairs']):
                why = 'calls exceed the watchdog even when re-tried with 10x the budget (more than %g of the pairs, or a work item gave up)' % MAX_TIMEOUT_FRAC
            if why:
                ck.breaks.append({'kind': 'measure-degenerate', 'measure': k, 'why': why, 'counts': t})
        missing = [m.key for m in MEASURES if m.key not in table and not only]
        if missing:
            ck.breaks.append({'kind': 'measure-not-exercised', 'measures': missing})
    ck.cov['per_measure'] = {k: table[k] for k in sorted(table)}
    ck.cov['measures'] = len(table)
    # distinct non-trivial cases: 64-bit hashes of (measure variant, graph, permutation) from all workers, de-duplicated here
    allkeys = np.unique(np.concatenate([r['keys'] for r in results] + [np.zeros(0, np.uint64)]))
    ck._nontrivial = _Counted(len(allkeys))
    ck.cov['exhaustive'] = False
    # correspondence with the Lean model
    if not ck.replay:
        t_ = time.time()
        probes = build_probes(ck.rs, ck.tier, only)
        probes = [probes[int(i)] for i in ck.rs.permutation(len(probes))]
        pk = {}
        for key, kind, st, v in pmap1(run_probe, probes):
            pk[kind + ':' + st] = pk.get(kind + ':' + st, 0) + 1
            if st != 'skipped':
                ck.cov['evaluations'] += 1
            if v is not None:
                ck.violation(v['name'], v['pred'], v['detail'], v['cond'])
        ck.cov['reuse_probes'] = dict(sorted(pk.items()))
        ck.dist['probes_s'] = round(time.time() - t_, 1)
    if ok and not ck.replay:
        t_ = time.time()
        correspondence(ck)
        ck.dist['correspondence_s'] = round(time.time() - t_, 1)
    ck.finish()


# --------------------------------------------------------------------------- correspondence: Lean model vs real bct


def _pv(tok):
    """model token -> Fraction | float('inf') | float('-inf') | None (nan)"""
    if tok == 'inf':
        return math.inf
    if tok == '-inf':
        return -math.inf
    if tok == 'nan':
        return None
    return Fraction(tok)


def _plist(s):
    return [] if s == '-' else [_pv(t) for t in s.split(',')]


def _agree(mv, pv, exact):
    """model value (Fraction / +-inf / None=nan) against a Python float"""
    pv = float(pv)
    if mv is None:
        return math.isnan(pv)
    if math.isnan(pv):
        return False
    if isinstance(mv, float):
        return pv == mv
    if math.isinf(pv):
        return False
    if exact:
        return Fraction(pv) == mv or float(mv) == pv
    return abs(float(mv) - pv) <= TOL * max(1.0, abs(float(mv)))


def _cmp(model_line, expect, exactness):
    """expect: {key: array-like of floats} or {'error': kind}; -> None if they agree, else a description"""
    d = kv(model_line)
    if 'error' in expect:
        return None if d.get('error') == expect['error'] else 'model %s, impl raises %s' % (model_line[:80], expect['error'])
    if 'error' in d:
        return 'model %s, impl returned' % model_line[:80]
    for k, arr in expect.items():
        if k not in d:
            return 'model output lacks %s' % k
        mv = _plist(d[k])
        pv = np.asarray(arr, dtype=float).ravel().tolist()
        if len(mv) != len(pv):
            return '%s: length %d vs %d' % (k, len(mv), len(pv))
        for t, (a, b) in enumerate(zip(mv, pv)):
            if not _agree(a, b, exactness.get(k, True)):
                return '%s[%d]: model %s impl %r' % (k, t, a, b)
    return None


def _ops():
    """op name -> (graph class, extra-arg generator, impl(bct, A, args) -> {key: array}, exactness overrides, line suffix)"""
    O = []

    def op(name, cls, impl, args=((),), inexact=(), fmt=lambda a: '', pre=None):
        O.append({'name': name, 'cls': cls, 'impl': impl, 'args': args, 'inexact': set(inexact), 'fmt': fmt, 'pre': pre})

    cube = lambda A: A ** 3
    op('strengths_und_sign', 'su', lambda b, A, a: dict(zip(('Spos', 'Sneg', 'vpos', 'vneg'), b.strengths_und_sign(A))))
    op('density_dir', 'wd', lambda b, A, a: dict(zip(('kden', 'n', 'k'), b.density_dir(A))))
    op('density_und', 'wu', lambda b, A, a: dict(zip(('kden', 'n', 'k'), b.density_und(A))))
    op('matching_ind', 'bd', lambda b, A, a: dict(zip(('Min', 'Mout', 'Mall'), b.matching_ind(A))))
    op('edge_nei_overlap', 'bu', lambda b, A, a: {'EC': b.edge_nei_overlap_bu(A)[0]})
    op('edge_nei_overlap', 'bd', lambda b, A, a: {'EC': b.edge_nei_overlap_bd(A)[0]})
    op('gtom', 'bu', lambda b, A, a: {'gt': b.gtom(A, a[0])}, args=((0,), (1,), (2,), (3,), (4,)), fmt=lambda a: ' steps=%d' % a[0])
    op('flow_coef_bd', 'bd', lambda b, A, a: (lambda r: {'fc': r[0], 'total_flo': r[2], 'FC': r[1]})(b.flow_coef_bd(A)), inexact=('FC',))
    op('rich_club_wu', 'wu', lambda b, A, a: {'Rw': b.rich_club_wu(A)}, pre='has_edge')
    op('rich_club_wd', 'wd', lambda b, A, a: {'Rw': b.rich_club_wd(A)}, pre='has_edge')
    op('rich_club_bu', 'bu', lambda b, A, a: dict(zip(('R', 'Nk', 'Ek'), b.rich_club_bu(A))))
    op('rich_club_bd', 'bd', lambda b, A, a: dict(zip(('R', 'Nk', 'Ek'), b.rich_club_bd(A))))
    op('assortativity_bin', 'bu', lambda b, A, a: {'r': b.assortativity_bin(A, 0)}, args=((0,),), fmt=lambda a: ' flag=%d' % a[0], inexact=('r',))
    op('assortativity_bin', 'bd', lambda b, A, a: {'r': b.assortativity_bin(A, a[0])}, args=((1,), (2,), (3,), (4,), (5,)),
       fmt=lambda a: ' flag=%d' % a[0], inexact=('r',))
    op('assortativity_wei', 'wu', lambda b, A, a: {'r': b.assortativity_wei(A, 0)}, inexact=('r',))
    return O


OPS = _ops()


def corr_graphs(rs, tier):
    """(class, A) pairs: every labelled graph n <= 3, random n = 4..8, some structured"""
    out = []
    for n in (1, 2, 3):
        for dirc in (False, True):
            for A in all_graphs(n, dirc):
                out.append(A)
    for A in all_graphs(4, False):
        out.append(A)
    k = 12 if tier == 'quick' else 120
    for cls in ('bu', 'bd', 'wu', 'wd', 'su'):
        for _ in range(k):
            n = int(rs.randint(4, 9))
            A = rand_graph(rs, n, rs.choice([.2, .4, .6, .85]), cls[1] == 'd', wmax=1 if cls[0] == 'b' else int(rs.choice([2, 3, 5])), signed=cls[0] == 's')
            if rs.rand() < .25:
                A[0, :] = 0; A[:, 0] = 0
            out.append(A)
    for name, A in structured_graphs():
        if len(A) <= 8:
            out.append(A)
    return [(graph_class(A), A) for A in out]


def corr_case(item):
    oi, A, args = item
    o = OPS[oi]
    A = np.array(A, float)
    st, v = call(o['impl'], bct_mod(), A.copy(), args, t=5.0)
    if st == 'timeout':
        return None
    if st == 'exc':
        return {'error': exc_kind(v)}
    return {k: np.asarray(x, dtype=float).ravel().tolist() for k, x in v.items()}


def correspondence(ck):
    graphs = corr_graphs(ck.rs, ck.tier)
    items, lines = [], []
    for oi, o in enumerate(OPS):
        for cls, A in graphs:
            if cls not in ACCEPT[o['cls']]:
                continue
            if o['pre'] == 'has_edge' and not has_edge(A):
                continue            # np.max of an empty / all-zero degree vector: klevel = 0, nothing to compare
            for a in o['args']:
                ln = '%s n=%d R=%s%s' % (o['name'], len(A), mat_str(A), o['fmt'](a))
                if o['pre'] == 'ci':
                    ln += ' ci=' + ','.join(str(int(t)) for t in ci_of(A))
                items.append((oi, A.tolist(), a)); lines.append(ln)
    exps = pmap(corr_case, items)
    try:
        outs = run_driver('Measures', lines)
    except DriverError as e:
        ck.corr_break('Measures driver', str(e)); return
    nd, per = 0, {}
    for it, ln, ex, out in zip(items, lines, exps, outs):
        o = OPS[it[0]]
        per.setdefault(o['name'], [0, 0])
        if ex is None:
            ck.count('corr_timeouts'); continue
        per[o['name']][0] += 1
        why = _cmp(out, ex, {k: (k not in o['inexact']) for k in ex})
        if why is not None:
            nd += 1; per[o['name']][1] += 1
            if nd <= 8:
                ck.corr_break('Measures model vs bct.' + o['name'], {'line': ln[:400], 'model': out[:300], 'impl': str(ex)[:300], 'why': why})
    ck.cov['traces_validated_against_impl'] = sum(p[0] - p[1] for p in per.values())
    ck.cov['correspondence_per_op'] = {k: {'cases': v[0], 'disagreements': v[1]} for k, v in sorted(per.items())}
    ck.count('correspondence_cases', sum(p[0] for p in per.values())); ck.count('correspondence_disagreements', nd)


if __name__ == '__main__':
    main()
