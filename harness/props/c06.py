"""C06 — signed null models keep each node's positive/negative degree and all weights."""
import sys, math
from fractions import Fraction
from common import *  # noqa
sys.path.insert(0, os.path.join(VERIF, 'translate')); import cores  # noqa: E402
import seq_common as seqc

PID = 'C06'
ROUTINES = ['randmio_und_signed', 'randmio_dir_signed', 'null_model_und_sign', 'null_model_dir_sign']
UND = {'randmio_und_signed', 'null_model_und_sign'}
NULL = {'null_model_und_sign', 'null_model_dir_sign'}
# wei_freq grid: includes non-integer 1/wei_freq (.3, .7), the half-way cases 1/.4 = 2.5, 1/(2/3) = 1.5, 2/9, 2/49 (where the
# double 1/wei_freq and the exact quotient round differently) and the smallest value the claim covers (1e-18: the period
# 10^18 still fits an int64; below ~1.08e-19 np.round(1/wei_freq).astype(int) overflows - outside the claimed domain).
# The model gets the *double* wei_freq as an exact fraction and reproduces fl(1/wei_freq) and np.round itself.
FREQ_GRID = sorted([0, .1, .2, .25, .3, .4, .5, 2 / 3, .7, 1, 2 / 9, 2 / 49, 1e-18])   # 1e-19, 1e-30, 5e-324: family tiny-wei-freq


def freq_str(x):
    f = Fraction(float(x))
    return '%d/%d' % (f.numerator, f.denominator)


class NPProxy(object):
    """stands in for the `np` global of bct.algorithms.reference during one call and records what every
    np.argsort returned (the float-dependent order the Lean model takes as an oracle); /repo is not edited"""

    def __init__(self, real, log):
        object.__setattr__(self, '_real', real)
        object.__setattr__(self, '_log', log)

    def __getattr__(self, name):
        return getattr(self._real, name)

    def argsort(self, *a, **k):
        v = self._real.argsort(*a, **k)
        self._log.append([int(x) for x in np.asarray(v).ravel()])
        return v


ORDERS = ('C', 'F', 'T', 'S')
DTYPES = ('float64', 'int64', 'float32')


def represent(Wlist, rep):
    """the same logical matrix in another memory layout / dtype: C-contiguous, Fortran-ordered, a transposed view,
    or a non-contiguous slice of a larger array"""
    dt = np.dtype((rep or {}).get('dtype', 'float64')); order = (rep or {}).get('order', 'C')
    A = np.array(Wlist, dtype=dt); n = len(A)
    if order == 'F':
        return np.asfortranarray(A)
    if order == 'T':
        return np.ascontiguousarray(A.T).T
    if order == 'S':
        big = np.full((2 * n + 1, 2 * n + 1), 7, dtype=dt); big[1::2, 1::2] = A
        return big[1::2, 1::2]
    return A


def run_case(case):
    bct = import_bct()
    import bct.algorithms.reference as ref
    r = case['routine']; W = represent(case['W'], case.get('rep')); n = len(W)
    und = r in UND
    replay = case.get('replay', True)
    # large cases beyond the reach of the model replay are judged by the predicates only: plain seed, nothing recorded
    rec = Recorder(case['seed']) if replay else case['seed']
    W_before = W.copy()
    olog = []
    res = {'fails': [], 'oracle': olog}
    real_np = ref.np
    if replay:
        ref.np = NPProxy(real_np, olog)
    try:
        if r in NULL:
            st, out = call(getattr(bct, r), W, case['itr'], case['freq'], seed=rec, t=case.get('t', 5.0), retry=10)
        else:
            st, out = call(getattr(bct, r), W, case['itr'], seed=rec, t=case.get('t', 5.0), retry=10)
    finally:
        ref.np = real_np
    res['status'] = st; res['draws'] = rec.flat() if replay else []
    if not np.array_equal(W, W_before):
        res['fails'].append(('input-modified', {}))
    if st == 'exc':
        res['exc'] = out
        return res
    if st != 'ok':
        return res
    F = res['fails']
    if r in NULL:
        X, rr = out
        X = np.asarray(X, dtype=float)
        res['r'] = [float(x) for x in rr]
        Win = np.array(case['W'], dtype=float); np.fill_diagonal(Win, 0)       # the routine's documented first step
    else:
        X, eff = out
        X = np.asarray(X, dtype=float); res['eff'] = int(eff)
        Win = np.array(case['W'], dtype=float)
    res['X'] = X.tolist()
    res['integral'] = bool(np.all(X == np.round(X)))     # mat_str truncates: never compare a non-integer output as if it were one
    if case.get('malformed'):
        return res
    # ---- independent predicates of the property on the real output
    if X.shape != (n, n):
        F.append(('shape', {})); return res
    for name, a, b in (('pos-out-degree', (Win > 0).sum(1), (X > 0).sum(1)), ('neg-out-degree', (Win < 0).sum(1), (X < 0).sum(1)),
                       ('pos-in-degree', (Win > 0).sum(0), (X > 0).sum(0)), ('neg-in-degree', (Win < 0).sum(0), (X < 0).sum(0))):
        if not np.array_equal(a, b):
            F.append((name, {'input': a.tolist(), 'output': b.tolist()}))
    if sorted(Win[Win > 0].tolist()) != sorted(X[X > 0].tolist()):
        F.append(('pos-weight-multiset', {'input': sorted(Win[Win > 0].tolist()), 'output': sorted(X[X > 0].tolist())}))
    if sorted(Win[Win < 0].tolist()) != sorted(X[X < 0].tolist()):
        F.append(('neg-weight-multiset', {'input': sorted(Win[Win < 0].tolist()), 'output': sorted(X[X < 0].tolist())}))
    if np.any(np.diag(X) != 0):
        F.append(('diagonal', {}))
    if und and not np.array_equal(X, X.T):
        F.append(('symmetry', {}))
    if r not in NULL and (case['itr'] == 0 or res['eff'] == 0) and not np.array_equal(X, Win):
        F.append(('zero-rewirings-identity', {}))
    if r in NULL:
        exp = []
        for f, ax in ((lambda M: M * (M > 0), 0), (lambda M: M * (M > 0), 1), (lambda M: -M * (M < 0), 0), (lambda M: -M * (M < 0), 1)):
            exp.append(float(np.corrcoef(f(Win).sum(axis=ax), f(X).sum(axis=ax))[0, 1]))
        res['r_expected'] = exp
        for name, got, want in zip(('rpos_in', 'rpos_out', 'rneg_in', 'rneg_out'), res['r'], exp):
            if not ((math.isnan(got) and math.isnan(want)) or abs(got - want) <= 1e-9):
                F.append(('correlation', {'which': name, 'returned': got, 'recomputed': want}))
    return res


def lean_line(case, res):
    W = np.array(case['W']); n = len(W)
    s = '%s n=%d itr=%d R=%s draws=%s' % (case['routine'], n, case['itr'], mat_str(W), ','.join(map(str, res['draws'])) or '-')
    if case['routine'] in NULL:
        s += ' freq=%s oracle=%s' % (freq_str(case['freq']), ';'.join(','.join(map(str, o)) or '-' for o in res['oracle']) or '-')
    return s


def pearson(triple):
    c, vx, vy = (int(x) for x in triple.split(','))
    if vx * vy == 0:
        return float('nan')
    return c / math.sqrt(vx * vy)


def compare(case, res, out):
    """-> None if the model line agrees with the real run, else a description"""
    if res['status'] == 'exc':
        return None if out == 'error=' + exc_kind(res['exc']) else 'impl raised %s' % res['exc']
    d = kv(out)
    if not res.get('integral', True):
        return 'impl returned non-integer entries for integer input'
    if case['routine'] in NULL:
        if d.get('W0') != mat_str(np.array(res['X'])) or d.get('left') != '0' or d.get('oleft') != '0':
            return 'matrix / draws consumed differ'
        for key, got in zip(('rpi', 'rpo', 'rni', 'rno'), res['r']):
            if key not in d:
                return 'missing ' + key
            want = pearson(d[key])
            if not ((math.isnan(got) and math.isnan(want)) or abs(got - want) <= 1e-9):
                return 'correlation %s: impl %r model %r' % (key, got, want)
        return None
    exp = 'R=%s eff=%d left=0' % (mat_str(np.array(res['X'])), res['eff'])
    return None if out == exp else 'matrix / eff / draws consumed differ'


# ---------------------------------------------------------------- generators

def signed_graph(rs, n, dens, negfrac, und, wmax=9):
    A = (rs.rand(n, n) < dens).astype(float)
    A *= rs.randint(1, wmax + 1, size=(n, n))
    A *= np.where(rs.rand(n, n) < negfrac, -1, 1)
    np.fill_diagonal(A, 0)
    if und:
        A = np.triu(A, 1); A = A + A.T
    return A


def ternary_family(n, und):
    """every matrix with entries in {-1, 0, 1} (empty diagonal, symmetric if und) having a positive and a negative cell"""
    cells = [(i, j) for i in range(n) for j in range(n) if (i < j if und else i != j)]
    for vals in itertools.product((-1, 0, 1), repeat=len(cells)):
        if 1 not in vals or -1 not in vals:
            continue
        A = np.zeros((n, n))
        for (i, j), v in zip(cells, vals):
            A[i, j] = v
            if und:
                A[j, i] = v
        yield A


def circulant(rs, n, und):
    """regular sign pattern: every node has the same +/- degrees and strengths (maximal ties in the strength products)"""
    A = np.zeros((n, n)); w = float(rs.randint(1, 10))
    offs = list(range(1, (n - 1) // 2 + 1)) if und else list(range(1, n))
    for d in offs:
        sgn = rs.choice([-1, 0, 1], p=[.4, .2, .4])
        for i in range(n):
            A[i, (i + d) % n] = sgn * w
            if und:
                A[(i + d) % n, i] = sgn * w
    return A


def null_cfg(rs, c, big_itr=True):
    c['itr'] = int(rs.choice([0, 1, 2, 5] if big_itr else [0, 1]))
    c['freq'] = FREQ_GRID[int(rs.randint(len(FREQ_GRID)))] if rs.rand() < .8 else float(rs.uniform(.02, 1))   # off-grid doubles too
    return c


def gen_cases(rs, tier):
    big = tier == 'thorough'
    cases = []
    per = 30 if not big else 300
    for r in ROUTINES:
        und = r in UND

        def add(W, **kw):
            c = {'routine': r, 'W': W.tolist(), 'seed': int(rs.randint(2 ** 31))}
            c.update(kw)
            if r in NULL:
                null_cfg(rs, c, big_itr=len(W) <= 9)
            else:
                c.setdefault('itr', int(rs.choice([0, 1, 1, 2, 3])) if len(W) <= 9 else 1)
            c.update({k: v for k, v in kw.items() if k in ('itr', 'freq')})
            if rs.rand() < .4:      # representation axis: same logical matrix, other memory order / dtype
                c['rep'] = {'order': ORDERS[int(rs.randint(len(ORDERS)))], 'dtype': DTYPES[int(rs.choice([0, 0, 1, 2]))]}
                if c.get('family') == 'float-weights':
                    c['rep']['dtype'] = 'float64'       # int64 / float32 would be another logical matrix
            cases.append(c)
            return c

        # exhaustive small family: all ternary 4-node matrices (undirected: all 3^6; directed: a random slice of 3^12)
        if und:
            fam = list(ternary_family(4, True))
            if not big and r in NULL:
                fam = [fam[i] for i in rs.choice(len(fam), 250, replace=False)]
            for W in fam:
                add(W, family='ternary4')
        else:
            for _ in range(250 if not big else 3000):
                W = rs.randint(-1, 2, size=(4, 4)).astype(float); np.fill_diagonal(W, 0)
                if (W > 0).any() and (W < 0).any():
                    add(W, family='ternary4')
        # random integer-weight networks
        for n in range(4, 13):
            for _ in range(per if n <= 9 else max(3, per // 8)):
                dens = float(rs.choice([.3, .5, .8, 1.0])); neg = float(rs.choice([.2, .5, .8]))
                W = signed_graph(rs, n, dens, neg, und, wmax=int(rs.choice([1, 9, 9])))
                if not ((W > 0).any() and (W < 0).any()):
                    continue
                c = add(W)
                if r in NULL and rs.rand() < .15:   # non-empty input diagonal: the routine must clear it
                    Wd = np.array(c['W']); Wd[np.diag_indices(n)] = rs.randint(-3, 4, size=n); c['W'] = Wd.tolist()
        # regular patterns: all strengths equal -> every strength product ties
        for n in (5, 6, 8, 9):
            for _ in range(3 if not big else 12):
                W = circulant(rs, n, und)
                if (W > 0).any() and (W < 0).any():
                    add(W, family='circulant')
        # edge of the domain: every off-diagonal cell positive (binary stage skipped: Ap_r = Ap), only negative cells
        for n in (4, 5, 7, 9, 12):
            W = np.abs(signed_graph(rs, n, 1.0, 0, und))
            W[W == 0] = 1; np.fill_diagonal(W, 0)
            if und:
                W = np.triu(W, 1); W = W + W.T
            for fq in (.5, 1, 0, .3):
                add(W, itr=1, freq=fq, edge='all-positive')
            add(-W, itr=1, freq=1, edge='all-negative')
            # dense: all cells non-zero, a single negative connection -> the binary stage runs on an (almost) full positive support
            W1 = W.copy(); W1[0, 1] = -W1[0, 1]
            if und:
                W1[1, 0] = W1[0, 1]
            add(W1, edge='full-one-negative')
        # wei_freq at the bottom of (0, 1]: 1/wei_freq beyond int64 (and beyond float range) - a single sorting round
        if r in NULL:
            for fq in (1e-19, 1e-30, 5e-324):
                for n in (4, 6):
                    for _ in range(20):
                        W = signed_graph(rs, n, .8, .5, und)
                        if (W > 0).any() and (W < 0).any():
                            break
                    add(W, itr=int(rs.choice([0, 1, 5])), freq=fq, family='tiny-wei-freq')
        # real-valued weights (6+ decimals): judged by the predicates only, the weight multisets compared exactly as doubles
        for n in (4, 5, 7, 9, 12, 20):
            for _ in range(2):
                W = signed_graph(rs, n, float(rs.choice([.5, .9])), float(rs.choice([.3, .5])), und)
                W = W * rs.uniform(.001, 3.0, size=W.shape).round(9)
                if und:
                    W = np.triu(W, 1); W = W + W.T
                if (W > 0).any() and (W < 0).any():
                    add(W, family='float-weights', replay=False)
        # three nodes: no four distinct nodes exist, so nothing can be rewired; every 3-node ternary matrix with a + and a - cell
        fam3 = list(ternary_family(3, und))
        if not und and not big:
            fam3 = [fam3[i] for i in rs.choice(len(fam3), 40, replace=False)]
        for W in fam3:
            add(W, family='ternary3', **({'itr': int(rs.choice([0, 1, 5]))}))
        # asymmetric within np.allclose's relative tolerance: must be rejected like any other asymmetric input
        if r == 'null_model_und_sign':
            for n in (3, 4, 6):
                for _ in range(3):
                    W = signed_graph(rs, n, .8, .4, True) * 100000.0
                    nz = np.argwhere(np.triu(W, 1) != 0)
                    if len(nz) == 0:
                        continue
                    i, j = nz[rs.randint(len(nz))]
                    W[i, j] += np.sign(W[i, j])            # e.g. W[i,j] = 100001, W[j,i] = 100000
                    add(W, itr=1, freq=.5, malformed='asymmetric-within-rtol')
        # malformed stream: asymmetric input to the undirected routines (documented rejection / no claim)
        if und:
            for _ in range(6):
                n = int(rs.randint(4, 8)); W = signed_graph(rs, n, .7, .5, False)
                if np.array_equal(W, W.T):
                    continue
                add(W, itr=1, freq=.5, malformed='asymmetric')
    return cases


# sizes crossing thresholds an implementer might pick for a fast path (table sizes, > 64 / 500 / 1000 weights per sign, n**4 > 2**31)
SIZES_SMALL = (12, 16, 17, 32, 33)
SIZES_MID = (48, 64, 65, 100, 128, 129)
SIZES_BIG = (216, 217, 218, 219, 220, 256, 257)
REPLAY_MAX_N = {'quick': 33, 'thorough': 48}


def size_cases(rs, tier):
    """size axis: every routine at sizes around 12, 16/17, 32/33, 48, 64/65, 100, 128/129, 216-220, 256/257, dense enough to have
    > 64, > 500, > 1000 weights of each sign; judged by the predicates at any size, replayed by the model up to REPLAY_MAX_N"""
    big = tier == 'thorough'
    cases = []
    for r in ROUTINES:
        und = r in UND
        sizes = list(SIZES_SMALL) + list(SIZES_MID if (big or r in NULL) else rs.choice(SIZES_MID, 4, replace=False))
        sizes += list(SIZES_BIG) if big else [int(rs.choice(SIZES_BIG))] if r not in NULL or rs.rand() < .5 else []
        for n in sizes:
            n = int(n)
            for _ in range(2 if (n <= 129 and (big or (r in NULL and n >= 33))) else 1):
                dens = float(rs.choice([.5, .9, 1.0])); neg = float(rs.choice([.3, .5]))
                W = signed_graph(rs, n, dens, neg, und)
                c = {'routine': r, 'W': W.tolist(), 'seed': int(rs.randint(2 ** 31)), 'size': True, 't': 90.0,
                     'replay': n <= REPLAY_MAX_N[tier], 'itr': 1}
                if r in NULL:
                    c['itr'] = int(rs.choice([0, 1])) if n > 65 else int(rs.choice([0, 1, 2]))
                    # periods 1, 2, 3, 5, 10 and the single-argsort path; period 1 (one round per weight) only where it stays cheap
                    c['freq'] = [.1, .2, .3, .5, 0, 1][int(rs.randint(6 if n <= 65 else 5))]
                if rs.rand() < .3:
                    c['rep'] = {'order': ORDERS[int(rs.randint(len(ORDERS)))], 'dtype': DTYPES[int(rs.choice([0, 1, 2]))]}
                cases.append(c)
    return cases


def explicit_sequences(rs, tier):
    """short hand-written call sequences run in one fresh process each: sibling routines on equal-size inputs in mixed
    order, an option away from its default followed by the default"""
    seqs = []
    for n in ((4, 6, 8) if tier != 'thorough' else (4, 5, 6, 7, 8, 9, 10, 12)):
        def mk(r, **kw):
            und = r in UND
            for _ in range(50):
                W = signed_graph(rs, n, float(rs.choice([.6, .9, 1.0])), float(rs.choice([.3, .5])), und)
                if (W > 0).any() and (W < 0).any():
                    break
            c = {'routine': r, 'W': W.tolist(), 'seed': int(rs.randint(2 ** 31)), 'itr': 1, 'seq': True}
            if r in NULL:
                c['freq'] = .5
            c.update(kw)
            return c
        seqs.append([mk('null_model_dir_sign'), mk('null_model_und_sign')])
        seqs.append([mk('null_model_und_sign'), mk('null_model_dir_sign'), mk('null_model_und_sign', freq=0)])
        seqs.append([mk('randmio_dir_signed'), mk('null_model_dir_sign', freq=1), mk('randmio_und_signed'), mk('null_model_und_sign', freq=.1)])
        seqs.append([mk('null_model_und_sign', itr=0, freq=1), mk('null_model_und_sign', itr=5, freq=.1), mk('null_model_dir_sign', itr=0, freq=0),
                     mk('null_model_dir_sign', itr=5, freq=.1), mk('null_model_und_sign')])
        seqs.append([mk('randmio_und_signed', itr=3), mk('randmio_und_signed', itr=0), mk('randmio_dir_signed', itr=2), mk('randmio_dir_signed', itr=0)])
    return seqs


def gen_probes(rs, tier):
    """object-reuse probes (common.reuse_probe): same routine twice on the same array object re-weighted in place, a sibling
    routine called on the shared object in between, the returned array edited by the caller before the second call"""
    probes = []
    total = 52 if tier != 'thorough' else 500
    kinds = ('same', 'pair', 'edit-returned')
    while len(probes) < total:
        r = ROUTINES[len(probes) % 4]; und = r in UND
        n = int(rs.randint(4, 9))
        W = signed_graph(rs, n, .7, .5, und)
        if not ((W > 0).sum() >= 2 and (W < 0).sum() >= 2):
            continue
        nz = np.argwhere(W != 0); i, j = (int(x) for x in nz[rs.randint(len(nz))])
        newval = float(np.sign(W[i, j]) * (abs(W[i, j]) % 9 + 1))
        pr = {'probe': True, 'kind': kinds[(len(probes) // 4) % 3], 'routine': r, 'W': W.tolist(), 'cell': [i, j], 'newval': newval,
              'itr': int(rs.choice([0, 1, 2])), 'seed': int(rs.randint(2 ** 31))}
        if r in NULL:
            pr['freq'] = FREQ_GRID[int(rs.randint(len(FREQ_GRID)))]
        if pr['kind'] == 'pair':
            pr['other'] = [x for x in ROUTINES if (x in UND) == und and x != r][0]
        probes.append(pr)
    return probes


def run_probe(pr):
    bct = import_bct()
    r = pr['routine']; und = r in UND
    f = getattr(bct, r)
    tail = (pr['itr'], pr['freq']) if r in NULL else (pr['itr'],)
    if pr['kind'] == 'same':
        def fn(W, seed=None):
            return f(W, *tail, seed=seed)
    elif pr['kind'] == 'pair':
        g = getattr(bct, pr['other']); gtail = (1, .5) if pr['other'] in NULL else (1,)

        def fn(W, seed=None):
            g(W, *gtail, seed=seed)
            return f(W, *tail, seed=seed)
    else:
        def fn(W, seed=None):
            out = f(W, *tail, seed=seed)
            out[0][...] = out[0] + 1          # the caller edits the returned array in place
            return f(W, *tail, seed=seed)

    def mutate(args):
        W = args[0]; i, j = pr['cell']
        W[i, j] = pr['newval']
        if und:
            W[j, i] = pr['newval']
    return reuse_probe(fn, [np.array(pr['W'], dtype=float)], mutate, t=5.0, seed=pr['seed'])


PREDS = {'pos-out-degree', 'neg-out-degree', 'pos-in-degree', 'neg-in-degree', 'pos-weight-multiset', 'neg-weight-multiset',
         'diagonal', 'symmetry', 'zero-rewirings-identity', 'correlation', 'input-modified', 'shape'}


def main():
    ck = Check(PID)
    ck.cov['rule'] = ('cases = (routine, W, itr/bin_swaps, wei_freq, seed): every 4-node matrix with entries in {-1,0,1} having a + and a - cell (all 3^6 '
                      'symmetric ones; a random slice of the directed ones), random signed integer-weight networks (weights +-1..9 or +-1) n=4..12, '
                      'densities .3-1, negative fraction .2-.8, symmetric for the _und routines, regular circulant sign patterns (all strength products tie), '
                      'bin_swaps in {0,1,2,5}, wei_freq in {0,.1,.2,.25,.3,.4,.5,2/3,.7,1} (1/wei_freq non-integer and exactly half-way included), '
                      'all-positive (binary stage skipped) / all-negative / full-with-one-negative edge cases and an asymmetric malformed stream; '
                      'a representation axis (memory order C/F/transposed view/strided slice x dtype float64/int64/float32) on 40 % of the cases; '
                      'a size axis for all four routines: n around 12, 16/17, 32/33, 48, 64/65, 100, 128/129, 216-220, 256/257 with > 64 / 500 / 1000 weights per sign '
                      '(model replay up to n = 33 (48 thorough), the independent predicates alone beyond - counted under size-axis:*); '
                      'non-trivial = distinct case whose output differs from the input')
    ck.assumptions += ['inputs are integer-valued matrices (exact arithmetic in the dealing stage, exact comparison of outputs); 40 % of the cases are handed to bct in another '
                       'representation of the same logical matrix (Fortran order, transposed view, non-contiguous slice; int64 / float32) - the model and the predicates see the logical matrix',
                       'np.argsort results inside the null models are taken from the real run as an oracle (recorded through a proxy of the module global np, /repo unedited); '
                       'the model checks each is a permutation, which is all the theorems use',
                       'a call that hits the watchdog is re-tried once with 10x the budget; > 5 % timeouts or no normal return for a routine is a violation',
                       'history: the shuffled cases run in batches of 25, each batch sequentially in a fresh process, plus explicit sequences of sibling routines on '
                       'equal-size inputs; a failure is reported with the calls that preceded it in its process (replayed as history + case); '
                       'object-reuse probes (common.reuse_probe) on the same array object: re-weighted in place, shared with a sibling routine, returned array edited',
                       'wei_freq ranges over 0 and (0, 1] down to 5e-324; the model receives the double as an exact fraction and reproduces fl(1/wei_freq) and np.round (half to even) itself',
                       'a family of real-valued weights (9 decimals) is judged by the predicates only (the model is over integers): weight multisets are compared exactly as doubles',
                       'n < 4 (nothing can be rewired: the routines return their input, 6e1395a) and input asymmetric within np.allclose tolerance (rejected, e8bc00c) are generated and '
                       'compared with the model like every other case',
                       'randmio_*_signed are called on empty-diagonal input (property quantifier); the null models clear the diagonal themselves']
    # T-gen: re-extract the core update steps from /repo's current source (translate/cores.py); the generated
    # obligations say the extracted IR is the reference program whose interpreter is proved equal to the model
    ck.cov['cores'] = cores.generate(families=['util', 'nullm'])
    for p_ in ck.cov['cores']['problems']:
        ck.corr_break('core extractor (translate/cores.py)', p_)
    ok = ck.lean_gate(['BctVerif.Props.C06'], extra_modules=['BctVerif.Model.Signed'])
    ck.lean_gate([], gen_modules=['BctVerif.Gen.CoresUtil', 'BctVerif.Gen.CoresNull'])
    if ck.tier == 'thorough' and ok:
        ck.leanchecker(['BctVerif.Props.C06', 'BctVerif.Model.Signed'])
    if ck.replay:
        rp = json.load(open(ck.replay))
        probes = []
        if 'case' in rp and rp['case']['case'].get('probe'):
            batches, probes = [], [rp['case']['case']]
        elif 'case' in rp:            # a violation replay: the failing input preceded by the calls its process had made before
            batches = [seqc.replay_batch(rp)]
        else:                       # a 'no longer checks' replay: the correspondence cases named in it
            batches = [[b['detail']['case'] for b in rp.get('no_longer_checks', [])
                        if isinstance(b.get('detail'), dict) and 'case' in b['detail']]]
    else:
        # history across calls: shuffled batches, one fresh process per batch, plus explicit sequences
        sz = size_cases(ck.rs, ck.tier)
        sz = [sz[i] for i in ck.rs.permutation(len(sz))]
        # the (expensive) size cases form small batches of their own - mixed routines, big first - so that they spread over the workers
        sz.sort(key=lambda c: -len(c['W']))
        size_batches = [sz[i::max(1, len(sz) // 3)] for i in range(max(1, len(sz) // 3))]
        batches = seqc.make_batches(ck.rs, gen_cases(ck.rs, ck.tier), 25, size_batches + explicit_sequences(ck.rs, ck.tier))
        probes = gen_probes(ck.rs, ck.tier)
    cases, results, hist = seqc.run_batches(run_case, batches)
    ck.count('batches', len(batches)); ck.count('explicit_sequence_cases', sum(1 for c in cases if c.get('seq')))
    for pr, d in zip(probes, pmap(run_probe, probes)):
        ck.count('reuse_probe:' + pr['kind'])
        ck.case(nontrivial_key=digest(['probe', pr]))
        if d is not None:
            ck.violation(pr['routine'], 'result-depends-on-history', {'case': pr, 'probe': d}, {'routine': pr['routine']})
    lines, idx = [], []
    for n_, (c, r) in enumerate(zip(cases, results)):
        rt = c['routine']
        ck.count('routine:' + rt); ck.count('status:' + r['status']); ck.count('n=%d' % len(c['W']))
        if rt in NULL:
            ck.count('wei_freq=%.3g' % c['freq']); ck.count('bin_swaps=%d' % c['itr'])
        for tag in ('family', 'edge'):
            if c.get(tag):
                ck.count('%s:%s' % (tag, c[tag]))
        moved = r['status'] == 'ok' and r.get('X') != c['W']
        ck.case(sample={'routine': rt, 'W': c['W'], 'itr': c['itr'], 'freq': c.get('freq'), 'seed': c['seed'], 'eff': r.get('eff'), 'draws': len(r['draws'])} if moved else None,
                nontrivial_key=digest([rt, c['W'], c['itr'], c.get('freq'), r['draws']]) if moved else None)
        if r['status'] == 'timeout':
            continue
        rep = c.get('rep') or {}
        ck.count('rep:order=%s' % rep.get('order', 'C')); ck.count('rep:dtype=%s' % rep.get('dtype', 'float64'))
        cond = {'routine': rt, 'tiny_wei_freq': rt in NULL and 0 < c.get('freq', 0) < 1e-18}
        if c.get('malformed'):
            ck.count('malformed:' + c['malformed'])
            if rt == 'null_model_und_sign' and not (r['status'] == 'exc' and exc_kind(r['exc']) == 'BCTParamError'):
                ck.violation(rt, 'rejects-asymmetric', {'case': c, 'history': hist[n_], 'status': r['status'], 'exception': r.get('exc'),
                                                        'output': r.get('X')}, cond)
                continue        # accepted although asymmetric: already a violation; the model (exact symmetry test) rejects
        elif r['status'] == 'exc':
            ck.violation(rt, 'raises', {'case': c, 'history': hist[n_], 'exception': r['exc']}, cond)
            continue
        else:
            for pred, info in r['fails']:
                if pred in PREDS:
                    ck.violation(rt, pred, {'case': c, 'history': hist[n_], 'output': r.get('X'), 'r': r.get('r'), 'info': info}, cond)
        if c.get('size'):
            ck.count('size-axis:n=%d' % len(c['W'])); ck.count('size-axis:%s' % ('model-replay' if c.get('replay', True) else 'predicates-only'))
        if not c.get('replay', True):
            ck.count('predicates-only:%s' % (c.get('family') or 'size')); continue
        if cond['tiny_wei_freq'] and any(p_ in ('pos-weight-multiset', 'neg-weight-multiset') for p_, _ in r['fails']):
            continue            # open finding C06-wei-period-overflow: nothing dealt; the model (exact period) deals one round
        lines.append(lean_line(c, r)); idx.append(n_)
    # a routine that hangs or raises on (almost) every input must not pass silently
    for rt in ROUTINES:
        rr = [r for c, r in zip(cases, results) if c['routine'] == rt and not c.get('malformed')]
        nto = sum(r['status'] == 'timeout' for r in rr); nok = sum(r['status'] == 'ok' for r in rr)
        if rr and not ck.replay and (nto > 0.05 * len(rr) or nok == 0):
            ck.violation(rt, 'hangs-or-never-returns', {'cases': len(rr), 'timeouts': nto, 'normal_returns': nok}, {'routine': rt})
    if ok:
        try:
            outs = run_driver('Signed', lines)
            nd = 0
            for n_, o in zip(idx, outs):
                why = compare(cases[n_], results[n_], o)
                if why is not None:
                    nd += 1
                    if nd <= 5:
                        ck.corr_break('Signed model vs bct.' + cases[n_]['routine'], {'why': why, 'case': cases[n_], 'model': o[:400],
                                                                                      'impl': {k: results[n_].get(k) for k in ('X', 'eff', 'r', 'exc')}})
            ck.cov['traces_validated_against_impl'] = len(outs) - nd
            ck.count('correspondence_cases', len(outs)); ck.count('correspondence_disagreements', nd)
        except DriverError as e:
            ck.corr_break('Signed driver', str(e))
    ck.finish()


if __name__ == '__main__':
    main()
