"""C17 — thresholding and weight conversion keep exactly the documented entries."""
import sys, math
from fractions import Fraction as Fr
from common import *  # noqa
sys.path.insert(0, os.path.join(VERIF, 'translate')); import cores  # noqa: E402

PID = 'C17'
MODEL = 'BctVerif.Model.Thresh'
TP_PREDS = ('kept-count', 'strongest', 'diagonal', 'symmetry', 'entries', 'shape')


# ------------------------------------------------------------------ exact helpers (independent of bct)

def rat_str(x):
    x = Fr(x)
    return str(x.numerator) if x.denominator == 1 else '%d/%d' % (x.numerator, x.denominator)


def round_half_away(x):
    """exact round-half-away-from-zero of a Fraction"""
    x = Fr(x)
    r = (abs(x) + Fr(1, 2)).__floor__()
    return r if x >= 0 else -r


def to_float_mat(ws, n):
    A = np.array([float(Fr(w)) for w in ws], dtype=float).reshape(n, n)
    return A


def fmat(A):
    """float matrix -> list of exact Fractions (row-major); None where not finite"""
    out = []
    for x in np.asarray(A, dtype=float).ravel().tolist():
        out.append(None if (math.isnan(x) or math.isinf(x)) else Fr(x))
    return out


def frs_str(fs):
    return ','.join('nan' if f is None else rat_str(f) for f in fs) if fs else '-'


def same_bits(A, B):
    return A.shape == B.shape and A.dtype == B.dtype and A.tobytes() == B.tobytes()


def eq_nan(A, B):
    return A.shape == B.shape and bool(np.array_equal(A, B, equal_nan=True))


def is_close_exact(a, b):
    """np.isclose(a, b) with default tolerances, in exact rationals"""
    return abs(a - b) <= Fr(1e-8) + Fr(1e-5) * abs(b)        # the doubles NumPy uses, right-hand side exact (as the model)


# ------------------------------------------------------------------ copy-flag semantics (every function)

def copy_semantics(fname, f, A0, args, viol, det, t=5):
    """copy=True (and the default): argument bit-identical afterwards, result is another object not sharing memory;
    copy=False: the returned object `is` the argument and its content equals the copy=True result.
    Returns (status, result of the copy=True call)."""
    A = A0.copy()
    st, R = call(f, A, *args, copy=True, t=t, retry=10)
    if st == 'timeout':
        return st, None
    if st == 'exc':
        return st, R
    if not same_bits(A, A0):
        viol.append((fname, 'copy-true-argument-untouched', dict(det, after=frs_str(fmat(A))), {'copy': True}))
    if R is A or (isinstance(R, np.ndarray) and np.shares_memory(R, A)):
        viol.append((fname, 'copy-true-new-object', det, {'copy': True}))
    Ad = A0.copy()
    std, Rd = call(f, Ad, *args, t=t, retry=10)           # default must behave as copy=True
    if std == 'timeout' or std == 'exc':
        viol.append((fname, 'copy-default-outcome', dict(det, outcome=str(std) + ' ' + str(Rd)[:120]), {'copy': 'default'}))
    if std == 'ok' and (not same_bits(Ad, A0) or Rd is Ad or not eq_nan(Rd, R)):
        viol.append((fname, 'copy-default-is-true', det, {'copy': 'default'}))
    A2 = A0.copy()
    st2, R2 = call(f, A2, *args, copy=False, t=t, retry=10)
    if st2 == 'ok':
        if R2 is not A2:
            viol.append((fname, 'copy-false-returns-argument', det, {'copy': False}))
        if not eq_nan(A2, R):
            viol.append((fname, 'copy-false-argument-holds-result', dict(det, argument_after=frs_str(fmat(A2)), copy_true_result=frs_str(fmat(R))),
                         {'copy': False}))
    elif st2 == 'exc':
        viol.append((fname, 'copy-false-raises', dict(det, exception=R2), {'copy': False}))
    else:       # the copy=True call on the same input returned: a (10x re-tried) timeout here is a verdict
        viol.append((fname, 'copy-false-timeout', det, {'copy': False}))
    return st, R


# ------------------------------------------------------------------ threshold_proportional

_TP_MODE = {}


def tp_mode(bct):
    """which symmetry test the code under test applies: 'allclose' (tolerance) or 'exact' (np.array_equal, the proposed repair).
    Only selects which of the two modelled semantics the Lean model line is compared with; the property predicates never use it."""
    if 'm' not in _TP_MODE:
        st, R = call(bct.threshold_proportional, np.array([[0, 3e-9], [5e-9, 0]]), 1.0, t=5, retry=10)
        _TP_MODE['m'] = 'exact' if (st == 'ok' and R[1, 0] == 5e-9 and R[0, 1] == 3e-9) else 'allclose'
    return _TP_MODE['m']


def tp_oracle(A0, p, mode='allclose'):
    """independent preprocessing.  Two different things are computed and kept apart:
    * what the PROPERTY says about the exact input (`true_*`): the matrix is undirected only if it is exactly symmetric;
    * the branch the code takes (`sym`: np.array_equal; np.allclose if the probe finds the old tolerance test) - used only to build
      the Lean model line, which is compared where that verdict equals the model's exact-symmetry test."""
    n = len(A0)
    W0 = A0.copy()
    for i in range(n):
        W0[i, i] = 0.0
    F = [[Fr(W0[i, j]) for j in range(n)] for i in range(n)]
    exact_sym = all(F[i][j] == F[j][i] for i in range(n) for j in range(n))
    close_rat = all(is_close_exact(F[i][j], F[j][i]) for i in range(n) for j in range(n))
    close_np = bool(np.allclose(W0, W0.T))
    sym = exact_sym if mode == 'exact' else close_np
    W1 = W0.copy()
    if sym:
        for i in range(n):
            for j in range(i + 1):
                W1[i, j] = 0.0
    ud = 2 if sym else 1
    xf = (n * n - n) * float(p) / ud           # IEEE double evaluation of the documented count
    x = Fr(xf)
    x_exact = Fr(n * n - n) * Fr(float(p)) / ud
    en = round_half_away(x)
    nnz = sum(1 for i in range(n) for j in range(n) if W1[i, j] != 0)
    tud = 2 if exact_sym else 1
    ten = round_half_away(Fr((n * n - n) * float(p) / tud))
    tcells = [(i, j) for i in range(n) for j in range(n) if W0[i, j] != 0 and (i < j or not exact_sym)]
    return {'sym': sym, 'ud': ud, 'W1': W1, 'x': x, 'x_exact': x_exact, 'en': en, 'nnz': nnz, 'W0': W0, 'exact_sym': exact_sym,
            # the model tests exact symmetry (np.array_equal), as the code does since 98d0750
            'model_agrees_on_branch': exact_sym == sym, 'true_ud': tud, 'true_en': ten, 'true_cells': tcells,
            'near_symmetric_not_exact': close_np and not exact_sym}


def run_tp(case):
    """case: n, W (rat strings), ps (list of rat strings; each exactly a double), kind, model (bool)"""
    bct = import_bct()
    n = case['n']; A0 = to_float_mat(case['W'], n)
    out = {'viol': [], 'lean': [], 'evals': 0, 'keys': [], 'dist': {}, 'sample': None}
    d = out['dist']
    for ps in case['ps']:
        p = Fr(ps); pf = float(p)
        det = {'kind': 'tp', 'n': n, 'W': ','.join(case['W']), 'p': ps, 'matrix_kind': case['kind']}
        st, R = copy_semantics('threshold_proportional', bct.threshold_proportional, A0, (pf,), out['viol'], det)
        out['evals'] += 1
        if st == 'timeout':
            d['timeouts'] = d.get('timeouts', 0) + 1; continue
        if st == 'exc':
            out['viol'].append(('threshold_proportional', 'raises', dict(det, exception=R), {})); continue
        o = tp_oracle(A0, p, tp_mode(bct))
        half = (o['x'] * 2).denominator == 1 and o['x'].denominator == 2
        cond = {'branch': 'sym' if o['sym'] else 'asym', 'half': half, 'near_symmetric_not_exact': o['near_symmetric_not_exact']}
        if o['near_symmetric_not_exact']:
            d['near_symmetric_not_exact'] = d.get('near_symmetric_not_exact', 0) + 1
        det = dict(det, result=frs_str(fmat(R)), ud=o['ud'], x=rat_str(o['x']), en=o['en'], nnz_found=o['nnz'])
        d['branch:' + cond['branch']] = d.get('branch:' + cond['branch'], 0) + 1
        if half:
            d['p*count_on_.5'] = d.get('p*count_on_.5', 0) + 1
        if o['x'] != o['x_exact']:
            d['double_product_inexact'] = d.get('double_product_inexact', 0) + 1
        if not isinstance(R, np.ndarray) or R.shape != (n, n):
            out['viol'].append(('threshold_proportional', 'shape', det, cond)); continue
        # ---- the property, judged against the EXACT input (diagonal cleared), never against the code's own symmetry verdict:
        # an input that is not exactly symmetric is a directed matrix
        W1 = o['W1']; W0 = o['W0']
        nz = int(np.count_nonzero(R))
        want = o['true_ud'] * min(o['true_en'], len(o['true_cells']))
        if nz != want:
            out['viol'].append(('threshold_proportional', 'kept-count', dict(det, nonzero_cells=nz, expected=want), cond))
        if any(R[i, i] != 0 for i in range(n)):
            out['viol'].append(('threshold_proportional', 'diagonal', det, cond))
        if o['exact_sym'] and not all(R[i, j] == R[j, i] for i in range(n) for j in range(n)):
            out['viol'].append(('threshold_proportional', 'symmetry', det, cond))
        # entries: every output cell is 0 or the input cell
        bad = [(i, j) for i in range(n) for j in range(n) if R[i, j] != 0 and R[i, j] != W0[i, j]]
        if bad:
            out['viol'].append(('threshold_proportional', 'entries', dict(det, cells=bad[:4]), cond))
        # strongest: every kept connection is at least as strong as every dropped one (connections = nonzero off-diagonal input cells)
        conn = [(i, j) for i in range(n) for j in range(n) if W0[i, j] != 0]
        kept = [W0[c] for c in conn if R[c] != 0]
        dropped = [W0[c] for c in conn if R[c] == 0]
        if kept and dropped and min(kept) < max(dropped):
            out['viol'].append(('threshold_proportional', 'strongest', dict(det, weakest_kept=min(kept), strongest_dropped=max(dropped)), cond))
        work = [(i, j) for i in range(n) for j in range(n) if W1[i, j] != 0]
        tie = bool(kept and dropped and min(kept) == max(dropped))
        if tie:
            d['tie_at_cut'] = d.get('tie_at_cut', 0) + 1
        if o['en'] > o['nnz']:
            d['fewer_connections_than_requested'] = d.get('fewer_connections_than_requested', 0) + 1
        if kept and dropped:
            out['keys'].append(digest(['tp', case['W'], ps]))
            if out['sample'] is None:
                out['sample'] = {'function': 'threshold_proportional', 'n': n, 'W': ','.join(case['W']), 'p': ps, 'ud': o['ud'], 'en': o['en'],
                                 'nnz_found': o['nnz'], 'result': frs_str(fmat(R))}
        # correspondence line (the model is exact: only where the double product equals the exact product)
        if not o['model_agrees_on_branch']:
            d['model_skipped_symmetry_verdict_differs'] = d.get('model_skipped_symmetry_verdict_differs', 0) + 1
        if case['model'] and o['x'] == o['x_exact'] and o['model_agrees_on_branch']:
            vals = np.array([W1[c] for c in work])       # row-major, as np.where
            order = np.argsort(vals)[::-1] if len(vals) else []
            line = 'tprop n=%d W=%s p=%s order=%s' % (n, ','.join(case['W']), rat_str(p), ','.join(str(int(k)) for k in order) if len(vals) else '-')
            exp = 'R=%s ud=%d en=%d nnz=%d' % (frs_str(fmat(R)), o['ud'], o['en'], o['nnz'])
            out['lean'].append((line, exp, 'threshold_proportional'))
    return out


def run_tp_param(case):
    """p outside [0,1] must raise BCTParamError and leave the argument alone"""
    bct = import_bct()
    n = case['n']; A0 = to_float_mat(case['W'], n)
    out = {'viol': [], 'lean': [], 'evals': 0, 'keys': [], 'dist': {}, 'sample': None}
    for pf in case['pf']:
        for cp in (True, False):
            A = A0.copy()
            st, R = call(bct.threshold_proportional, A, pf, copy=cp, t=5, retry=10)
            out['evals'] += 1
            det = {'kind': 'tp_param', 'n': n, 'W': ','.join(case['W']), 'p': repr(pf), 'copy': cp}
            if st != 'exc' or exc_kind(R) != 'BCTParamError':       # includes a (10x re-tried) timeout: the rejection is immediate
                out['viol'].append(('threshold_proportional', 'param-error', dict(det, outcome=str(R)[:200]), {}))
            elif not same_bits(A, A0):
                out['viol'].append(('threshold_proportional', 'param-error-argument-untouched', det, {}))
        out['dist']['param_error_cases'] = out['dist'].get('param_error_cases', 0) + 1
        p = Fr(pf)
        out['lean'].append(('tprop n=%d W=%s p=%s order=-' % (n, ','.join(case['W']), rat_str(p)), 'error=BCTParamError', 'threshold_proportional'))
    return out


# ------------------------------------------------------------------ elementwise utilities

def run_el(case):
    """case: n, W (rat strings, signed), thrs (rat strings)"""
    bct = import_bct()
    n = case['n']; A0 = to_float_mat(case['W'], n); Ws = ','.join(case['W'])
    F = [Fr(w) for w in case['W']]
    out = {'viol': [], 'lean': [], 'evals': 0, 'keys': [], 'dist': {}, 'sample': None}
    V = out['viol']
    base = {'kind': 'el', 'n': n, 'W': Ws}
    anynz = any(f != 0 for f in F)

    def got(name, f, args, det):
        st, R = copy_semantics(name, f, A0, args, V, det)
        out['evals'] += 1
        if st == 'timeout':
            out['dist']['timeouts'] = out['dist'].get('timeouts', 0) + 1; return None
        if st == 'exc':
            V.append((name, 'raises', dict(det, exception=R), {})); return None
        if not isinstance(R, np.ndarray) or R.shape != (n, n):
            V.append((name, 'shape', det, {})); return None
        return R

    # threshold_absolute
    for ts in case['thrs']:
        thr = Fr(ts); det = dict(base, thr=ts)
        R = got('threshold_absolute', bct.threshold_absolute, (float(thr),), det)
        if R is None:
            continue
        exp = [F[i * n + j] if (i != j and F[i * n + j] >= thr) else Fr(0) for i in range(n) for j in range(n)]
        if fmat(R) != exp:
            V.append(('threshold_absolute', 'cellwise', dict(det, result=frs_str(fmat(R)), expected=frs_str(exp)),
                      {'entry_equals_thr': any(f == thr for f in F)}))
        if n <= 16:
            out['lean'].append(('tabs n=%d W=%s thr=%s' % (n, Ws, rat_str(thr)), 'R=' + frs_str(fmat(R)), 'threshold_absolute'))
        if any(e != 0 for e in exp) and exp != [F[i * n + j] if i != j else Fr(0) for i in range(n) for j in range(n)]:
            out['keys'].append(digest(['ta', case['W'], ts]))
    # binarize
    R = got('binarize', bct.binarize, (), base)
    if R is not None:
        exp = [Fr(1) if f != 0 else Fr(0) for f in F]
        if fmat(R) != exp:
            V.append(('binarize', 'cellwise', dict(base, result=frs_str(fmat(R))), {}))
        out['lean'].append(('binarize n=%d W=%s' % (n, Ws), 'R=' + frs_str(fmat(R)), 'binarize'))
    Rb = R
    # normalize
    R = got('normalize', bct.normalize, (), base)
    if R is not None:
        r = fmat(R)
        if not anynz:
            if not all(x is None for x in r):
                V.append(('normalize', 'all-zero-is-nan', dict(base, result=frs_str(r)), {}))
            out['lean'].append(('normalize n=%d W=%s' % (n, Ws), 'R=nan', 'normalize'))
        else:
            m = max(abs(f) for f in F)
            if any(x is None for x in r) or max(abs(x) for x in r) != 1:
                V.append(('normalize', 'max-magnitude-one', dict(base, result=frs_str(r)), {}))
            else:
                # proportional to the input: each cell is the correctly rounded quotient w / max|w| (exact when max|w| is a power of two)
                if [float(x) for x in r] != [float(f / m) for f in F]:
                    V.append(('normalize', 'proportional', dict(base, result=frs_str(r), max_abs=rat_str(m)), {}))
                if m.numerator & (m.numerator - 1) == 0 and m.denominator & (m.denominator - 1) == 0:
                    out['dist']['normalize_exact_power_of_two'] = out['dist'].get('normalize_exact_power_of_two', 0) + 1
                    if r != [f / m for f in F]:
                        V.append(('normalize', 'exact-dyadic', dict(base, result=frs_str(r)), {}))
            out['lean'].append(('normalize n=%d W=%s' % (n, Ws), ('float', [None if x is None else float(x) for x in r]), 'normalize'))
    Rn = R
    # invert
    R = got('invert', bct.invert, (), base)
    if R is not None:
        r = fmat(R)
        exp = [float(1 / f) if f != 0 else 0.0 for f in F]
        if any(x is None for x in r) or [float(x) for x in r] != exp:
            V.append(('invert', 'cellwise', dict(base, result=frs_str(r)), {}))
        else:
            st, R2 = call(bct.invert, R.copy(), t=5, retry=10)
            out['evals'] += 1
            if st == 'ok':
                if not np.allclose(R2, A0, rtol=1e-12, atol=0):
                    V.append(('invert', 'involution', dict(base, twice=frs_str(fmat(R2))), {}))
                pow2 = all(f == 0 or (abs(f).numerator & (abs(f).numerator - 1) == 0 and f.denominator & (f.denominator - 1) == 0) for f in F)
                if pow2:
                    out['dist']['invert_exact_powers_of_two'] = out['dist'].get('invert_exact_powers_of_two', 0) + 1
                    if not same_bits(R2 + 0.0, A0 + 0.0) or r != [1 / f if f != 0 else Fr(0) for f in F]:
                        V.append(('invert', 'exact-powers-of-two', dict(base, result=frs_str(r), twice=frs_str(fmat(R2))), {}))
            elif st == 'exc':
                V.append(('invert', 'raises', dict(base, exception=R2), {}))
        out['lean'].append(('invert n=%d W=%s' % (n, Ws), ('float', [None if x is None else float(x) for x in r]), 'invert'))
    Ri = R
    # weight_conversion
    for wcm, direct in (('binarize', Rb), ('normalize', Rn), ('lengths', Ri)):
        det = dict(base, wcm=wcm)
        R = got('weight_conversion', bct.weight_conversion, (wcm,), det)
        if R is None or direct is None:
            continue
        if not eq_nan(R, direct):
            V.append(('weight_conversion', 'dispatch', dict(det, result=frs_str(fmat(R)), direct=frs_str(fmat(direct))), {'wcm': wcm}))
        r = fmat(R)
        out['lean'].append(('wconv n=%d W=%s wcm=%s' % (n, Ws, wcm),
                            'R=nan' if (wcm == 'normalize' and not anynz) else ('float', [None if x is None else float(x) for x in r]), 'weight_conversion'))
    for wcm in case.get('bad_wcm', ()):
        for cp in (True, False):
            A = A0.copy()
            st, R = call(bct.weight_conversion, A, wcm, copy=cp, t=5, retry=10)
            out['evals'] += 1
            if st != 'exc' or not str(R).startswith('NotImplementedError'):   # includes a (10x re-tried) timeout
                V.append(('weight_conversion', 'unknown-command-raises', dict(base, wcm=wcm, copy=cp, outcome=str(R)[:200]), {}))
            elif not same_bits(A, A0):
                V.append(('weight_conversion', 'unknown-command-argument-untouched', dict(base, wcm=wcm, copy=cp), {}))
        if ' ' not in wcm and '=' not in wcm and wcm:
            out['lean'].append(('wconv n=%d W=%s wcm=%s' % (n, Ws, wcm), 'error=NotImplementedError', 'weight_conversion'))
    if anynz and any(f < 0 for f in F):
        out['keys'].append(digest(['el', case['W']]))
        if out['sample'] is None and Ri is not None:
            out['sample'] = {'function': 'invert/normalize/binarize/threshold_absolute', 'n': n, 'W': Ws, 'thrs': case['thrs'], 'invert': frs_str(fmat(Ri))}
    # the copy flag as the model states it (Thresh.withCopy): result content, argument content afterwards, aliasing bit
    if n <= 8:
        fl = lambda M: [None if x is None else float(x) for x in fmat(M)]
        thr0 = case['thrs'][0]
        for tag, f, args, extra in (('tabs', bct.threshold_absolute, (float(Fr(thr0)),), 'thr=%s' % rat_str(Fr(thr0))), ('binarize', bct.binarize, (), ''),
                                    ('normalize', bct.normalize, (), ''), ('invert', bct.invert, (), ''),
                                    ('wconv', bct.weight_conversion, ('lengths',), 'wcm=lengths'), ('wconv', bct.weight_conversion, ('normalize',), 'wcm=normalize')):
            for cp in (True, False):
                A = A0.copy()
                st, R = call(f, A, *args, copy=cp, t=5, retry=10)
                out['evals'] += 1
                if st != 'ok':
                    continue           # judged by copy_semantics above
                nan_all = (tag == 'normalize' or extra == 'wcm=normalize') and not anynz
                exp = ('callsem', None, None, None) if nan_all else ('callsem', fl(R), fl(A), int(R is A))
                out['lean'].append(('callsem n=%d W=%s fn=%s copy=%d %s' % (n, Ws, tag, int(cp), extra), exp, 'copy-flag:' + f.__name__))
                out['dist']['callsem_lines'] = out['dist'].get('callsem_lines', 0) + 1
    if n > 16:
        out['lean'] = []          # size axis: the interpreted driver is too slow for n >= 33 (Python predicates only)
        out['sample'] = None
    out['dist']['el_n=%d' % n] = 1
    return out


# ------------------------------------------------------------------ representation axis: memory layout x dtype x copy flag

LAYOUTS = ('C', 'F', 'T-view', 'stack3d-slice', 'column-slice')
DTYPES = ('float64', 'float32', 'int64')
SENT = 77        # fills the part of the base buffer that is not the argument


def make_arg(M, layout, dt):
    """(argument, base buffer): an n x n array with content M in the given memory layout / dtype.
    C: C-contiguous; F: Fortran order; T-view: transposed view of a C array; stack3d-slice: X[:, :, 1] of an n x n x 3 stack;
    column-slice: Y[:, ::2] of an n x 2n array.  Only 'C' is C-contiguous (`ravel()` of the others is a copy)."""
    M = np.array(M, dtype=dt); n = len(M)
    if layout == 'C':
        A = np.ascontiguousarray(M).copy(); return A, A
    if layout == 'F':
        A = np.asfortranarray(M).copy(order='F'); return A, A
    if layout == 'T-view':
        B = np.ascontiguousarray(M.T).copy(); return B.T, B
    if layout == 'stack3d-slice':
        X = np.full((n, n, 3), SENT, dtype=dt); X[:, :, 1] = M; return X[:, :, 1], X
    Y = np.full((n, 2 * n), SENT, dtype=dt); Y[:, ::2] = M; return Y[:, ::2], Y


def outside_untouched(layout, base):
    if layout == 'stack3d-slice':
        return bool((base[:, :, 0] == SENT).all() and (base[:, :, 2] == SENT).all())
    if layout == 'column-slice':
        return bool((base[:, 1::2] == SENT).all())
    return True


def tp_expected(F, n, p):
    """threshold_proportional for a matrix whose nonzero off-diagonal weights are pairwise distinct (up to exact symmetry):
    the result is then unique.  F: row-major Fractions, p: Fraction of the double."""
    G = [[Fr(0) if i == j else F[i * n + j] for j in range(n)] for i in range(n)]
    sym = all(G[i][j] == G[j][i] for i in range(n) for j in range(n))
    cells = [(i, j) for i in range(n) for j in range(n) if G[i][j] != 0 and (i < j or not sym)]
    cells.sort(key=lambda c: -G[c[0]][c[1]])
    en = round_half_away(Fr((n * n - n) * float(p) / (2 if sym else 1)))
    R = [[Fr(0)] * n for _ in range(n)]
    for (i, j) in cells[:max(en, 0)]:
        R[i][j] = G[i][j]
        if sym:
            R[j][i] = G[i][j]
    return R


def run_repr(case):
    """case: n, W (rat strings; integer-valued iff 'int' in dtypes), dtypes, thr, ps.  Every utility x layout x dtype x copy flag:
    copy=True leaves argument and base buffer bit-identical and returns a new object with the right content;
    copy=False returns the argument itself, which then holds the right content, the rest of the base buffer untouched."""
    bct = import_bct()
    n = case['n']; F = [Fr(w) for w in case['W']]; Ws = ','.join(case['W'])
    out = {'viol': [], 'lean': [], 'evals': 0, 'keys': [], 'dist': {}, 'sample': None}
    V = out['viol']
    M = [[F[i * n + j] for j in range(n)] for i in range(n)]
    Mf = [[float(x) for x in r] for r in M]
    amax = max(abs(f) for f in F)
    jobs = [('threshold_absolute', bct.threshold_absolute, (float(Fr(t)),), 'ta:' + t) for t in case['thrs']]
    jobs += [('threshold_proportional', bct.threshold_proportional, (float(Fr(pp)),), 'tp:' + pp) for pp in case['ps']]
    jobs += [('binarize', bct.binarize, (), 'bin'), ('normalize', bct.normalize, (), 'nrm'), ('invert', bct.invert, (), 'inv')]
    jobs += [('weight_conversion', bct.weight_conversion, (w,), 'wc:' + w) for w in ('binarize', 'normalize', 'lengths')]

    def expected(tag, dt):
        """independent recomputation in the argument's dtype -> ('val', array) | ('int-division',) | ('int-truncation', exact floats)"""
        E = np.array(Mf, dtype=dt)
        isint = dt == 'int64'
        if tag.startswith('ta:'):
            thr = Fr(tag[3:])
            return ('val', np.array([[M[i][j] if (i != j and M[i][j] >= thr) else 0 for j in range(n)] for i in range(n)], dtype=float).astype(dt))
        if tag.startswith('tp:'):
            R = tp_expected([Fr(x) for x in E.astype(float).ravel().tolist()], n, Fr(float(Fr(tag[3:]))))
            return ('val', np.array([[float(x) for x in r] for r in R], dtype=float).astype(dt))
        if tag in ('bin', 'wc:binarize'):
            return ('val', (E != 0).astype(dt))
        if tag in ('nrm', 'wc:normalize'):
            if isint:
                return ('int-division',)                      # `W /= m` on an integer array: NumPy refuses the in-place true division
            return ('val', (E / np.abs(E).max()).astype(dt))   # elementwise quotient, correctly rounded in dt
        ex = np.zeros((n, n), dtype=float if isint else dt)
        nz = E != 0
        ex[nz] = (1.0 / E[nz].astype(float)) if isint else (np.array(1, dtype=dt) / E[nz])
        if isint and any(f != 0 and (1 / f).denominator != 1 for f in F):
            return ('int-truncation', ex)                     # some 1/w is not an integer: an integer array cannot hold the result
        return ('val', ex.astype(dt))

    for fname, f, args, tag in jobs:
        for dt in case['dtypes']:
            ex = expected(tag, dt)
            for layout in LAYOUTS:
                for cp in (True, False):
                    A, base = make_arg(Mf, layout, dt)
                    A_before = A.copy(); base_before = base.copy()
                    st, R = call(f, A, *args, copy=cp, t=5, retry=10)
                    out['evals'] += 1
                    key = 'repr:%s:%s' % (layout, dt); out['dist'][key] = out['dist'].get(key, 0) + 1
                    cond = {'layout': layout, 'dtype': dt, 'copy': cp, 'c_contiguous': layout == 'C'}
                    det = {'kind': 'repr', 'n': n, 'W': Ws, 'function': fname, 'args': [str(a) for a in args], 'layout': layout, 'dtype': dt, 'copy': cp,
                           'thrs': case['thrs'], 'ps': case['ps']}
                    if st == 'timeout':
                        out['dist']['timeouts'] = out['dist'].get('timeouts', 0) + 1; continue
                    if ex[0] == 'int-division':
                        # legitimate rejection: must raise NumPy's casting error and leave the argument alone
                        if st == 'exc' and ('UFuncTypeError' in R or 'Cannot cast ufunc' in R or 'casting' in R.lower()):
                            out['dist']['int_inplace_division_rejected'] = out['dist'].get('int_inplace_division_rejected', 0) + 1
                            if not same_bits(np.ascontiguousarray(base), np.ascontiguousarray(base_before)):
                                V.append((fname, 'rejected-call-argument-untouched', det, cond))
                        else:
                            V.append((fname, 'int-division-outcome', dict(det, outcome=str(R)[:200]), cond))
                        continue
                    if st == 'exc':
                        V.append((fname, 'raises', dict(det, exception=R), cond)); continue
                    if not isinstance(R, np.ndarray) or R.shape != (n, n):
                        V.append((fname, 'shape', det, cond)); continue
                    if ex[0] == 'int-truncation':
                        # integer input whose inverse is not integral.  copy=True may return the exact float inverse (then everything is
                        # judged as usual); the only *known* defect is the silent truncation towards zero `W[E] = 1. / W[E]` performs on an
                        # integer array - accepted only if the content is exactly trunc(1/w); every other predicate stays in force.
                        trunc = np.trunc(ex[1]).astype(dt)
                        holder = R if cp else A
                        if eq_nan(np.asarray(holder, dtype=float), ex[1]) and holder.dtype.kind == 'f':
                            want = ex[1].astype(holder.dtype)
                        else:
                            if eq_nan(holder, trunc):
                                V.append((fname, 'int-dtype-truncates', dict(det, result=frs_str(fmat(holder)), exact=frs_str(fmat(ex[1]))),
                                          {'dtype': dt, 'copy': cp, 'result_is_truncation': True, 'some_inverse_not_integer': True}))
                            want = trunc          # anything that is neither the exact inverse nor its truncation fails the content predicates below
                    else:
                        want = ex[1]
                    if cp:
                        if not same_bits(np.ascontiguousarray(base), np.ascontiguousarray(base_before)):
                            V.append((fname, 'copy-true-argument-untouched', dict(det, after=frs_str(fmat(A))), cond))
                        if R is A or np.shares_memory(R, base):
                            V.append((fname, 'copy-true-new-object', det, cond))
                        if not eq_nan(R, want):
                            V.append((fname, 'layout-content', dict(det, result=frs_str(fmat(R)), expected=frs_str(fmat(want))), cond))
                    else:
                        if R is not A:
                            V.append((fname, 'copy-false-returns-argument', det, cond))
                        if not eq_nan(A, want):
                            V.append((fname, 'copy-false-argument-holds-result', dict(det, argument_after=frs_str(fmat(A)), expected=frs_str(fmat(want))), cond))
                        if not outside_untouched(layout, base):
                            V.append((fname, 'copy-false-base-buffer-outside-view-untouched', det, cond))
                    if layout != 'C' and not eq_nan(A_before, want):
                        out['keys'].append(digest(['repr', case['W'], tag, layout, dt, cp]))
    out['sample'] = {'function': 'representation axis', 'n': n, 'W': Ws, 'layouts': list(LAYOUTS), 'dtypes': case['dtypes']}
    return out


# ------------------------------------------------------------------ object reuse / call history (round 3)

def reuse_jobs(bct, thr, p):
    return {'threshold_absolute': lambda A, **k: bct.threshold_absolute(A, thr, **k),
            'threshold_proportional': lambda A, **k: bct.threshold_proportional(A, p, **k),
            'binarize': lambda A, **k: bct.binarize(A, **k), 'normalize': lambda A, **k: bct.normalize(A, **k),
            'invert': lambda A, **k: bct.invert(A, **k),
            'weight_conversion/binarize': lambda A, **k: bct.weight_conversion(A, 'binarize', **k),
            'weight_conversion/normalize': lambda A, **k: bct.weight_conversion(A, 'normalize', **k),
            'weight_conversion/lengths': lambda A, **k: bct.weight_conversion(A, 'lengths', **k)}


def run_reuse(case):
    """case: n, W (rat strings), sym, target, mode, copykw, seed.  common.reuse_probe under copy=True / default:
    mode 'edit-argument': W is changed in place between two calls on the same array object;
    mode 'edit-result': the array returned by the first call is overwritten in place, then the original argument is passed again;
    mode 'other-routine-between': another utility runs on the same object between the two calls.
    The second call must equal the call on fresh copies (a function of the argument's values, not of its history)."""
    bct = import_bct()
    rs = np.random.RandomState(case['seed'])
    n = case['n']; A = to_float_mat(case['W'], n)
    out = {'viol': [], 'lean': [], 'evals': 3, 'keys': [], 'dist': {}, 'sample': None}
    jobs = reuse_jobs(bct, case['thr'], case['p'])
    f = jobs[case['target']]; kw = dict(case['copykw'])
    held = {}

    def fn(M):
        if case['mode'] == 'other-routine-between' and held.get('n', 0) >= 1:
            jobs[case['other']](M, **kw)
        R = f(M, **kw)
        held['R'] = R; held['n'] = held.get('n', 0) + 1
        return R

    def mutate(args):
        M = args[0]
        if case['mode'] == 'edit-result':
            held['R'][...] = 7.5                      # the caller scribbles over what the first call returned
            return
        for e in range(2):
            i, j = (int(x) for x in rs.choice(n, 2, replace=False))
            w = float(rs.randint(0, 9)) / 4 * (1.0 if case['target'] == 'threshold_proportional' or rs.rand() < .6 else -1.0)
            if e == 0:
                w = float(np.abs(M).max()) * 2 + 0.25      # one edit always raises the largest magnitude (scale, order and support change)
            M[i, j] = w
            if case['sym']:
                M[j, i] = w
    before = A.copy()
    d = reuse_probe(fn, [A], mutate, t=5)
    key = 'reuse_probe:' + case['target'].split('/')[0]
    out['dist'][key] = 1
    fname = case['target'].split('/')[0]
    det = {'kind': 'reuse', 'n': n, 'W': ','.join(case['W']), 'target': case['target'], 'mode': case['mode'], 'other': case.get('other'),
           'copykw': case['copykw'], 'thr': case['thr'], 'p': case['p'], 'sym': case['sym'], 'seed': case['seed'], 'argument_at_second_call': frs_str(fmat(A))}
    if d is not None:
        out['viol'].append((fname, 'result-depends-on-history', dict(det, probe=d), {'mode': case['mode']}))
    if case['mode'] == 'edit-result' and not same_bits(A, before):
        out['viol'].append((fname, 'copy-true-argument-untouched', det, {'copy': True}))
    out['keys'].append(digest(['reuse', case['target'], case['mode'], case['W'], case['seed']]))
    return out


# ------------------------------------------------------------------ size axis and special values (round 4)

SIZE_NS = (9, 12, 16, 33, 65, 130)


def gen_size_cases(rs, quick):
    """threshold_proportional / elementwise cases for n = 9..130: > 64 candidate links (size-dependent fast paths), exactly 64 / 65 / 66
    links, ties everywhere, p rounding to 0 links, 1 link, all links, one below / above the number of links present."""
    tp, el = [], []
    for n in SIZE_NS:
        fams = ['all-equal', 'two-values', 'distinct'] if (not quick or n <= 33) else ['two-values']
        for sym in (True, False):
            cnt = (n * n - n) // (2 if sym else 1)
            for fam in fams:
                for links in ([64, 65, 66, None] if cnt >= 66 and n <= 16 else [None]):
                    M = [[Fr(0)] * n for _ in range(n)]
                    cells = [(i, j) for i in range(n) for j in range(n) if (i < j if sym else i != j)]
                    order = [cells[t] for t in rs.permutation(len(cells))]
                    use = order[:links] if links else [c for c in order if rs.rand() < (.9 if n <= 33 else .5)]
                    for t, (i, j) in enumerate(use):
                        w = Fr(1) if fam == 'all-equal' else Fr(int(rs.randint(1, 3))) if fam == 'two-values' else Fr(t + 1, 4)
                        M[i][j] = w
                        if sym:
                            M[j][i] = w
                    nl = len(use)
                    cand = [Fr(0), Fr(1, 2 ** 20), Fr(float(Fr(1, 4 * cnt))), Fr(float(Fr(1, cnt))), Fr(float(Fr(3, 2 * cnt))),
                            Fr(float(Fr(nl - 1, cnt))), Fr(float(Fr(nl, cnt))), Fr(float(Fr(min(nl + 1, cnt), cnt))), Fr(1, 2), Fr(1)]
                    ps = sorted(set(cand)) if (n <= 33 or not quick) else [Fr(0), Fr(float(Fr(1, 4 * cnt))), Fr(float(Fr(1, cnt))), Fr(float(Fr(nl, cnt))), Fr(1)]
                    tp.append({'n': n, 'W': [dy(M[i][j]) for i in range(n) for j in range(n)], 'ps': [dy(p) for p in ps if 0 <= p <= 1],
                               'kind': 'size/%s/%s/%s' % ('sym' if sym else 'asym', fam, links or 'dense'), 'model': n <= 12 and fam != 'distinct'})
        # elementwise utilities at this size: signed dyadic weights, largest magnitude exactly 1, ties
        for fam in ('unit-max', 'signed-ties') if (not quick or n <= 65) else ('unit-max',):
            vals = [Fr(-1), Fr(1), Fr(1, 2), Fr(-1, 4), Fr(0)] if fam == 'unit-max' else [Fr(-2), Fr(2), Fr(0), Fr(3)]
            W = [vals[int(rs.randint(len(vals)))] for _ in range(n * n)]
            W[1] = vals[0]
            el.append({'n': n, 'W': [dy(x) for x in W], 'thrs': [dy(Fr(1, 2)), dy(Fr(1))], 'bad_wcm': []})
    return tp, el


def run_special(case):
    """IEEE special values for every utility and both copy flags: -0.0 zeros, +-inf weights, largest magnitude exactly 1.0.
    Content is judged cell by cell against the routine's definition read in IEEE arithmetic (x != 0, x < thr, x / max|x|, 1 / x),
    together with the identity / aliasing / argument-untouched predicates.  case: n, kind, seed."""
    bct = import_bct()
    rs = np.random.RandomState(case['seed'])
    n = case['n']; kind = case['kind']
    out = {'viol': [], 'lean': [], 'evals': 0, 'keys': [], 'dist': {}, 'sample': None}
    V = out['viol']
    base = rs.choice([0.0, 0.5, -0.25, 1.0, -1.0, 0.125], size=(n, n))
    if kind == 'neg-zero':
        base[base == 0.0] = -0.0; base[0, 1] = 0.75
    elif kind == 'inf':
        base[0, 1] = np.inf; base[1, 0] = -np.inf if case['seed'] % 2 else np.inf; base[n - 1, 0] = np.inf
    elif kind == 'unit-max':
        base = np.clip(base, -1, 1); base[0, 1] = 1.0 if case['seed'] % 2 else -1.0
    elif kind == 'binary':
        base = (rs.rand(n, n) < .5).astype(float); base[0, 1] = 1.0
    thr = 0.5
    p = float(rs.randint(0, 65)) / 64
    nonneg = np.abs(base)
    def ta(E):
        R = E.copy(); R[np.eye(n, dtype=bool)] = 0; R[R < thr] = 0; return R
    def inv(E):
        R = E.copy(); nz = E != 0
        with np.errstate(all='ignore'):
            R[nz] = 1.0 / E[nz]
        return R
    def nrm(E):
        with np.errstate(all='ignore'):
            return E / np.abs(E).max()
    jobs = [('threshold_absolute', bct.threshold_absolute, (thr,), base, ta), ('binarize', bct.binarize, (), base, lambda E: np.where(E != 0, 1.0, E)),
            ('normalize', bct.normalize, (), base, nrm), ('invert', bct.invert, (), base, inv),
            ('weight_conversion', bct.weight_conversion, ('binarize',), base, lambda E: np.where(E != 0, 1.0, E)),
            ('weight_conversion', bct.weight_conversion, ('normalize',), base, nrm), ('weight_conversion', bct.weight_conversion, ('lengths',), base, inv)]
    if kind in ('unit-max', 'binary', 'neg-zero'):
        jobs.append(('threshold_proportional', bct.threshold_proportional, (p,), nonneg, None))
    for fname, f, args, M, exp in jobs:
        want = exp(M) if exp else None
        for cp in (True, False):
            A = M.copy(); A0 = M.copy()
            st, R = call(f, A, *args, copy=cp, t=10, retry=10)
            out['evals'] += 1
            out['dist']['special:' + kind] = out['dist'].get('special:' + kind, 0) + 1
            cond = {'special': kind, 'copy': cp}
            det = {'kind': 'special', 'n': n, 'special': kind, 'seed': case['seed'], 'function': fname, 'args': [str(a) for a in args], 'copy': cp,
                   'W': [repr(x) for x in M.ravel().tolist()] if n <= 6 else 'regenerated from (n, special, seed)'}
            if st == 'timeout':
                V.append((fname, 'timeout', det, cond)); continue
            if st == 'exc':
                V.append((fname, 'raises', dict(det, exception=R), cond)); continue
            if cp:
                if A.tobytes() != A0.tobytes():
                    V.append((fname, 'copy-true-argument-untouched', det, cond))
                if R is A or np.shares_memory(R, A):
                    V.append((fname, 'copy-true-new-object', det, cond))
                got = R
            else:
                if R is not A:
                    V.append((fname, 'copy-false-returns-argument', det, cond))
                got = A
            if want is not None:
                if not (got.shape == want.shape and np.array_equal(got, want, equal_nan=True)):
                    bad = np.argwhere(~((got == want) | (np.isnan(got) & np.isnan(want))))[:3].tolist()
                    V.append((fname, 'special-values-content', dict(det, cells=bad, got=[repr(float(got[i, j])) for i, j in bad],
                                                                    expected=[repr(float(want[i, j])) for i, j in bad]), cond))
            else:
                # threshold_proportional on a non-negative matrix with -0.0 zeros / unit maximum: count, entries, diagonal
                o = tp_oracle(M, Fr(p), tp_mode(bct))
                nzc = int(np.count_nonzero(got))
                wantc = o['true_ud'] * min(o['true_en'], len(o['true_cells']))
                W0 = o['W0']
                if nzc != wantc:
                    V.append((fname, 'kept-count', dict(det, nonzero_cells=nzc, expected=wantc, p=p), cond))
                if not np.all((got == 0) | (got == W0)):
                    V.append((fname, 'entries', dict(det, p=p), cond))
            out['keys'].append(digest(['special', kind, n, case['seed'], fname, args, cp]))
    return out


# ------------------------------------------------------------------ teachers_round

def run_round(xs):
    """xs: list of rat strings, each exactly a double"""
    import_bct()
    from bct.utils.miscellaneous_utilities import teachers_round
    out = {'viol': [], 'lean': [], 'evals': 0, 'keys': [], 'dist': {}, 'sample': None}
    for s in xs:
        x = Fr(s); xf = float(x)
        st, r = call(teachers_round, xf, t=2, retry=10)
        out['evals'] += 1
        det = {'kind': 'round', 'x': s, 'x_float': repr(xf)}
        if st != 'ok':
            out['viol'].append(('teachers_round', 'raises', dict(det, outcome=str(r)), {})); continue
        exp = round_half_away(x)
        halfway = (x * 2).denominator == 1 and x.denominator == 2
        # Python evaluates `x % 1` in doubles: for negative x it is fmod(x, 1) + 1, which can round
        mod_exact = Fr(xf % 1) == x - x.__floor__()
        if not isinstance(r, int) or r != exp:
            out['viol'].append(('teachers_round', 'half-away-from-zero', dict(det, result=repr(r), expected=exp, float_mod=repr(xf % 1)),
                                {'x': repr(xf), 'halfway': halfway, 'negative': x < 0, 'float_mod_exact': mod_exact}))
        if mod_exact:           # the model is exact: compared only where the double `x % 1` is
            out['lean'].append(('tround x=%s' % rat_str(x), 'r=%d' % r if isinstance(r, int) else 'r=?', 'teachers_round'))
        else:
            out['dist']['round_float_mod_inexact'] = out['dist'].get('round_float_mod_inexact', 0) + 1
        if halfway:
            out['keys'].append(digest(['round', s]))
            out['dist']['round_halfway'] = out['dist'].get('round_halfway', 0) + 1
    return out


# ------------------------------------------------------------------ input generators

def dy(x):
    """Fraction that is exactly a double -> rat string"""
    f = Fr(x)
    assert Fr(float(f)) == f, f
    return rat_str(f)


def gen_tp_mats(rs, n, quick):
    """(kind, W as list of Fractions row-major); non-negative weights"""
    mats = []

    def build(cellf, sym, diag=False):
        M = [[Fr(0)] * n for _ in range(n)]
        for i in range(n):
            for j in range(n):
                if i == j:
                    M[i][j] = Fr(int(rs.randint(1, 9))) if diag else Fr(0)
                elif sym and j < i:
                    M[i][j] = M[j][i]
                else:
                    M[i][j] = cellf()
        return [x for r in M for x in r]

    def alpha(vals, dens):
        return lambda: Fr(vals[int(rs.randint(len(vals)))]) if rs.rand() < dens else Fr(0)
    reps = 2 if quick else 6
    for _ in range(reps):
        for sym in (True, False):
            s = 'sym' if sym else 'asym'
            mats.append((s + '/ties-1-2', build(alpha([1, 2], .85), sym)))
            mats.append((s + '/ties-1-2-3/diag', build(alpha([1, 2, 3], .7), sym, diag=True)))
            mats.append((s + '/int-1-9', build(alpha(list(range(1, 10)), .8), sym)))
            mats.append((s + '/dyadic', build(alpha([Fr(k, 8) for k in range(1, 25)], .75), sym, diag=True)))
            mats.append((s + '/sparse', build(alpha([1, 2, 3, 4, 5], .25), sym)))
            mats.append((s + '/full-distinct', build(lambda: Fr(int(rs.randint(1, 4096)), 64), sym)))
            mats.append((s + '/binary', build(alpha([1], .6), sym)))
    # near-symmetric: lower = upper * (1 + 2^-20) passes np.allclose, lower = upper * (1 + 2^-10) does not
    for name, eps in (('near-sym-close', Fr(1, 2 ** 20)), ('near-sym-far', Fr(1, 2 ** 10))):
        W = build(alpha([1, 2, 3, 5], .8), True)
        for i in range(n):
            for j in range(i):
                W[i * n + j] = W[i * n + j] * (1 + eps)
        mats.append((name, W))
    # genuinely asymmetric matrices that np.allclose(W, W.T) nevertheless accepts (audit 3): tiny weights (every |a-b| < atol) and
    # large integers whose asymmetry stays within rtol.  The property treats them as directed; the predicates judge the exact input.
    for rep_ in range(1 if quick else 3):
        W = build(alpha(list(range(1, 10)), .8), False)
        mats.append(('asym-times-2^-40', [x / 2 ** 40 for x in W]))
        W = build(alpha([100000, 200000, 300000, 400000], .85), True)
        for i in range(n):
            for j in range(n):
                if i != j and W[i * n + j] != 0:
                    W[i * n + j] += int(rs.randint(0, 2))          # independent +0/+1 per cell: asymmetric, |a-b| <= 1 <= rtol*|b|
        mats.append(('asym-large-ints-within-rtol', W))
    if n == 3:
        mats.append(('audit3-drops-existing-creates-new', [Fr(x) for x in (0, 5e-9, 0, 0, 0, 0, 3e-9, 0, 0)]))
    if n == 2:
        mats.append(('audit3-keeps-weaker', [Fr(x) for x in (0, 3e-9, 5e-9, 0)]))
        mats.append(('audit3-closecell-boundary', [Fr(x) for x in (0, 0, 1e-8, 0)]))
    # one asymmetric entry in an otherwise symmetric matrix
    W = build(alpha([1, 2, 3], .9), True)
    i, j = 0, n - 1
    W[j * n + i] = W[i * n + j] + 1
    mats.append(('sym-but-one-cell', W))
    mats.append(('all-zero', [Fr(0)] * (n * n)))
    mats.append(('only-diagonal', [Fr(3) if i == j else Fr(0) for i in range(n) for j in range(n)]))
    return mats


def p_values(n, quick, rs):
    """p = k/64 for all k; exact and nearest-double p with p*count on .5 for both ud; a few decimal p"""
    ps = {dy(Fr(k, 64)) for k in range(65)}
    cnt = n * n - n
    for ud in (1, 2):
        for m in range(0, cnt // ud + 1):
            q = Fr(2 * m + 1, 2) * ud / cnt
            if 0 <= q <= 1:
                ps.add(rat_str(Fr(float(q))))          # the nearest double (exactly q when q is dyadic)
    for q in (.1, .2, .3, .05, .15, .25, 1 / 3, 2 / 3, .7, .9, .45, .55, 1e-9, 1 - 1e-9):
        ps.add(rat_str(Fr(q)))
    return sorted(ps, key=Fr)


def gen_el_mats(rs, n, quick):
    mats = []

    def draw(vals, dens, sym=False):
        M = [[(Fr(vals[int(rs.randint(len(vals)))]) if rs.rand() < dens else Fr(0)) for _ in range(n)] for _ in range(n)]
        if sym:
            for i in range(n):
                for j in range(i):
                    M[i][j] = M[j][i]
        return [x for r in M for x in r]
    reps = 2 if quick else 8
    for _ in range(reps):
        mats.append(draw([-3, -2, -1, 1, 2, 3], .8))
        mats.append(draw([-4, -2, -1, 1, 2, 4, 8, Fr(1, 2), Fr(-1, 4), Fr(1, 8)], .8))          # powers of two: invert / normalize exact
        mats.append(draw([Fr(k, 8) for k in range(-20, 21) if k], .7, sym=True))
        mats.append(draw([-7, -5, -3, 3, 5, 6, 7, 9, 10], .6))
        mats.append(draw([1, 2], .3))
    mats.append([Fr(0)] * (n * n))
    mats.append([Fr(-5)] * (n * n))
    return mats


def thr_values(F, rs):
    vals = sorted(set(F))
    t = {Fr(0), Fr(1), Fr(-1), Fr(1, 2), Fr(5, 2), Fr(-7, 4), Fr(100), Fr(-100)}
    for v in vals:
        t.add(v)                                     # threshold equal to an entry (the `<` vs `<=` boundary)
    if len(vals) >= 2:
        t.add((vals[0] + vals[-1]) / 2)
    return [dy(x) for x in sorted(t)]


def small_exhaustive(n, alphabet):
    cells = [(i, j) for i in range(n) for j in range(n) if i != j]
    for vals in itertools.product(alphabet, repeat=len(cells)):
        M = [Fr(0)] * (n * n)
        for (i, j), v in zip(cells, vals):
            M[i * n + j] = Fr(v)
        yield M


def round_inputs(rs, quick):
    xs = set()
    for k in range(-60, 61):
        xs.add(Fr(k, 2)); xs.add(Fr(k, 4))
    for m in list(range(-12, 13)) + [1000, -1000, 2 ** 40, -2 ** 40, 10 ** 15, -10 ** 15]:
        h = float(m) + .5
        for v in (h, np.nextafter(h, np.inf), np.nextafter(h, -np.inf)):
            xs.add(Fr(float(v)))
    for v in (1e-20, -1e-20, 5e-324, -5e-324, .49999999999999994, -.49999999999999994, 1e300, -1e300, 4503599627370495.5, -4503599627370495.5):
        xs.add(Fr(v))
    for _ in range(100 if quick else 2000):
        xs.add(Fr(float(rs.uniform(-50, 50))))
        xs.add(Fr(int(rs.randint(-400, 400)), 8))
    # C17 reaches teachers_round only through threshold_proportional, whose argument (n*n-n)*p/ud is never negative: the check judges the
    # real function on x >= 0 only (the model's theorems cover negative x as well; the one negative double on which the Python differs,
    # -0.49999999999999994, is mentioned in notes/C17.md and is outside the property)
    return [rat_str(x) for x in sorted(xs) if x >= 0]


MALFORMED = ['tprop n=3 W=0,1,1,0 p=1/2 order=0,1', 'tprop n=2 W=0,1,1,0 p=1/0 order=0', 'tprop n=2 W=0,1,1,0 order=0', 'tprop n=2 W=0,1,1,0 p=0.5 order=0',
             'tprop n=2 W=0,1,x,0 p=1/2 order=0', 'tprop n=2 W=0,1,1,0 p=1/2 order=a', 'tabs n=2 W=0,1,1,0', 'tabs n=2 W=0,1,1 thr=1',
             'binarize W=0,1,1,0', 'normalize n=two W=0,1,1,0', 'invert n=2', 'wconv n=2 W=0,1,1,0', 'tround', 'tround x=1/2/3', 'tround x=abc',
             'frobnicate n=2 W=0,1,1,0', '']


def gen_repr_cases(rs, quick):
    """matrices for the representation axis: pairwise distinct off-diagonal magnitudes (unique threshold_proportional result), signed or
    non-negative, symmetric and not, nonzero diagonal, some zero cells; integer-valued ones run in all three dtypes, dyadic ones in the float dtypes"""
    cases = []
    for n in (2, 3, 4, 5) if quick else (2, 3, 4, 5, 6, 7):
        for rep_ in range(3 if quick else 8):
            for intval in (True, False):
                for sym in (True, False):
                    m = n * n
                    mags = [int(x) for x in rs.permutation(np.arange(1, 4 * m))[:m]]
                    W = [[Fr(mags[i * n + j]) if intval else Fr(mags[i * n + j], 8) for j in range(n)] for i in range(n)]
                    signed = rep_ % 3 == 2           # signed matrices: every utility except threshold_proportional (non-negative domain)
                    for i in range(n):
                        for j in range(n):
                            if i != j and rs.rand() < .25:
                                W[i][j] = Fr(0)
                            elif signed and rs.rand() < .4:
                                W[i][j] = -W[i][j]
                    if sym:
                        for i in range(n):
                            for j in range(i):
                                W[i][j] = W[j][i]
                    flat = [W[i][j] for i in range(n) for j in range(n)]
                    offd = sorted({W[i][j] for i in range(n) for j in range(n) if i != j})
                    thrs = [dy(offd[len(offd) // 2]), dy(Fr(1, 2))] if offd else [dy(Fr(1, 2))]
                    cnt = (n * n - n) // (2 if sym else 1)
                    ps = [] if signed else [dy(Fr(int(rs.randint(1, 64)), 64)), dy(Fr(1, 2))]
                    cases.append({'n': n, 'W': [dy(x) for x in flat], 'dtypes': list(DTYPES) if intval else ['float64', 'float32'], 'thrs': thrs, 'ps': ps})
    return cases


def chunks(xs, k):
    return [xs[i:i + k] for i in range(0, len(xs), k)]


# ------------------------------------------------------------------ main

def main():
    ck = Check(PID)
    quick = ck.tier == 'quick'
    ck.cov['rule'] = ('threshold_proportional cases = (matrix, p): n=2..8, symmetric and asymmetric non-negative matrices with few distinct weights (ties), '
                      'integer 1..9, dyadic k/8, sparse support, full distinct, binary, nonzero diagonal, near-symmetric within / outside the np.allclose tolerance, '
                      'one asymmetric cell, all-zero, only-diagonal; p = k/64 for k=0..64, the (nearest double of the) p with p*count on .5 for ud=1 and 2, decimal p; '
                      'thorough tier: every n<=3 matrix with empty diagonal over {0,1,2,3} (n=3) / {0,1,2,3,5} (n=2) x all p=k/64 (model on every 8th for n=3). Elementwise utilities on signed integer/dyadic/power-of-two '
                      'matrices, thresholds incl. every entry value; copy=True/default/False on every call; representation axis: every utility x memory layout {C, Fortran, transposed view, slice X[:,:,1] of a 3-D stack, column slice Y[:,::2]} x dtype {float64, float32, int64} x copy flag on matrices with pairwise distinct weights; teachers_round on k/2, k/4 grids, .5 +- ulp, extremes. '
                      'non-trivial = distinct (matrix, p) where threshold_proportional kept some and dropped some connections; (matrix, thr) where threshold_absolute '
                      'removed some but not all off-diagonal entries; signed nonzero matrices for the elementwise utilities; exact half-way points for teachers_round')
    ck.assumptions += ['square matrices; the exact predicates and the model use float64, the representation axis adds float32 and int64 (int64: `normalize` must raise NumPy\'s casting error; `invert` silently truncates 1/w - known finding)',
                       'threshold_proportional on non-negative matrices (property quantifier); weights are small integers or dyadic rationals so that every comparison is exact',
                       'the documented count round(p * count) is evaluated as the IEEE double expression (n*n-n)*p/ud and rounded half away from zero exactly; '
                       'the Lean model is compared only where that double product is exact',
                       'NumPy argsort tie order is an oracle input of the model, recomputed by the harness on its own preprocessed copy',
                       'the code\'s np.array_equal(W, W.T) branch test is modelled as exact symmetry; the property predicates are judged against the exact input: a matrix that is not exactly symmetric is directed (families within the old np.allclose tolerance are generated on purpose)']
    ck.trusted = TRUSTED_DEFAULT + ['IEEE-754: w/m and 1/w are correctly rounded, so float(exact model value) must equal the NumPy result bit for bit']
    # T-gen: re-extract the core update steps from /repo's current source (translate/cores.py); the generated
    # obligations say the extracted IR is the reference program whose interpreter is proved equal to the model
    ck.cov['cores'] = cores.generate(families=['util', 'pinutil'])
    for p_ in ck.cov['cores']['problems']:
        ck.corr_break('core extractor (translate/cores.py)', p_)
    ok = ck.lean_gate(['BctVerif.Props.C17'], extra_modules=[MODEL])
    ck.lean_gate([], gen_modules=['BctVerif.Gen.CoresUtil', 'BctVerif.Gen.CoresPinUtil'])
    if ck.tier == 'thorough' and ok:
        ck.leanchecker(['BctVerif.Props.C17', MODEL])
    rs = ck.rs
    tp_cases, par_cases, el_cases, rd_cases, rp_cases, ru_cases, sp_cases = [], [], [], [], [], [], []
    if ck.replay:
        rp = json.load(open(ck.replay)); c = rp['case']
        if c.get('kind') == 'tp':
            tp_cases.append({'n': c['n'], 'W': c['W'].split(','), 'ps': [c['p']], 'kind': c.get('matrix_kind', 'replay'), 'model': True})
        elif c.get('kind') == 'tp_param':
            par_cases.append({'n': c['n'], 'W': c['W'].split(','), 'pf': [float(c['p'])]})
        elif c.get('kind') == 'el':
            F = [Fr(w) for w in c['W'].split(',')]
            el_cases.append({'n': c['n'], 'W': c['W'].split(','), 'thrs': [c['thr']] if 'thr' in c else thr_values(F, rs), 'bad_wcm': ['invert']})
        elif c.get('kind') == 'round':
            rd_cases.append([c['x']])
        elif c.get('kind') == 'special':
            sp_cases.append({'n': c['n'], 'kind': c['special'], 'seed': c['seed']})
        elif c.get('kind') == 'reuse':
            for sd in [c['seed']] + list(range(20)):
                ru_cases.append({'n': c['n'], 'W': c['W'].split(','), 'sym': c['sym'], 'target': c['target'], 'mode': c['mode'], 'other': c.get('other'),
                                 'copykw': c['copykw'], 'thr': c['thr'], 'p': c['p'], 'seed': sd})
        elif c.get('kind') == 'repr':
            rp_cases.append({'n': c['n'], 'W': c['W'].split(','), 'dtypes': [c['dtype']], 'thrs': c['thrs'], 'ps': c['ps']})
    else:
        for n in range(2, 9):
            ps = p_values(n, quick, rs)
            for kind, W in gen_tp_mats(rs, n, quick):
                ws = [dy(x) for x in W]
                for pc in chunks(ps, 24):
                    tp_cases.append({'n': n, 'W': ws, 'ps': pc, 'kind': kind, 'model': True})
            par_cases.append({'n': n, 'W': [dy(x) for x in gen_tp_mats(rs, n, True)[0][1]], 'pf': [-.1, 1.5, -1e-9, 1 + 1e-9, 2.0, -1.0, 1e9]})
            for W in gen_el_mats(rs, n, quick):
                el_cases.append({'n': n, 'W': [dy(x) for x in W], 'thrs': thr_values(W, rs), 'bad_wcm': ['invert', 'Binarize', 'length', 'normalise']})
        if not quick:
            k64 = [dy(Fr(k, 64)) for k in range(65)]
            for n, alphabet in ((2, (0, 1, 2, 3, 5)), (3, (0, 1, 2, 3))):
                for mi, W in enumerate(small_exhaustive(n, alphabet)):
                    tp_cases.append({'n': n, 'W': [dy(x) for x in W], 'ps': k64, 'kind': 'exhaustive-n%d' % n, 'model': n == 2 or mi % 8 == 0})
            for W in small_exhaustive(2, (-2, -1, 0, 1, Fr(1, 2), 2)):
                for dg in ((0, 0), (3, -1)):
                    W2 = list(W); W2[0] = Fr(dg[0]); W2[3] = Fr(dg[1])
                    el_cases.append({'n': 2, 'W': [dy(x) for x in W2], 'thrs': thr_values(W2, rs), 'bad_wcm': ['invert']})
        rd_cases = chunks(round_inputs(rs, quick), 50)
        rp_cases = gen_repr_cases(rs, quick)
        # round 4: size axis (n = 9 .. 130, 64 / 65 / 66 links, ties, p -> 0 / 1 / all links) and IEEE special values
        stp, sel = gen_size_cases(rs, quick)
        for c in stp:
            for pc in chunks(c['ps'], 5):
                tp_cases.append(dict(c, ps=pc))
        el_cases += sel
        ck.count('size_axis_tp_matrices', len(stp)); ck.count('size_axis_el_matrices', len(sel))
        for kind in ('neg-zero', 'inf', 'unit-max', 'binary'):
            for n in (2, 3, 5) + (SIZE_NS if not quick else (9, 16, 65)):
                for r_ in range(2 if quick else 6):
                    sp_cases.append({'n': n, 'kind': kind, 'seed': int(rs.randint(2 ** 31))})
        # round 3: object-reuse probes, every utility x {edit the argument, edit the returned array, another utility in between}
        targets = ['threshold_absolute', 'threshold_proportional', 'binarize', 'normalize', 'invert',
                   'weight_conversion/binarize', 'weight_conversion/normalize', 'weight_conversion/lengths']
        modes = ['edit-argument', 'edit-result', 'other-routine-between']
        for q in range(72 if quick else 600):
            n = int(rs.randint(2, 7)); sym = bool(rs.rand() < .5)
            M = [[Fr(int(rs.randint(0, 9)), 4) for _ in range(n)] for _ in range(n)]
            if sym:
                for i in range(n):
                    for j in range(i):
                        M[i][j] = M[j][i]
            tg = targets[q % len(targets)]
            ru_cases.append({'n': n, 'W': [dy(M[i][j]) for i in range(n) for j in range(n)], 'sym': sym, 'target': tg,
                             'mode': modes[(q // len(targets)) % 3], 'other': targets[int(rs.randint(len(targets)))],
                             'copykw': {} if q % 2 else {'copy': True}, 'thr': float(rs.randint(1, 8)) / 4, 'p': float(rs.randint(1, 64)) / 64,
                             'seed': int(rs.randint(2 ** 31))})
    ck.count('tp_matrix_chunks', len(tp_cases)); ck.count('elementwise_matrices', len(el_cases)); ck.count('round_chunks', len(rd_cases))
    for c in tp_cases:
        ck.count('tp_kind:' + c['kind'].split('/')[0]); ck.count('n=%d' % c['n'])
    results = []
    for fn, cs in ((run_tp, tp_cases), (run_tp_param, par_cases), (run_el, el_cases), (run_round, rd_cases), (run_repr, rp_cases), (run_reuse, ru_cases), (run_special, sp_cases)):
        cs = [cs[i] for i in rs.permutation(len(cs))]        # workers interleave matrices, sizes and options
        results += pmap(fn, cs)
    items = []
    for r in results:
        ck.merge_counts(r['evals'], r['keys'], r['dist'], [r['sample']] if r['sample'] else [])
        for func, pred, det, cond in r['viol']:
            ck.violation(func, pred, det, cond)
        items += r['lean']
    # ---- timeouts are bounded, not merely counted: these utilities are loop-free, so a watchdog hit on more than
    # max(2, 0.1 %) of the calls means a routine stopped returning (common.Check additionally reports any routine
    # that never returned normally)
    nto = ck.dist.get('timeouts', 0)
    if nto > max(2, ck.cov['evaluations'] // 1000):
        ck.breaks.append({'kind': 'liveness', 'what': 'too many watchdog timeouts', 'timeouts': nto, 'evaluations': ck.cov['evaluations']})
    # ---- correspondence: the Lean model on the same inputs (order oracle supplied by the harness)
    if ok:
        try:
            lines = [it[0] for it in items]
            # the interpreted driver is single-threaded: run it on 6 slices in parallel (order preserved)
            from concurrent.futures import ThreadPoolExecutor
            allin = lines + MALFORMED
            nch = 6 if len(allin) > 600 else 1
            sz = (len(allin) + nch - 1) // nch
            with ThreadPoolExecutor(nch) as ex:
                parts = list(ex.map(lambda ch: run_driver('Thresh', ch, timeout=2400), [allin[i:i + sz] for i in range(0, len(allin), sz)]))
            outs = [o for pt in parts for o in pt]
            nd = 0
            for (line, exp, fname), o in zip(items, outs[:len(lines)]):
                if isinstance(exp, tuple) and exp[0] == 'callsem':
                    # the observable outcome of one call: result content, content of the caller's array afterwards, `is`-identity
                    try:
                        d_ = kv(o)
                        if exp[1] is None:
                            good = o == 'R=nan'
                        else:
                            fl = lambda t: [None if x == 'nan' else float(Fr(x)) for x in t.split(',')]
                            good = fl(d_['R']) == exp[1] and fl(d_['A']) == exp[2] and int(d_['alias']) == exp[3]
                    except Exception:
                        good = False
                elif isinstance(exp, tuple):      # ('float', values): the exact model value converted to double must equal the NumPy double
                    try:
                        body = kv(o)['R']
                        got = [None if t == 'nan' else float(Fr(t)) for t in body.split(',')]
                        good = got == exp[1]
                    except Exception:
                        good = False
                else:
                    good = (o == exp)
                ck.count('corr:' + fname)
                if not good:
                    nd += 1
                    if nd <= 5:
                        ck.corr_break('Thresh model vs bct.' + fname, {'line': line[:700], 'model': o[:500], 'impl': str(exp)[:500]})
            for ln, o in zip(MALFORMED, outs[len(lines):]):
                ck.count('malformed_lines')
                if o != 'error=protocol':
                    nd += 1
                    ck.corr_break('Thresh driver accepted a malformed line', {'line': ln, 'model': o})
            ck.cov['traces_validated_against_impl'] = len(lines) - min(nd, len(lines))
            ck.count('correspondence_cases', len(lines)); ck.count('correspondence_disagreements', nd)
        except DriverError as e:
            ck.corr_break('Thresh driver', str(e))
    ck.cov['exhaustive'] = False
    ck.finish()


if __name__ == '__main__':
    main()
