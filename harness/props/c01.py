import subprocess
"""C01 — degree-preserving rewiring keeps every node's degree and the weight multiset."""
import sys
from common import *  # noqa
sys.path.insert(0, os.path.join(VERIF, 'translate')); import cores  # noqa: E402
import rewire_common as rc
import randbin_corr
sys.path.insert(0, os.path.join(VERIF, 'translate')); import kernels

PID = 'C01'
PREDS = {'out-degree', 'in-degree', 'weight-multiset', 'diagonal', 'symmetry', 'out-strength',
         'zero-rewirings-identity', 'latt-reindex', 'input-modified'}


def cond_of(case, res):
    return {'routine': case['routine']}


def reuse_case(c):
    """same array object: call, exchange two weights in place (keeps the domain), call again; compare with fresh copies"""
    bct = import_bct()
    r = c['routine']; A = np.array(c['A'], dtype=float)
    fn = getattr(bct, r)

    def mutate(args):
        M = args[0]; nz = np.argwhere(M != 0)
        if len(nz) >= 2:
            (i, j), (k, l) = nz[0], nz[-1]
            if r in rc.UND:
                M[i, j], M[k, l] = M[k, l], M[i, j]; M[j, i] = M[i, j]; M[l, k] = M[k, l]
            else:
                M[i, j], M[k, l] = M[k, l] + 1, M[i, j] + 1
    kwargs = {}
    if r in rc.LAT and c.get('D') is not None:
        kwargs['D'] = np.array(c['D'], dtype=float)
    return reuse_probe(fn, [A, c['itr']], mutate, kwargs=kwargs, t=6.0, seed=c['seed'])


def main():
    ck = Check(PID)
    ck.cov['rule'] = ('cases = (routine, matrix, itr/maxswap/alpha, seed) from: every labelled 4-node graph with two vertex-disjoint edges '
                      '(a random slice of them in the quick tier), random graphs n=5..10(14) at densities .15-.8, spanning-tree/cycle plus chords, '
                      'weights 1 or 1..9, custom D for latticisers, masks for partial_und; non-trivial = distinct case in which the real routine '
                      'performed at least one rewiring (eff>0 / output differs from input)')
    ck.assumptions += ['inputs have an empty diagonal and two vertex-disjoint edges (property quantifier)',
                       'a call that hits the watchdog is re-run with ten times the time and a second timeout is the violation does-not-return, except randomize_graph_partial_und on a mask that overlaps the network (it may legitimately run out of admissible swaps; counted)']
    # T-gen: re-extract the literal swap kernels from /repo's current source; their obligations are gated
    # separately so that a failing generated obligation does not hide the correspondence result
    ck.cov['kernels'] = kernels.generate()
    for p_ in ck.cov['kernels']['problems']:
        ck.corr_break('kernel extractor (translate/kernels.py)', p_)
    # T-gen source pins (translate/cores.py): rename-tolerant normalised bodies of the routines this check covers that have no interpreted tie
    ck.cov['cores'] = cores.generate(families=['pinrew'])
    for p_ in ck.cov['cores']['problems']:
        ck.corr_break('core extractor (translate/cores.py)', p_)
    ok = ck.lean_gate(['BctVerif.Props.C01', 'BctVerif.Props.C01Kernel', 'BctVerif.Props.C01RandBin'],
                      extra_modules=['BctVerif.Model.Rewire', 'BctVerif.Model.Kernel', 'BctVerif.Model.RandBin'])
    ck.lean_gate([], gen_modules=['BctVerif.Gen.Kernels', 'BctVerif.Gen.CoresPinRewire'])
    if ck.tier == 'thorough':
        # translator self-test (every listed mutant must fail its obligation, every listed harmless edit must pass)
        st_ = subprocess.run(['/venv/bin/python', os.path.join(VERIF, 'translate', 'kernels_selftest.py')], capture_output=True, text=True, timeout=3000,
                             env=dict(os.environ, BCT_LEAN=LEAN, BCT_REPO=REPO))
        ck.cov['translator_selftest'] = (st_.stdout.strip().split('\n') or [''])[-1][:200]
        if st_.returncode != 0:
            ck.corr_break('kernel translator self-test (translate/kernels_selftest.py)', (st_.stdout + st_.stderr)[-600:])
    if ck.tier == 'thorough' and ok:
        ck.leanchecker(['BctVerif.Props.C01', 'BctVerif.Props.C01Kernel', 'BctVerif.Props.C01RandBin', 'BctVerif.Model.Rewire', 'BctVerif.Model.Kernel', 'BctVerif.Model.RandBin', 'BctVerif.Gen.Kernels'])
    if ck.replay:
        cases = [json.load(open(ck.replay))['case']['case']]
    else:
        cases = [c for c in rc.gen_cases(ck.rs, ck.tier) if not c.get('malformed')]
    if not ck.replay:
        # interleave routines and sizes inside every worker process, so that hidden state carried between calls
        # (module-level caches keyed by n, shared masks, memoised results) meets a different routine / matrix next
        order = ck.rs.permutation(len(cases)); cases = [cases[i] for i in order]
    results = pmap(rc.run_case, cases)
    # object-reuse probes: the result must be a function of the argument values, not of earlier calls or object identity
    probes = []
    for c in cases:
        if len(probes) >= (60 if ck.tier == 'quick' else 400):
            break
        if c['routine'] in ('randomizer_bin_und',) or c.get('den') or c.get('itr', 0) == 0 or c['routine'] == 'partial_und':
            continue
        probes.append(c)
    for c, bad in zip(probes, pmap(reuse_case, probes)):
        ck.count('reuse_probes')
        if bad is not None:
            ck.violation(c['routine'], 'result-depends-on-history', {'case': c, 'probe': bad}, cond_of(c, None))
    lines, idx = [], []
    for n_, (c, r) in enumerate(zip(cases, results)):
        ck.count('routine:' + c['routine']); ck.count('status:' + r['status']); ck.count('n=%d' % len(c['A']))
        ck.count('storage:' + c.get('dtype', 'float64') + ('/' + c['order'] if c.get('order') else '')); ck.count('scale:' + ('dyadic-tiny' if c.get('den', 1) != 1 else 'unit'))
        moved = r['status'] == 'ok' and (r.get('eff') or 0) > 0 or (r['status'] == 'ok' and r.get('R') != c['A'])
        ck.case(sample={'routine': c['routine'], 'A': c['A'], 'itr': c.get('itr'), 'seed': c['seed'], 'eff': r.get('eff'), 'draws': len(r['draws'])}
                if moved and ck.dist.get('routine:' + c['routine'], 0) == 3 else None,
                nontrivial_key=digest([c['routine'], c['A'], c.get('itr'), c.get('alpha'), r['draws']]) if moved else None)
        if r['status'] in ('timeout', 'exc'):
            for pred, info in r['fails']:            # the caller's array must be intact even when the call hangs or raises
                if pred == 'input-modified':
                    ck.violation(c['routine'], pred, {'case': c, 'status': r['status']}, cond_of(c, r))
        if r['status'] == 'timeout':
            # every generated input holds two vertex-disjoint edges, so the edge pick ends with probability 1 and the attempt budgets bound
            # the rest: a call that still does not return with ten times the time is a verdict.  randomize_graph_partial_und has no budget
            # and can legitimately run out of admissible swaps when the mask overlaps the network: judged only when it cannot.
            A_ = np.array(c['A']); judged = True
            if c['routine'] == 'partial_und':
                B_ = np.array(c['B'])
                judged = bool(rc.partial_swap_feasible(A_, B_) and not np.any((A_ != 0) & ((B_ != 0) | (B_.T != 0))))
            if judged:
                r2 = rc.run_case(dict(c, t=10 * c.get('t', 4.0)))
                if r2['status'] == 'timeout':
                    ck.violation(c['routine'], 'does-not-return', {'case': c}, cond_of(c, r))
                else:
                    ck.count('returned-after-retry:' + c['routine'])
            else:
                ck.count('timeout-not-judged:' + c['routine'])
            continue
        if r['status'] == 'exc' and c['routine'] == 'randomizer_bin_und' and exc_kind(r['exc']) == 'BCTParamError':
            ck.count('rejected:no-possible-randomization'); continue   # the routine's documented domain check
        if r['status'] == 'exc':
            ck.violation(c['routine'], 'raises', {'case': c, 'exception': r['exc']}, cond_of(c, r))
            continue
        for pred, info in r['fails']:
            if pred in PREDS:
                ck.violation(c['routine'], pred, {'case': c, 'output': r.get('R'), 'eff': r.get('eff'), 'info': info}, cond_of(c, r))
        if c['routine'] != 'randomizer_bin_und':
            lines.append(rc.lean_line(c, r)); idx.append(n_)
    # correspondence: Lean model replays the recorded draws
    if ok:
        try:
            outs = run_driver('Rewire', lines)
            nd = 0
            for n_, o in zip(idx, outs):
                exp = rc.expected_line(cases[n_], results[n_])
                if o != exp:
                    nd += 1
                    if nd <= 5:
                        ck.corr_break('Rewire model vs bct.' + cases[n_]['routine'], {'case': cases[n_], 'model': o[:400], 'impl': exp[:400]})
            ck.cov['traces_validated_against_impl'] = len(outs) - nd
            ck.count('correspondence_cases', len(outs)); ck.count('correspondence_disagreements', nd)
        except DriverError as e:
            ck.corr_break('Rewire driver', str(e))
    if ok:
        randbin_corr.correspond(ck, cases, results)
    ck.finish()


if __name__ == '__main__':
    main()
