"""C07 — modularity optimisers never return a partition worse than their start; hierarchies increase; feedback never lowers Q."""
import sys
from common import *  # noqa
import mod_common as mc

PID = 'C07'


def main():
    ck = Check(PID)
    mc.run_check(ck, mc.C07_PREDS)


if __name__ == '__main__':
    main()
