"""C09 — clustering coefficients and transitivity equal their triangle definitions (direct enumeration of node triples),
exact zero for nodes with < 2 neighbours / no triangle, values in [0,1] for weights in [0,1]."""
import sys
from common import *  # noqa
sys.path.insert(0, os.path.join(VERIF, 'translate')); import cores  # noqa: E402
import cluster_common as cc
from cluster_common import F

PID = 'C09'
PREDS = {'definition', 'zero-case', 'range', 'raises', 'result-depends-on-history'}

# functions evaluated per kind of input
FUNCS = {
    'bu': ['cc_bu', 'cc_wu', 'cc_bd', 'cc_wd', 'trans_bu', 'trans_wu', 'trans_bd', 'trans_wd',
           'cc_sign_default', 'cc_sign_zhang', 'cc_sign_costantini'],
    'bd': ['cc_bd', 'cc_wd', 'trans_bd', 'trans_wd'],
    'wu': ['cc_wu', 'cc_wd', 'trans_wu', 'trans_wd', 'cc_sign_default', 'cc_sign_zhang', 'cc_sign_costantini'],
    'wd': ['cc_wd', 'trans_wd'],
    'su': ['cc_sign_default', 'cc_sign_zhang', 'cc_sign_costantini'],
    'sdy': ['cc_sign_zhang', 'cc_sign_costantini'],
    # generic (non perfect-cube) weights: float oracle at 1e-9, no cube-root model (zhang/costantini still go to the model)
    'gwu': ['cc_wu', 'cc_wd', 'trans_wu', 'trans_wd', 'cc_sign_default', 'cc_sign_zhang', 'cc_sign_costantini'],
    'gwd': ['cc_wd', 'trans_wd'],
    'gsu': ['cc_sign_default', 'cc_sign_zhang', 'cc_sign_costantini'],
    # malformed stream (non-empty diagonal): no property claim, only model-vs-code correspondence
    'diag-u': ['cc_bu', 'cc_wu', 'trans_bu', 'trans_wu', 'cc_sign_default', 'cc_sign_zhang', 'cc_sign_costantini'],
    'diag-d': ['cc_bd', 'cc_wd', 'trans_bd', 'trans_wd'],
}
DIRECTED = {'cc_bd', 'cc_wd', 'trans_bd', 'trans_wd'}


def oracle(name, W, R):
    """expected value(s) by enumeration; list (per Lean key) of lists of Fraction/None"""
    if name == 'cc_bu':
        return [cc.o_cc_und(W, W)]
    if name == 'cc_wu':
        return [cc.o_cc_und(W, R)]
    if name == 'cc_bd':
        return [cc.o_cc_dir(W, W)]
    if name == 'cc_wd':
        return [cc.o_cc_dir(W, R)]
    if name == 'trans_bu':
        a, b = cc.o_trans_bu_count(W), cc.o_trans_und(W, W)
        assert a == b, 'oracle self-check: 3*triangles/triples vs ordered-pair form'
        return [[a]]
    if name == 'trans_wu':
        return [[cc.o_trans_und(W, R)]]
    if name == 'trans_bd':
        return [[cc.o_trans_dir(W, W)]]
    if name == 'trans_wd':
        return [[cc.o_trans_dir(W, R)]]
    if name == 'cc_sign_default':
        return [cc.o_cc_und(cc.pos_part(W), cc.pos_part(R)), cc.o_cc_und(cc.neg_part(W), cc.neg_part(R))]
    if name == 'cc_sign_zhang':
        return [cc.o_zhang(cc.pos_part(W)), cc.o_zhang(cc.neg_part(W))]
    if name == 'cc_sign_costantini':
        n = len(W)
        return [cc.o_costantini([[W[i][j] if i != j else F(0) for j in range(n)] for i in range(n)])]
    raise KeyError(name)


NEEDS_ROOT = {'cc_wu', 'cc_wd', 'trans_wu', 'trans_wd', 'cc_sign_default'}


def float_oracle(name, W):
    """generic real weights: expected values by float triple enumeration with (w1*w2*w3) ** (1/3) per triple"""
    Wf = cc.fmat_float(W)
    if name == 'cc_wu':
        return [cc.fo_cc_und(Wf)]
    if name == 'cc_wd':
        return [cc.fo_cc_dir(Wf)]
    if name == 'trans_wu':
        return [[cc.fo_trans_und(Wf)]]
    if name == 'trans_wd':
        return [[cc.fo_trans_dir(Wf)]]
    if name == 'cc_sign_default':
        return [cc.fo_cc_und(cc.fmat_float(cc.pos_part(W))), cc.fo_cc_und(cc.fmat_float(cc.neg_part(W)))]
    raise KeyError(name)


def zero_nodes(name, W):
    """per output vector: the nodes for which the property demands exactly 0 (structural: < 2 neighbours or no triangle)"""
    n = len(W)
    if name in ('cc_bu', 'cc_wu'):
        return [[i for i in range(n) if cc.structural_zero(W, i, False)]]
    if name in ('cc_bd', 'cc_wd'):
        return [[i for i in range(n) if cc.structural_zero(W, i, True)]]
    if name in ('cc_sign_default', 'cc_sign_zhang'):
        P, N = cc.pos_part(W), cc.neg_part(W)
        return [[i for i in range(n) if cc.structural_zero(P, i, False)], [i for i in range(n) if cc.structural_zero(N, i, False)]]
    if name == 'cc_sign_costantini':
        return [[i for i in range(n) if cc.structural_zero(W, i, False)]]
    return None


# history / object-reuse probes: sequences of routines sharing ONE argument object (last = routine under test)
_W2 = [['cc_wd', 'cc_wd'], ['cc_wd', 'trans_wd'], ['trans_wd', 'cc_wd'], ['trans_wd', 'trans_wd'], ['cc_wd', 'trans_wd', 'cc_wd']]
_WU = [['cc_wu', 'cc_wu'], ['cc_wu', 'trans_wu'], ['trans_wu', 'cc_wu'], ['trans_wu', 'trans_wu'], ['cc_wu', 'cc_wd'], ['cc_wd', 'cc_wu'],
       ['trans_wd', 'trans_wu'], ['cc_wu', 'cc_wd', 'cc_wu']]
_SG = [['cc_sign_default', 'cc_sign_default'], ['cc_sign_zhang', 'cc_sign_default'], ['cc_sign_costantini', 'cc_sign_zhang'],
       ['cc_sign_default', 'cc_sign_costantini'], ['cc_sign_zhang', 'cc_sign_zhang'], ['cc_sign_costantini', 'cc_sign_default', 'cc_sign_costantini']]
PROBE_SEQS = {
    'bu': [['cc_bu', 'cc_bu'], ['cc_bu', 'trans_bu'], ['trans_bu', 'cc_bu'], ['trans_bu', 'trans_bu'], ['cc_bd', 'cc_bu'], ['trans_bd', 'trans_bu'],
           ['cc_wu', 'cc_bu'], ['cc_wd', 'cc_bd'], ['trans_wd', 'trans_bd'], ['cc_bu', 'cc_wu', 'cc_bu']] + _WU + _W2 + _SG[:3],
    'bd': [['cc_bd', 'cc_bd'], ['cc_bd', 'trans_bd'], ['trans_bd', 'cc_bd'], ['trans_bd', 'trans_bd'], ['cc_wd', 'cc_bd'], ['trans_wd', 'trans_bd'],
           ['cc_bd', 'cc_wd']] + _W2,
    'wu': _WU + _W2 + _SG[:2], 'gwu': _WU + _W2,
    'wd': _W2, 'gwd': _W2,
    'su': _SG, 'gsu': _SG,
}


def run_probe(task):
    bct = import_bct()
    F_ = cc.bct_funcs(bct)
    W, R = cc.case_mats(task['base'])
    Wf = cc.fl(W)
    kind = task['base']['kind']
    rs = np.random.RandomState(task['pseed'])
    sym = kind in ('bu', 'wu', 'gwu', 'su', 'gsu')
    vals = [1.0] if kind in ('bu', 'bd') else ([.125, .5, 1.0] if kind in ('wu', 'wd') else ([.3, .5, .0625] if kind in ('gwu', 'gwd') else [-.125, .5, -1.0]))
    edit = cc.pick_edit(rs, Wf, sym, vals) if task['edit'] else None
    d = cc.seq_probe([F_[x] for x in task['seq']], Wf, edit, task['scrib'])
    return {'probe': True, 'fail': d, 'edit': edit, 'funcs': [], 'fails': [], 'tri': False, 'zeros': 0}


_TIMEOUTS = {}     # per worker process: function -> watchdog hits (a hanging routine must not stall the check)


def run_case(case):
    if case['kind'] == 'probe':
        return run_probe(case)
    bct = import_bct()
    W, R = cc.case_mats(case)
    kind = case['kind']
    Wf = cc.fl(W)
    binary = cc.is_bin(W)
    malformed = kind.startswith('diag')
    res = {'funcs': [], 'fails': [], 'tri': False, 'zeros': 0}
    dyadic = all((x.denominator & (x.denominator - 1)) == 0 for row in W for x in row)
    rep = case.get('rep')
    dtype, order = (rep['dtype'], rep['order']) if rep else ('float64', 'C')
    tol = cc.rep_tol(dtype)
    for name in FUNCS[kind]:
        generic = R is None and name in NEEDS_ROOT      # no rational cube root: float oracle, no Lean line
        exact = (binary or (R is None and not generic and dyadic)) and dtype != 'float32'
        if _TIMEOUTS.get(name, 0) >= 2:
            res['skipped'] = res.get('skipped', 0) + 1; continue
        if rep:     # the same network stored in another dtype / memory layout; a fresh array per call, never normalised by a copy
            st, out = cc.run_bct(bct, name, cc.represent(Wf, dtype, order, rep.get('negzero', False)), copy=False)
        else:
            st, out = cc.run_bct(bct, name, Wf)
        if st == 'timeout':
            _TIMEOUTS[name] = _TIMEOUTS.get(name, 0) + 1
        if rep and st == 'exc' and cc.rejected_exc(dtype, out):
            res['rejected'] = res.get('rejected', 0) + 1; continue
        res['funcs'].append((name, st, out, exact, not generic and not rep))
        if malformed:
            continue
        if st == 'exc':
            res['fails'].append((name, 'raises', {'exception': out})); continue
        if st != 'ok':
            continue
        exp = float_oracle(name, W) if generic else oracle(name, W, R if R is not None else W)
        if name.startswith('trans_') and exp[0][0] is None:
            res['undef'] = res.get('undef', 0) + 1     # no connected triple: 0/0, no claim (the model still has to agree with the code)
            continue
        if not all(cc.same_vec(p, e, exact, tol) for p, e in zip(out, exp)) or len(out) != len(exp):
            res['fails'].append((name, 'definition', {'returned': out, 'expected': [[None if x is None else str(x) for x in v] for v in exp]}))
        zn = zero_nodes(name, W)
        if zn is not None:
            bad = [(v, i, out[v][i]) for v in range(len(zn)) for i in zn[v] if out[v][i] != 0.0]
            res['zeros'] += sum(len(z) for z in zn)
            if bad:
                res['fails'].append((name, 'zero-case', {'nodes(vector,node,value)': bad[:5]}))
        lo = -1.0 if name == 'cc_sign_costantini' and kind in ('su', 'sdy', 'gsu') else 0.0
        eps = 0.0 if exact else tol
        vals = [x for v in out for x in v if x is not None]
        if name.startswith('cc_') and any(x is None for v in out for x in v):
            res['fails'].append((name, 'range', {'returned': out, 'why': 'non-finite value'}))
        elif any(x < lo - eps or x > 1.0 + eps for x in vals):
            res['fails'].append((name, 'range', {'returned': out}))
        if any(x not in (0.0, None) for v in out for x in v):
            res['tri'] = True
    return res


def gen_cases(rs, tier):
    thorough = tier == 'thorough'
    B = (F(0), F(1))
    cases = []
    add = lambda kind, M, tag, raw=False: cases.append({'kind': kind, ('W' if raw else 'R'): cc.fstr(M), 'tag': tag})
    # exhaustive binary: undirected n <= 5, directed n <= 4 (n = 4: random slice in the quick tier)
    for n in (1, 2, 3, 4, 5):
        for M in cc.all_mats(n, False, B):
            add('bu', M, 'exh-bu%d' % n)
    for n in (2, 3):
        for M in cc.all_mats(n, True, B):
            add('bd', M, 'exh-bd%d' % n)
    if thorough:
        for M in cc.all_mats(4, True, B):
            add('bd', M, 'exh-bd4')
    else:
        for _ in range(700):
            add('bd', cc.dir_from_cells(4, [F(int(rs.randint(2))) for _ in range(12)]), 'slice-bd4')
    # exhaustive small weighted: cube roots in {0, 1/2, 1}
    H = (F(0), F(1, 2), F(1))
    for M in cc.all_mats(3, False, H):
        add('wu', M, 'exh-wu3')
    allw4 = list(cc.all_mats(4, False, H))
    for x in (range(len(allw4)) if thorough else rs.permutation(len(allw4))[:250]):
        add('wu', allw4[int(x)], 'exh-wu4')
    allwd3 = list(cc.all_mats(3, True, H))
    for x in (range(len(allwd3)) if thorough else rs.permutation(len(allwd3))[:300]):
        add('wd', allwd3[int(x)], 'exh-wd3')
    S = (F(0), F(1, 2), F(-1, 2), F(-1))
    alls3 = list(cc.all_mats(3, False, S)) + list(cc.all_mats(4, False, (F(0), F(1, 2), F(-1))))
    for x in (range(len(alls3)) if thorough else rs.permutation(len(alls3))[:250]):
        add('su', alls3[int(x)], 'exh-su')
    # random larger, with isolated nodes and a range of densities
    nr = 1200 if thorough else 110
    nmax = 12 if thorough else 10
    for _ in range(nr):
        n = int(rs.randint(5, nmax + 1)); d = float(rs.choice([.1, .2, .35, .5, .7, .9])); iso = int(rs.choice([0, 0, 1, 2]))
        add('bu', cc.rand_mat(rs, n, d, False, [F(1)], isolate=iso), 'rand-bu')
        add('bd', cc.rand_mat(rs, n, d, True, [F(1)], isolate=iso), 'rand-bd')
        add('wu', cc.rand_mat(rs, n, d, False, cc.ROOTS, isolate=iso), 'rand-wu')
        add('wd', cc.rand_mat(rs, n, d, True, cc.ROOTS, isolate=iso), 'rand-wd')
        add('su', cc.rand_mat(rs, n, d, False, cc.ROOTS, signed=True, isolate=iso), 'rand-su')
        dy = [F(k, 8) for k in range(1, 9)]
        add('sdy', cc.rand_mat(rs, n, d, False, dy, signed=True, isolate=iso), 'rand-sdy', raw=True)
    # generic weights (decimals / dyadics, not perfect cubes): float oracle only
    G3 = (F(0), F(1, 2), F(3, 10))
    allg = [('gwu', M) for M in cc.all_mats(3, False, G3)] + [('gwu', M) for M in cc.all_mats(4, False, (F(0), F(1, 2)))] + \
           [('gwd', M) for M in cc.all_mats(3, True, G3)]
    for x in (range(len(allg)) if thorough else rs.permutation(len(allg))[:250]):
        add(allg[int(x)][0], allg[int(x)][1], 'exh-generic', raw=True)
    for _ in range(nr):
        n = int(rs.randint(4, nmax + 1)); d = float(rs.choice([.2, .35, .5, .7, .9])); iso = int(rs.choice([0, 0, 1]))
        add('gwu', cc.rand_mat(rs, n, d, False, cc.GENERIC, isolate=iso), 'rand-gwu', raw=True)
        add('gwd', cc.rand_mat(rs, n, d, True, cc.GENERIC, isolate=iso), 'rand-gwd', raw=True)
        add('gsu', cc.rand_mat(rs, n, d, False, cc.GENERIC, signed=True, isolate=iso), 'rand-gsu', raw=True)
    # structured: triangle-free and extremal shapes
    for n in ((4, 6, 7, 9, 12) if thorough else (6, 9)):
        for tag, M in cc.structured(rs, n, False):
            add('bu', M, 'struct-' + tag)
            Wt = [[x * cc.ROOTS[int(rs.randint(len(cc.ROOTS)))] for x in row] for row in M]
            Wt = [[Wt[min(i, j)][max(i, j)] for j in range(n)] for i in range(n)]
            add('wu', Wt, 'struct-w-' + tag)
            Gt = [[x * cc.GENERIC[int(rs.randint(len(cc.GENERIC)))] for x in row] for row in M]
            add('gwu', [[Gt[min(i, j)][max(i, j)] for j in range(n)] for i in range(n)], 'struct-g-' + tag, raw=True)
        for tag, M in cc.structured(rs, n, True):
            add('bd', M, 'struct-' + tag)
            add('wd', [[x * cc.ROOTS[int(rs.randint(len(cc.ROOTS)))] for x in row] for row in M], 'struct-w-' + tag)
            add('gwd', [[x * cc.GENERIC[int(rs.randint(len(cc.GENERIC)))] for x in row] for row in M], 'struct-g-' + tag, raw=True)
    # malformed stream: non-empty diagonal (outside the property's domain; correspondence only)
    for _ in range(150 if thorough else 40):
        n = int(rs.randint(3, 7))
        for kind, directed in (('diag-u', False), ('diag-d', True)):
            M = cc.rand_mat(rs, n, .5, directed, [F(1), F(1, 2)])
            for i in range(n):
                if rs.rand() < .5:
                    M[i][i] = F(1)
            add(kind, M, 'malformed-diag')
    cases += cc.add_reps(rs, [c for c in cases if not c['kind'].startswith('diag')], .3 if thorough else .12,
                         ('bu', 'bd'), ('wu', 'wd', 'su', 'sdy', 'gwu', 'gwd', 'gsu'))
    cases += cc.make_probes(rs, cases, PROBE_SEQS, 520 if thorough else 90)
    # hidden state carried between calls only shows when a worker runs other routines / sizes before the call under test:
    # never group by routine or size
    cases = [cases[int(x)] for x in rs.permutation(len(cases))]
    return cases


def main():
    ck = Check(PID)
    ck.cov['rule'] = ('case = (matrix, function); matrices: every labelled undirected 0/1 graph n<=5, every directed 0/1 graph n<=3 (n=4: all in thorough, '
                      'random slice in quick), every undirected n<=4 / directed n=3 matrix with cube roots in {0,1/2,1} (slice in quick), signed roots in '
                      '{0,+-1/2,-1}, random n=5..10(12) at densities .1-.9 with 0-2 isolated nodes, weights (p/q)^3 with q<=5, dyadic signed weights for '
                      'zhang/costantini, stars/paths/cycles/bipartite/complete/trees (triangle-free and extremal), and a malformed stream with a non-empty '
                      'diagonal (correspondence only); non-trivial = distinct matrix on which some returned coefficient is non-zero (a triangle exists)')
    ck.assumptions += ['inputs have an empty diagonal, float dtype, weights in [0,1] (in [-1,1] for clustering_coef_wu_sign); undirected routines get symmetric input',
                       'weighted correspondence runs on weights (p/q)^3 so that the cube root is rational; Python floats are compared with tolerance 1e-9 there and exactly on 0/1 and dyadic input',
                       'a network without any connected triple has undefined transitivity (0/0 = nan in bct, none in the model): no claim']
    ck.trusted = TRUSTED_DEFAULT + ['x**(1/3) of NumPy is not modelled: the model takes the exact rational cube root (theorem rootMat_sound), '
                                    'tied to bct only on perfect-cube weights within 1e-9']
    # T-gen: whole bodies of the eight clustering / transitivity routines re-extracted from /repo's current source
    ck.cov['cores'] = cores.generate(families=['clust', 'pinmeas'])
    for p_ in ck.cov['cores']['problems']:
        ck.corr_break('core extractor (translate/cores.py)', p_)
    ok = ck.lean_gate(['BctVerif.Props.C09'], extra_modules=['BctVerif.Model.Cluster'])
    ck.lean_gate([], gen_modules=['BctVerif.Gen.CoresClust', 'BctVerif.Gen.CoresPinMeas'])
    if ck.tier == 'thorough' and ok:
        ck.leanchecker(['BctVerif.Props.C09', 'BctVerif.Model.Cluster'])
    if ck.replay:
        cases = cc.replay_cases(ck.replay)
    else:
        cases = gen_cases(ck.rs, ck.tier)
    results = pmap(run_case, cases)
    lines, meta, stat = [], [], {}
    for c, r in zip(cases, results):
        if c['kind'] == 'probe':
            ck.count('kind:probe'); ck.count('probe:' + '>'.join(c['seq']))
            ck.case()
            if r['fail']:
                ck.violation(cc.PUBLIC[c['seq'][-1]], 'result-depends-on-history',
                             {'case': c, 'sequence': c['seq'], 'edit(i,j,value,symmetric)': r['edit'], 'returned_arrays_edited': c['scrib'], 'probe': r['fail']},
                             {'function': c['seq'][-1], 'kind': 'probe'})
            continue
        W, _ = cc.case_mats(c)
        n = len(W)
        ck.count('kind:' + c['kind']); ck.count('n=%d' % n)
        ck.count('zero-case nodes checked', r['zeros']); ck.count('transitivity undefined (no connected triple): no claim', r.get('undef', 0))
        if c['kind'].startswith('diag'):
            ck.count('malformed:non-empty-diagonal')
        ck.case(sample={'kind': c['kind'], 'tag': c['tag'], 'W': cc.fstr(W), 'out': r['funcs'][0][2] if r['funcs'] else None} if r['tri'] else None,
                nontrivial_key=digest([c['kind'], cc.fstr(W)]) if r['tri'] else None)
        if not r['tri'] and not c['kind'].startswith('diag'):
            ck.count('triangle-free matrices')
        for name, pred, info in r['fails']:
            if pred in PREDS:
                ck.violation(cc.PUBLIC[name], pred, {'case': c, 'function': name, 'info': info},
                             {'function': name, 'kind': c['kind'], 'dtype': (c.get('rep') or {}).get('dtype', 'float64'),
                              'order': (c.get('rep') or {}).get('order', 'C')})
        ck.count('calls skipped after repeated timeouts', r.get('skipped', 0))
        if c.get('rep'):
            ck.count('representation:%s/%s' % (c['rep']['dtype'], c['rep']['order']))
            ck.count('representation: zeros stored as -0.0', int(bool(c['rep'].get('negzero'))))
            ck.count('storage type rejected by the routine (OverflowError on int / TypeError on bool): no claim', r.get('rejected', 0))
        for name, st, out, exact, tolean in r['funcs']:
            ck.count('calls:' + name); ck.count('status:' + st)
            stat.setdefault(name, {'ok': 0, 'timeout': 0, 'exc': 0})[st] += 1
            if st == 'ok' and tolean:
                lines.append(cc.lean_line(name, W)); meta.append((c, name, out, exact))
            elif st == 'ok':
                ck.count('generic-weight calls (float oracle, no cube-root model)')
    # a routine that (almost) never returns does not "return the values given by its definition"
    for name, d in sorted(stat.items()):
        tot = sum(d.values())
        if d['timeout'] > max(2, tot // 100) or (tot >= 5 and d['ok'] == 0 and d['exc'] == 0):
            ck.violation(cc.PUBLIC[name], 'raises', {'function': name, 'why': 'no result within the watchdog budget', 'calls': d}, {'function': name, 'kind': 'timeout'})
    # malformed: integer dtype (clustering_coef_bd stores np.inf into K) — outcome recorded, no claim
    bct = import_bct()
    st, out = call(bct.clustering_coef_bd, np.array([[0, 1, 1], [1, 0, 1], [1, 1, 0]]))
    ck.count('malformed:int-dtype clustering_coef_bd -> ' + (st if st != 'exc' else exc_kind(out)))
    # correspondence: Lean model vs real output
    if ok:
        try:
            outs = cc.run_driver_par('Cluster', lines)
            nd = 0
            for (c, name, out, exact), o in zip(meta, outs):
                m = cc.parse_model(o, name)
                if m is None or len(m) != len(out) or not all(cc.same_vec(p, e, exact) for p, e in zip(out, m)):
                    nd += 1
                    if nd <= 5:
                        ck.corr_break('Cluster model vs bct.' + cc.PUBLIC[name], {'case': c, 'function': name, 'model': o[:400], 'impl': out})
            ck.cov['traces_validated_against_impl'] = len(outs) - nd
            ck.count('correspondence_cases', len(outs)); ck.count('correspondence_disagreements', nd)
        except DriverError as e:
            ck.corr_break('Cluster driver', str(e))
    ck.finish()


if __name__ == '__main__':
    cc.guarded(main)
