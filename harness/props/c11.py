"""C11 — constrained rewiring honours connectivity, lattice cost and forbidden cells."""
import sys
from common import *  # noqa
sys.path.insert(0, os.path.join(VERIF, 'translate')); import cores  # noqa: E402
import rewire_common as rc

PID = 'C11'
ROUTINES = ['randmio_dir_connected', 'randmio_und_connected', 'latmio_dir', 'latmio_und',
            'latmio_dir_connected', 'latmio_und_connected', 'partial_und']
UND_CONN = ('randmio_und_connected', 'latmio_und_connected')
LEAN_NMAX = 24     # larger cases are judged by the Python predicates only (the interpreted Lean driver is too slow there)


# ---------------------------------------------------------------- independent oracles (on real outputs)

def reaches_all(A, directed):
    """every node reaches every node (BFS from each node over nonzero cells; undirected: one BFS)"""
    n = len(A)
    nb = [[j for j in range(n) if A[i][j] != 0] for i in range(n)]
    for s in (range(n) if directed else range(1)):
        seen = {s}; st = [s]
        while st:
            x = st.pop()
            for y in nb[x]:
                if y not in seen:
                    seen.add(y); st.append(y)
        if len(seen) != n:
            return False
    return True


def cost(D, R):
    n = len(R)
    return sum(D[i][j] * R[i][j] for i in range(n) for j in range(n))


def is_sym(A):
    n = len(A)
    return all(A[i][j] == A[j][i] for i in range(n) for j in range(n))


# ---------------------------------------------------------------- generators biased to bridge-rich graphs

def sym(A):
    A = np.triu(A, 1)
    return A + A.T


def weights(rs, A, und, wmax):
    n = len(A)
    W = rs.randint(1, wmax + 1, size=(n, n)).astype(float)
    if und:
        W = sym(W)
    return A * W


def ring(n, und, step=1):
    A = np.zeros((n, n))
    for i in range(n):
        A[i, (i + step) % n] = 1
        if und:
            A[(i + step) % n, i] = 1
    return A


def barbell(rs, n1, n2, bridge, und):
    """two cliques (bidirectional when directed) joined by a path of `bridge` inner nodes"""
    n = n1 + n2 + bridge
    A = np.zeros((n, n))
    A[:n1, :n1] = 1; A[n1 + bridge:, n1 + bridge:] = 1
    path = [n1 - 1] + list(range(n1, n1 + bridge)) + [n1 + bridge]
    for x, y in zip(path, path[1:]):
        A[x, y] = A[y, x] = 1
    np.fill_diagonal(A, 0)
    if not und and rs.rand() < .5:
        # thin out the cliques to directed cycles plus chords, keep the bridge two-way
        for blk in (range(n1), range(n1 + bridge, n)):
            blk = list(blk)
            for x in blk:
                for y in blk:
                    if x != y and rs.rand() < .4:
                        A[x, y] = 0
            for x, y in zip(blk, blk[1:] + blk[:1]):
                if x != y:
                    A[x, y] = 1
    p = rs.permutation(n)
    return A[np.ix_(p, p)]


def extra_cases(rs, tier):
    big = tier == 'thorough'
    reps = 40 if not big else 160
    cases = []

    def seed():
        return int(rs.randint(2 ** 31))

    for r in ROUTINES:
        und = r in rc.UND
        for _ in range(reps * (4 if r in rc.CONN else 1)):   # the connectivity clause lives on rare bridge configurations
            n = int(rs.randint(5, 10 if not big else 14))
            kind = rs.choice(['tree+', 'ring', 'ring+', 'barbell', 'two-rings'])
            if kind == 'tree+':
                A = rc.spanning_plus(rs, n, int(rs.randint(0, 3)), not und, 1)
            elif kind == 'ring':
                A = ring(n, und)
            elif kind == 'ring+':
                A = ring(n, und)
                for _c in range(int(rs.randint(1, 3))):
                    i, j = rs.randint(n, size=2)
                    if i != j:
                        A[i, j] = 1
                        if und:
                            A[j, i] = 1
            elif kind == 'barbell':
                n1 = int(rs.randint(3, 5)); n2 = int(rs.randint(3, 5))
                A = barbell(rs, n1, n2, int(rs.randint(0, 3)), und)
            else:  # two rings sharing a bridge / one node
                n1 = int(rs.randint(3, 6)); n2 = int(rs.randint(3, 6)); n = n1 + n2
                A = np.zeros((n, n)); A[:n1, :n1] = ring(n1, und); A[n1:, n1:] = ring(n2, und)
                A[n1 - 1, n1] = A[n1, n1 - 1] = 1
            A = weights(rs, A, und, int(rs.choice([1, 9])))
            n = len(A)
            if not rc.two_disjoint_edges(A, und):
                continue
            c = {'routine': r, 'A': A.tolist(), 'itr': int(rs.choice([1, 1, 2, 3, 5])), 'seed': seed(), 'kind': str(kind)}
            if r in rc.LAT:
                u = rs.rand()
                if u < .35:          # random integer D (symmetric for the undirected routines)
                    D = rs.randint(0, 7, size=(n, n)).astype(float)
                    c['D'] = (sym(D) if und else D).tolist(); c['Dkind'] = 'random'
                elif u < .5:         # linear (non-circular) distance to the diagonal
                    c['D'] = [[abs(i - j) for j in range(n)] for i in range(n)]; c['Dkind'] = 'linear'
                elif u < .6:         # negative entries allowed: the claim is about any D
                    D = rs.randint(-4, 5, size=(n, n)).astype(float)
                    c['D'] = (sym(D) if und else D).tolist(); c['Dkind'] = 'signed'
            if r == 'partial_und':
                u = rs.rand()
                if u < .4:           # symmetric mask
                    B = rand_graph(rs, n, float(rs.choice([.1, .3, .5])), False); c['Bkind'] = 'symmetric'
                elif u < .8:         # arbitrary (asymmetric) 0/1 mask
                    B = rand_graph(rs, n, float(rs.choice([.1, .2, .4])), True); c['Bkind'] = 'asymmetric'
                else:                # one-sided mask: only cells above the diagonal
                    B = np.triu(rand_graph(rs, n, float(rs.choice([.2, .5])), True), 1); c['Bkind'] = 'one-sided'
                if rs.rand() < .5:
                    # mask overlapping the network's own edges (B = A, or A's edges plus random cells), with all-distinct
                    # weights so that a connection re-created in a masked cell is visible in the end state
                    Ab = (np.array(A) != 0)
                    B = np.maximum(B, Ab * (rs.rand(n, n) < float(rs.choice([.5, 1.0]))))
                    if c['Bkind'] == 'symmetric':
                        B = np.maximum(B, B.T)
                    W = np.triu(np.arange(1, n * n + 1).reshape(n, n).astype(float), 1)
                    c['A'] = ((W + W.T) * Ab).tolist()
                c['B'] = B.tolist(); c['itr'] = int(rs.randint(1, 8))
            cases.append(c)
        # malformed stream for the two undirected _connected routines
        if r in UND_CONN:
            for _ in range(reps // 2):
                n = int(rs.randint(4, 9))
                if rs.rand() < .5:
                    A = rc.spanning_plus(rs, n, 2, False, int(rs.choice([1, 9])))
                    ed = [(i, j) for i in range(n) for j in range(n) if A[i, j] != 0]
                    i, j = ed[int(rs.randint(len(ed)))]
                    if rs.rand() < .5:
                        A[i, j] = 0          # one direction of an edge missing
                    else:
                        A[i, j] += 1         # same support, unequal weights
                    cases.append({'routine': r, 'A': A.tolist(), 'itr': 1, 'seed': seed(), 'malformed': 'asymmetric'})
                else:
                    n1 = int(rs.randint(2, n - 1))
                    A = np.zeros((n, n))
                    A[:n1, :n1] = rc.spanning_plus(rs, n1, 1, False, 1) if n1 > 1 else 0
                    A[n1:, n1:] = rc.spanning_plus(rs, n - n1, 1, False, 1) if n - n1 > 1 else 0
                    p = rs.permutation(n); A = A[np.ix_(p, p)]
                    cases.append({'routine': r, 'A': A.tolist(), 'itr': 1, 'seed': seed(), 'malformed': 'disconnected'})
    # ---- inputs inside the property's literal quantifier on which the real code is known to fail (known_findings.d/C11.json)
    def base(n, und):
        kind = rs.choice(['tree+', 'ring+', 'dense'])
        if kind == 'tree+':
            A = rc.spanning_plus(rs, n, int(rs.randint(0, 4)), not und, 1)
        elif kind == 'ring+':
            A = ring(n, und)
            for _c in range(int(rs.randint(1, 4))):
                i, j = rs.randint(n, size=2)
                if i != j:
                    A[i, j] = 1
                    if und:
                        A[j, i] = 1
        else:
            A = np.maximum(ring(n, und), rand_graph(rs, n, .4, not und))
        return weights(rs, A, und, int(rs.choice([1, 9])))

    for r in ROUTINES:
        und = r in rc.UND
        if True:
            # (a) connected / strongly connected networks WITH SELF-LOOPS (nonzero diagonal cells): all seven routines
            for _ in range(reps * (2 if r in rc.CONN else 1)):
                n = int(rs.randint(4, 8 if not big else 11))
                A = base(n, und)
                for v in rs.choice(n, int(rs.randint(1, n)), replace=False):
                    A[v, v] = int(rs.randint(1, 10))
                if not rc.two_disjoint_edges(A - np.diag(np.diag(A)), und):
                    continue
                c = {'routine': r, 'A': A.tolist(), 'itr': int(rs.choice([1, 2, 3])), 'seed': seed(), 'kind': 'self-loops'}
                if r == 'partial_und':
                    c['B'] = rand_graph(rs, n, float(rs.choice([0, .1, .3])), bool(rs.rand() < .5)).tolist()
                if r in rc.LAT and rs.rand() < .3:
                    D = rs.randint(0, 7, size=(n, n)).astype(float)
                    c['D'] = (sym(D) if und else D).tolist(); c['Dkind'] = 'random'
                cases.append(c)
        if r in ('latmio_und', 'latmio_und_connected'):
            # (b) caller-supplied ASYMMETRIC integer D for the undirected latticisers
            for _ in range(reps * 2):
                n = int(rs.randint(4, 9 if not big else 12))
                A = base(n, True)
                if not rc.two_disjoint_edges(A, True):
                    continue
                D = rs.randint(0, 7, size=(n, n)).astype(float)
                if rs.rand() < .3:
                    D = np.triu(D)          # one-sided
                if np.array_equal(D, D.T):
                    continue
                cases.append({'routine': r, 'A': A.tolist(), 'itr': int(rs.choice([1, 2, 3])), 'seed': seed(), 'D': D.tolist(),
                              'Dkind': 'asymmetric', 'kind': 'asym-D'})
    # (c) connected inputs WITHOUT two vertex-disjoint edges (stars, the 3-node path, the triangle): nothing can be rewired and the
    #     `while True` loop that draws two edges on four distinct nodes could never end: the routines must reject them (BCTParamError).
    #     Short watchdog, no retry.
    for r in ROUTINES:
        und = r in rc.UND
        for _ in range(4 if not big else 12):
            shape = str(rs.choice(['star', 'star', 'path3', 'K3']))
            if shape == 'star':
                n = int(rs.randint(4, 8)); A = np.zeros((n, n)); h = int(rs.randint(n))
                for v in range(n):
                    if v != h:
                        A[h, v] = A[v, h] = 1          # directed: both arcs, so the star is strongly connected
            elif shape == 'path3':
                A = np.zeros((3, 3)); A[0, 1] = A[1, 0] = A[1, 2] = A[2, 1] = 1
            else:
                A = np.ones((3, 3)) - np.eye(3)
                if not und and rs.rand() < .5:
                    A = ring(3, False)                 # directed triangle
            p = rs.permutation(len(A)); A = A[np.ix_(p, p)]
            A = weights(rs, A, und, int(rs.choice([1, 9])))
            c = {'routine': r, 'A': A.tolist(), 'itr': int(rs.choice([1, 2])), 'seed': seed(), 'kind': 'no-pair:' + shape, 't': 1.0, 'no_retry': True}
            if r == 'partial_und':
                c['B'] = np.zeros_like(A).tolist()
            cases.append(c)
    cases += round4_cases(rs, tier)
    # (d) storage axis: the same integer-valued matrices as bool / uint8 / int32 / int64 / float32 arrays, Fortran order, transposed views
    for c in cases:
        if c.get('malformed') or c.get('no_retry') or c.get('den'):
            continue
        u = rs.rand()
        if u < .3:
            c['dtype'] = rc.pick_dtype(rs, np.array(c['A']))
        elif u < .42:
            c['order'] = str(rs.choice(['F', 'T']))
    return cases


# ---------------------------------------------------------------- round 4: weight / D families, malformed shapes, size axis

def weight_family(rs, A, und, fam):
    """integer weights on the support of A and a power-of-two denominator: bct sees W/den (exact floats), the model the integers.
    maxnorm: weights in (0,1] with maximum exactly 1.0; strong-weak: full-strength 1.0 links and tiny ones; unit-interval: maximum < 1"""
    Ab = (np.asarray(A) != 0).astype(float); n = len(Ab)
    if fam == 'maxnorm':
        den = int(2 ** int(rs.choice([2, 3, 4, 10])))
        W = rs.randint(1, den + 1, size=(n, n)).astype(float)
    elif fam == 'strong-weak':
        den = int(2 ** int(rs.choice([20, 30])))
        W = np.where(rs.rand(n, n) < .5, den, rs.randint(1, 4, size=(n, n))).astype(float)
    else:  # unit-interval, maximum below 1
        den = int(2 ** int(rs.choice([4, 10])))
        W = rs.randint(1, den, size=(n, n)).astype(float)
    if und:
        W = sym(W)
    W = W * Ab
    if fam in ('maxnorm', 'strong-weak') and W.max() != den:          # make the maximum exactly 1.0
        i, j = [(i, j) for i in range(n) for j in range(n) if W[i, j] != 0][int(rs.randint(int((W != 0).sum())))]
        W[i, j] = den
        if und:
            W[j, i] = den
    return W, den


def d_family(rs, n, und, fam):
    """caller-supplied distance matrices (integers; symmetric for the undirected latticisers)"""
    if fam == 'additive':            # row term + column term: every swap ties in plain distance D[a,b]+D[c,d] = D[a,d]+D[c,b]
        r_ = rs.randint(0, 6, size=n).astype(float); c_ = r_ if und else rs.randint(0, 6, size=n).astype(float)
        return r_[:, None] + c_[None, :]
    if fam == 'constant':
        return np.full((n, n), float(rs.randint(0, 4)))
    if fam == 'ties':                # two values only
        D = rs.randint(1, 3, size=(n, n)).astype(float)
    elif fam == 'zeros':             # mostly zero
        D = (rs.rand(n, n) < .3) * rs.randint(1, 6, size=(n, n)).astype(float)
    else:                            # 'default-like': circular distance scaled
        D = rc.default_D(n) * float(rs.randint(1, 4))
    return sym(D) if und else D


def big_graph(rs, n, und):
    kind = str(rs.choice(['tree+', 'ring+', 'sparse']))
    if kind == 'tree+':
        A = rc.spanning_plus(rs, n, int(rs.randint(0, 4)), not und, 1)
    elif kind == 'ring+':
        A = ring(n, und)
        for _c in range(int(rs.randint(1, 5))):
            i, j = rs.randint(n, size=2)
            if i != j:
                A[i, j] = 1
                if und:
                    A[j, i] = 1
    else:
        A = rc.spanning_plus(rs, n, int(rs.randint(n // 2, 2 * n)), not und, 1)
    return (np.asarray(A) != 0).astype(float), kind


def round4_cases(rs, tier):
    big = tier == 'thorough'
    cases = []

    def seed():
        return int(rs.randint(2 ** 31))

    WF = ['maxnorm', 'strong-weak', 'unit-interval', 'integer']
    DF = ['additive', 'additive', 'constant', 'ties', 'zeros', 'default-like', None]      # additive twice: with exact ties in plain distance only the weights decide
    # (b) weight family x D family, every latticiser; weight families for the other routines
    for r in ROUTINES:
        und = r in rc.UND
        combos = [(w, d) for w in WF for d in (DF if r in rc.LAT else [None])]
        for w, d in combos * ((3 if r in rc.LAT else 1) if not big else 8):
            n = int(rs.randint(5, 10 if not big else 13))
            A, kind = big_graph(rs, n, und)
            if not rc.two_disjoint_edges(A, und):
                continue
            c = {'routine': r, 'itr': int(rs.choice([1, 1, 2])), 'seed': seed(), 'kind': 'wfam:' + w, 'Wkind': w}
            if w == 'integer':
                c['A'] = weights(rs, A, und, 9).tolist()
            else:
                W, den = weight_family(rs, A, und, w)
                c['A'] = W.tolist(); c['den'] = den
            if d is not None:
                c['D'] = d_family(rs, n, und, d).tolist(); c['Dkind'] = d
            if r == 'partial_und':
                c['B'] = rand_graph(rs, n, .2, bool(rs.rand() < .5)).tolist(); c['itr'] = int(rs.randint(1, 5))
            cases.append(c)
    # (c) size axis: the same routines on larger networks (predicates always; Lean replay up to LEAN_NMAX nodes)
    sizes = [12, 16, 17, 24, 32, 33, 40, 64, 65]
    for r in ROUTINES:
        und = r in rc.UND
        for n in (list(rs.choice(sizes, 3, replace=False)) if not big else sizes * 2):
            n = int(n)
            A, kind = big_graph(rs, n, und)
            c = {'routine': r, 'itr': 1, 'seed': seed(), 'kind': 'size:%d' % n, 't': 20.0}
            w = str(rs.choice(WF))
            if w == 'integer':
                c['A'] = weights(rs, A, und, int(rs.choice([1, 9]))).tolist()
            else:
                W, den = weight_family(rs, A, und, w); c['A'] = W.tolist(); c['den'] = den
            c['Wkind'] = w
            if r in rc.LAT and rs.rand() < .5:
                d = str(rs.choice([x for x in DF if x])); c['D'] = d_family(rs, n, und, d).tolist(); c['Dkind'] = d
            if r == 'partial_und':
                c['B'] = rand_graph(rs, n, .1, bool(rs.rand() < .5)).tolist(); c['itr'] = int(rs.randint(1, 6))
            if n > LEAN_NMAX:
                c['no_lean'] = True
            cases.append(c)
    # (a) malformed stream, every shape: dense block(s) + isolated node(s), sparse pieces, with and without self-loops, near-symmetric
    for r in UND_CONN:
        for _ in range(24 if not big else 200):
            n = int(rs.choice([4, 5, 6, 7, 8, 10, 12, 16] if not big else [4, 5, 6, 7, 8, 10, 12, 16, 24, 33]))
            shape = str(rs.choice(['dense+isolated', 'dense+isolated', 'two-dense', 'dense+sparse', 'isolated-many', 'near-symmetric', 'asym-dense']))
            wmax = int(rs.choice([1, 9]))
            den = None
            if shape in ('near-symmetric', 'asym-dense'):
                A = np.maximum(ring(n, True), rand_graph(rs, n, float(rs.choice([.3, .9])), False))
                A = weights(rs, A, True, wmax)
                ed = [(i, j) for i in range(n) for j in range(n) if A[i, j] != 0]
                i, j = ed[int(rs.randint(len(ed)))]
                A[i, j] += 1
                if shape == 'near-symmetric':
                    den = int(2 ** int(rs.choice([30, 40])))      # the two directions differ by 2^-30: allclose says symmetric, == does not
                mal = 'asymmetric'
            else:
                k = 1 if shape != 'isolated-many' else int(rs.randint(2, max(3, n // 2)))
                n1 = n - k if shape in ('dense+isolated', 'isolated-many') else int(rs.randint(2, n - 1))
                A = np.zeros((n, n))
                blk = np.ones((n1, n1)) - np.eye(n1)
                for _m in range(int(rs.randint(0, max(1, n1 // 2)))):             # a few connections missing from the block
                    i, j = rs.randint(n1, size=2)
                    if i != j and blk[i].sum() > 1 and blk[j].sum() > 1:
                        blk[i, j] = blk[j, i] = 0
                A[:n1, :n1] = blk
                if shape == 'two-dense' and n - n1 > 1:
                    A[n1:, n1:] = np.ones((n - n1, n - n1)) - np.eye(n - n1)
                elif shape == 'dense+sparse' and n - n1 > 1:
                    A[n1:, n1:] = (rc.spanning_plus(rs, n - n1, 0, False, 1) != 0)
                A = weights(rs, A, True, wmax)
                if reaches_all(A.tolist(), False):
                    continue
                mal = 'disconnected'
            loops = str(rs.choice(['none', 'some', 'all']))
            if loops != 'none':
                for v in (range(n) if loops == 'all' else rs.choice(n, int(rs.randint(1, n)), replace=False)):
                    A[v, v] = int(rs.randint(1, wmax + 1))
            p = rs.permutation(n); A = A[np.ix_(p, p)]
            c = {'routine': r, 'A': A.tolist(), 'itr': 1, 'seed': seed(), 'malformed': mal, 'kind': 'malformed:' + shape + ('+loops' if loops != 'none' else '')}
            if den:
                c['den'] = den
            cases.append(c)
    return cases


# ---------------------------------------------------------------- evaluation of one real result

def evaluate(c, r):
    """-> list of (predicate, info) that fail on the real output"""
    F = []
    rt = c['routine']; und = rt in rc.UND; A = c['A']
    if r['status'] != 'ok':
        return F
    R = r['R']
    if rt in rc.CONN:
        cin = reaches_all(A, not und) if (not und or is_sym(A)) else False
        cout = reaches_all(R, True)      # all-pairs: also meaningful should an undirected routine return an asymmetric matrix
        if cin and not cout:
            F.append(('connected-out', {}))
        if cin != r['extra'].get('in_conn') or cout != r['extra'].get('out_conn'):
            F.append(('oracle-disagreement', {'bfs': [cin, cout], 'closure': [r['extra'].get('in_conn'), r['extra'].get('out_conn')]}))
    if und and is_sym(A) and not is_sym(R):
        F.append(('symmetric-out', {}))
    if rt in rc.LAT:
        n = len(A); ind = r['ind']
        D = c['D'] if c.get('D') is not None else rc.default_D(n).tolist()
        Ap = [[A[ind[i]][ind[j]] for j in range(n)] for i in range(n)]
        ci, co = cost(D, Ap), cost(D, r['Rrp'])
        if co > ci:
            F.append(('lattice-cost', {'cost_in': ci, 'cost_out': co, 'ind': ind}))
        if ci != r['extra'].get('cost_in') or co != r['extra'].get('cost_out'):
            F.append(('oracle-disagreement', {'loops': [ci, co], 'numpy': [r['extra'].get('cost_in'), r['extra'].get('cost_out')]}))
    if rt == 'partial_und':
        B = c['B']; n = len(A)
        # a masked cell may keep its original connection or lose it, but no connection may be created there:
        # its value is either unchanged or zero (with distinct weights a re-created connection has another weight)
        bad = [(i, j) for i in range(n) for j in range(n) if B[i][j] != 0 and R[i][j] != 0 and R[i][j] != A[i][j]]
        if bad or r['extra'].get('new_in_mask'):
            F.append(('mask', {'cells': bad[:6]}))
    return F


def has_self_loops(c):
    A = c['A']
    return any(A[i][i] != 0 for i in range(len(A)))


def has_asym_D(c):
    D = c.get('D')
    return bool(c['routine'] in rc.LAT and c['routine'] in rc.UND and D is not None and not is_sym(D))


def has_pickable_pair(c):
    """does the routine's own edge list (np.where(R) / np.where(np.tril(R)) / np.where(np.triu(A, 1)), diagonal cells included where the
    routine lists them) hold two entries that pass its test `a != c and a != d and b != c and b != d`?"""
    A = c['A']; n = len(A); r = c['routine']
    if r == 'partial_und':
        E = [(i, j) for i in range(n) for j in range(i + 1, n) if A[i][j] != 0]
    elif r in rc.UND:
        E = [(i, j) for i in range(n) for j in range(i + 1) if A[i][j] != 0]
    else:
        E = [(i, j) for i in range(n) for j in range(n) if A[i][j] != 0]
    return any(a != c_ and a != d and b != c_ and b != d for x, (a, b) in enumerate(E) for y, (c_, d) in enumerate(E) if x != y)


def never_stuck(c):
    """randomize_graph_partial_und: an admissible swap exists now and after every sequence of swaps. Sufficient: one exists now and
    the mask covers no cell of the network (either orientation) - then each swap can be undone by an admissible swap."""
    A = np.array(c['A']); B = np.array(c['B'])
    off = A - np.diag(np.diag(A))
    return bool(rc.partial_swap_feasible(off, B) and not np.any((off != 0) & ((B != 0) | (B.T != 0))))


def cond_of(c):
    """keys the open known findings are matched on: computed from the input itself, never from a generator tag"""
    d = {'routine': c['routine'], 'self_loops': has_self_loops(c), 'asymmetric_D': has_asym_D(c), 'no_disjoint_edge_pair': not has_pickable_pair(c)}
    if c.get('malformed'):
        d['malformed'] = c['malformed']
    return d


def run_case(c):
    """rewire_common.run_case; a watchdog hit is re-tried once with ten times the budget, so that a loaded machine cannot turn into a
    verdict - except where a hang is the expected behaviour: the no-pickable-pair family (known finding) and randomize_graph_partial_und
    on inputs that can run out of admissible swaps"""
    r = rc.run_case(c)
    if r['status'] == 'timeout' and not c.get('no_retry') and (c['routine'] != 'partial_und' or (c.get('itr', 0) > 0 and never_stuck(c))):
        r = rc.run_case(dict(c, t=10 * c.get('t', 4.0)))
        r['retried'] = True
    return r


# ---------------------------------------------------------------- history / object-reuse probes (round 3)

GFUNCS = ('number_of_components', 'get_components', 'randmio_und_connected', 'latmio_und_connected', 'randmio_dir_connected',
          'latmio_dir_connected')


def two_blobs(rs, und):
    """two rings/cliques of 3-4 nodes with weights 2..9; returns (A without the bridge, bridge cell (i, j))"""
    n1 = int(rs.randint(3, 5)); n2 = int(rs.randint(3, 5)); n = n1 + n2
    A = np.zeros((n, n))
    for lo, hi in ((0, n1), (n1, n)):
        m = hi - lo
        blk = ring(m, und) if rs.rand() < .5 else np.ones((m, m)) - np.eye(m)
        if not und:
            blk = np.maximum(blk, ring(m, False))
        A[lo:hi, lo:hi] = blk
    A = weights(rs, A, und, 8) + (A != 0)          # weights 2..9
    return A, (int(rs.randint(0, n1)), int(rs.randint(n1, n)))


def probe_cases(rs, tier):
    """specs for common.reuse_probe: call, mutate the SAME array object in place, call again, compare with fresh copies"""
    reps = 3 if tier != 'thorough' else 28
    out = []
    for r in ROUTINES:
        und = r in rc.UND
        muts = ['cut-bridge', 'cut-bridge-threshold', 'add-bridge', 'asym', 'reweight'] if und else ['cut-bridge', 'add-bridge', 'reweight']
        for mut in muts:
            for _ in range(reps):
                A, (i, j) = two_blobs(rs, und)
                if mut != 'add-bridge':             # the bridge is the only weight-1 edge (both arcs when directed: strongly connected)
                    A[i, j] = A[j, i] = 1
                via = 'direct'
                if r in rc.CONN or r in UND_CONN:
                    u = rs.rand()
                    if u < .35:                     # another routine / the component counter sees the same object in between
                        via = 'pair:' + str(rs.choice([g for g in GFUNCS if g != r and (und or 'und' not in g)]))
                    elif u < .5:
                        via = 'edit-returned'
                pc = {'probe': True, 'routine': r, 'A': A.tolist(), 'itr': int(rs.choice([1, 2])), 'seed': int(rs.randint(2 ** 31)),
                      'mut': mut, 'cell': [i, j], 'via': via}
                if r in rc.LAT and rs.rand() < .5:
                    n = len(A); D = rs.randint(0, 7, size=(n, n)).astype(float)
                    pc['D'] = (sym(D) if und else D).tolist()
                if r == 'partial_und':
                    pc['B'] = rand_graph(rs, len(A), .2, bool(rs.rand() < .5)).tolist(); pc['itr'] = int(rs.randint(1, 4))
                out.append(pc)
    return out


def run_probe(pc):
    """-> None (second call on the same objects == call on fresh copies) or the disagreement dict of common.reuse_probe"""
    bct = import_bct()
    r = pc['routine']; und = r in rc.UND
    f = bct.randomize_graph_partial_und if r == 'partial_und' else getattr(bct, r)
    A = np.array(pc['A'], dtype=float); i, j = pc['cell']
    args = [A]
    if r == 'partial_und':
        args.append(np.array(pc['B'], dtype=float))
    held = {}

    def base(*a, seed=None):
        if r == 'partial_und':
            return f(a[0], a[1], pc['itr'], seed=seed)
        if r in rc.LAT:
            D = np.array(pc['D'], dtype=float) if pc.get('D') is not None else None
            return f(a[0], pc['itr'], D=D, seed=seed)
        return f(a[0], pc['itr'], seed=seed)

    def fn(*a, seed=None):
        if pc['via'].startswith('pair:'):
            g = getattr(bct, pc['via'][5:])
            try:                                     # g looks at the same array object first; its verdict is irrelevant here
                g(a[0]) if 'components' in pc['via'] else g(a[0], 1, seed=seed)
            except Exception:
                pass
        out = base(*a, seed=seed)
        held['out'] = out
        return out

    def mutate(a):
        W = a[0]; m = pc['mut']
        if pc['via'] == 'edit-returned' and held.get('out') is not None:
            o = held['out']; o = o[0] if isinstance(o, tuple) else o
            o[...] = 0                                # the caller scribbles over the returned matrix
        if m == 'cut-bridge':
            W[i, j] = 0; W[j, i] = 0
        elif m == 'cut-bridge-threshold':
            bct.threshold_absolute(W, 1.5, copy=False)    # removes the weak bridge in place
        elif m == 'add-bridge':
            W[i, j] = 3; W[j, i] = 3
        elif m == 'asym':
            if W[i, j] % 2:
                W[i, j] = 0
            else:
                W[i, j] += 1
        elif m == 'reweight':
            x, y = [(x, y) for x in range(len(W)) for y in range(len(W)) if W[x, y] != 0 and (x, y) != (i, j)][0]
            W[x, y] += 4
            if und:
                W[y, x] = W[x, y]
        if r == 'partial_und' and len(a) > 1:
            a[1][i, j] = 1 - a[1][i, j]

    return reuse_probe(fn, args, mutate, t=2.0 if r == 'partial_und' else 4.0, seed=pc['seed'])


def run_job(job):
    return run_probe(job) if job.get('probe') else run_case(job)


def main():
    ck = Check(PID)
    ck.cov['rule'] = ('cases = (routine, matrix, itr/maxswap, seed[, D][, B]) for the four _connected routines, the four latticisers and '
                      'randomize_graph_partial_und: rewire_common.gen_cases (labelled 4-node graphs, random graphs n=5..10(14), spanning tree / '
                      'Hamiltonian cycle plus chords) plus a C11 stream of bridge-rich graphs (tree+<=2 chords, rings, rings+chords, barbells, two rings '
                      'joined by a bridge; weights 1 or 1..9; default / random / linear / signed D, symmetric for the undirected latticisers; arbitrary 0/1 '
                      'masks: symmetric, asymmetric, one-sided), a malformed stream (asymmetric, disconnected) for the undirected _connected routines, and the two '
                      'known-finding families (connected inputs with 1..n-1 self-loops for the four _connected routines; asymmetric integer D for the two undirected '
                      'latticisers); the case list is shuffled before it is dealt to the workers; plus object-reuse probes (common.reuse_probe: call, cut / add a '
                      'bridge, break symmetry or re-weight IN PLACE - directly or with threshold_absolute(copy=False) -, call again on the same array, compare with '
                      'fresh copies; also with another routine / number_of_components looking at the same array in between, and with the returned matrix edited); non-trivial = distinct case in '
                      'which the real routine performed at least one rewiring, or a malformed input that was rejected')
    ck.assumptions += ['the theorems carry the hypotheses EmptyDiag (all connectivity theorems) and Symm D (undirected lattice cost); the property quantifier '
                       'has neither, and on the complement the real code FAILS: inputs with self-loops (four _connected routines: disconnected / asymmetric '
                       'output) and an asymmetric caller-supplied D (latmio_und, latmio_und_connected: cost increases) are generated, reproduced on every '
                       'run and reported as the open known findings C11-selfloops-* / C11-asymD-cost-* (known_findings.d/C11.json, matched on the input '
                       'itself: self_loops=true / asymmetric_D=true); Props/C11 *_selfloop_witness / *_asymD_witness show on the model that the '
                       'hypotheses cannot be dropped; the same predicates on inputs without self-loops / with symmetric D remain plain violations',
                       'masks are arbitrary 0/1 matrices (symmetric, asymmetric, one-sided); no symmetry assumption on the mask',
                       'integer weights, stored as float64 / float32 / int64 / int32 / uint8 / bool, C or Fortran order or transposed view',
                       'inputs without two vertex-disjoint edges (stars, path3, K3) are inside the quantifier ("trees"): nothing can be rewired, and the '
                       'routines must say so (BCTParamError from the guard before the loops, within a 1 s watchdog; the model has the same guard); a hang '
                       'there is the violation does-not-return; all other generated inputs hold two vertex-disjoint edges',
                       'connectivity clause is evaluated on connected (undirected) / strongly connected (directed) inputs only',
                       'rejection clause: Props/C11.precheck_rejects / precheck_ok are about Model/RewirePre.precheck (allclose -> equality on integer input, '
                       'number_of_components = the C16 model); the malformed stream and every well-formed call of the two undirected _connected routines go through '
                       'the driver Main/RewirePre and are compared with the real routines',
                       'partial_und: calls that hit the 1.5 s watchdog (its rejection loop cannot terminate when no swap is admissible) are counted as '
                       'timeouts unless the input can never run out of admissible swaps (one exists and the mask covers no cell of the network): then, and for every other '
                       'routine, the call is re-tried with ten times the budget and a second timeout is the violation does-not-return']
    # T-gen: number_of_components / get_components (the connectedness pre-check of the undirected _connected routines) re-extracted from /repo's current source
    ck.cov['cores'] = cores.generate(families=['comp', 'pinrew'])
    for p_ in ck.cov['cores']['problems']:
        ck.corr_break('core extractor (translate/cores.py)', p_)
    ok = ck.lean_gate(['BctVerif.Props.C11'], extra_modules=['BctVerif.Model.Rewire', 'BctVerif.Model.RewirePre'])
    ck.lean_gate([], gen_modules=['BctVerif.Gen.CoresComp', 'BctVerif.Gen.CoresPinRewire'])
    if ck.tier == 'thorough' and ok:
        ck.leanchecker(['BctVerif.Props.C11', 'BctVerif.Model.Rewire', 'BctVerif.Model.RewirePre'])
    if ck.replay:
        jobs = [json.load(open(ck.replay))['case']['case']]
    else:
        jobs = rc.gen_cases(ck.rs, ck.tier, routines=ROUTINES) + extra_cases(ck.rs, ck.tier)
        for c in jobs:
            if c['routine'] == 'partial_und':
                c['t'] = 1.5     # its `while nswap < maxswap` loop cannot terminate when no swap is admissible
        jobs += probe_cases(ck.rs, ck.tier)
        # history across calls: every worker sees routines, options and sizes in mixed order (never grouped by routine or n)
        jobs = [jobs[k] for k in ck.rs.permutation(len(jobs))]
    jres = pmap(run_job, jobs)
    # object-reuse probes: the result is a function of the argument values, not of earlier calls or of array identity
    for pc, pr in zip(jobs, jres):
        if not pc.get('probe'):
            continue
        ck.count('probe:' + pc['routine']); ck.count('probe-mut:' + pc['mut']); ck.count('probe-via:' + pc['via'].split(':')[0])
        ck.case(sample=None, nontrivial_key=digest(['probe', pc]))
        if pr is not None:
            ck.violation(pc['routine'], 'result-depends-on-history', {'case': pc, 'probe': pr}, {'routine': pc['routine'], 'mut': pc['mut']})
    cases = [c for c in jobs if not c.get('probe')]
    results = [r for c, r in zip(jobs, jres) if not c.get('probe')]
    lines, idx = [], []
    for n_, (c, r) in enumerate(zip(cases, results)):
        rt = c['routine']
        ck.count('routine:' + rt); ck.count('status:' + r['status']); ck.count('n=%d' % len(c['A']))
        if c.get('kind'):
            ck.count('kind:' + c['kind'])
        if c.get('Dkind'):
            ck.count('D:' + c['Dkind'])
        if c.get('Wkind'):
            ck.count('W:' + c['Wkind'])
        if c.get('dtype') or c.get('order'):
            ck.count('storage:' + (c.get('dtype') or 'order-' + c['order']))
        if c.get('Bkind'):
            ck.count('mask:' + c['Bkind'])
        if c.get('malformed'):
            # rejection clause: asymmetric or disconnected input to the undirected _connected routines
            ck.count('malformed:' + c['malformed'])
            rej = r['status'] == 'exc' and exc_kind(r['exc']) == 'BCTParamError'
            ck.case(sample=None, nontrivial_key=digest(['malformed', rt, c['A']]) if rej else None)
            if rt in UND_CONN and not rej:
                ck.violation(rt, 'rejects-malformed', {'case': c, 'status': r['status'], 'exception': r.get('exc'), 'output': r.get('R')}, cond_of(c))
            elif rej:
                ck.count('rejected:' + c['malformed'])
            if r['status'] != 'timeout' and rt in UND_CONN:
                lines.append(rc.lean_line(c, r)); idx.append(n_)     # the pre-check model must reject it too
            continue
        moved = r['status'] == 'ok' and ((r.get('eff') or 0) > 0 or r.get('R') != c['A'])
        ck.case(sample={'routine': rt, 'A': c['A'], 'itr': c.get('itr'), 'seed': c['seed'], 'eff': r.get('eff'), 'kind': c.get('kind'),
                        'extra': r.get('extra')} if moved else None,
                nontrivial_key=digest([rt, c['A'], c.get('itr'), c.get('D'), c.get('B'), r['draws']]) if moved else None)
        if r['status'] == 'timeout':
            # the attempt budget bounds the rewiring attempts, but the inner `while True` edge pick is unbounded: it ends (with probability 1,
            # in a few draws) iff the edge list holds two entries on four distinct nodes - which the routines now test before the loops
            # (BCTParamError otherwise). A timeout is a verdict when it survived the 10x retry, and at once for the no-pickable-pair
            # family (1 s): those inputs must be rejected, not looped on.
            if rt != 'partial_und' or c.get('no_retry') or r.get('retried'):
                ck.violation(rt, 'does-not-return', {'case': c}, cond_of(c))
            else:
                ck.count('partial_und-timeout:may-run-out-of-admissible-swaps')
            continue
        if r.get('retried'):
            ck.count('returned-after-retry')
        if r['status'] == 'exc':
            if exc_kind(r['exc']) == 'BCTParamError' and not has_pickable_pair(c) and c.get('itr', 0) > 0:
                # nothing can be rewired: the guard `if itr > 0 and not _has_rewirable_pair(i, j): raise BCTParamError` (the model has it too)
                ck.count('rejected:no-rewirable-pair')
                ck.case(sample=None, nontrivial_key=digest(['no-pair', rt, c['A']]))
                lines.append(rc.lean_line(c, r)); idx.append(n_)
            else:
                ck.violation(rt, 'raises', {'case': c, 'exception': r['exc']}, cond_of(c))
            continue
        if not has_pickable_pair(c) and c.get('itr', 0) > 0:
            # returned although no two listed connections have four distinct end nodes: impossible for a correct edge-pair draw
            ck.violation(rt, 'no-rewirable-pair-not-rejected', {'case': c, 'output': r.get('R')}, cond_of(c))
            continue
        if rt in rc.CONN:
            ck.count('conn-input:%s' % r['extra'].get('in_conn'))
            if moved and r['extra'].get('in_conn'):
                ck.count('conn-preserved-with-swaps')
        if rt in rc.LAT and r['extra'].get('cost_out', 0) < r['extra'].get('cost_in', 0):
            ck.count('lattice-cost-strictly-decreased')
        if rt == 'partial_und' and moved and np.any(np.array(c['B']) != 0):
            ck.count('mask-nonempty-with-swaps')
        for pred, info in evaluate(c, r):
            if pred == 'oracle-disagreement':
                ck.corr_break('two Python oracles disagree', {'case': c, 'info': info})
            else:
                ck.violation(rt, pred, {'case': c, 'output': r.get('R'), 'Rrp': r.get('Rrp'), 'eff': r.get('eff'), 'info': info}, cond_of(c))
        if c.get('no_lean'):
            ck.count('lean-replay-skipped(n>%d)' % LEAN_NMAX)
        else:
            lines.append(rc.lean_line(c, r)); idx.append(n_)
    # correspondence: the Lean model (about which Props/C11.lean proves the clauses) replays the recorded draws.
    # The two undirected _connected routines (well-formed and malformed input) go through Main/RewirePre
    # (pre-check, then the same Rewire.step); everything else through Main/Rewire.
    if ok:
        try:
            pre = [k for k, n_ in enumerate(idx) if cases[n_]['routine'] in UND_CONN]
            oth = [k for k, n_ in enumerate(idx) if cases[n_]['routine'] not in UND_CONN]
            outs = [None] * len(lines)
            for drv, ks in (('RewirePre', pre), ('Rewire', oth)):
                for k, o in zip(ks, run_driver(drv, [lines[k] for k in ks])):
                    outs[k] = o
            nd = 0
            for n_, o in zip(idx, outs):
                exp = rc.expected_line(cases[n_], results[n_])
                if o != exp:
                    nd += 1
                    if nd <= 5:
                        ck.corr_break('Rewire model vs bct.' + cases[n_]['routine'], {'case': cases[n_], 'model': (o or '')[:400], 'impl': exp[:400]})
                elif cases[n_].get('malformed'):
                    ck.count('precheck_model_rejects_too')
            ck.cov['traces_validated_against_impl'] = len(outs) - nd
            ck.count('correspondence_cases', len(outs)); ck.count('correspondence_cases_via_RewirePre', len(pre))
            ck.count('correspondence_disagreements', nd)
        except DriverError as e:
            ck.corr_break('Rewire driver', str(e))
    ck.finish()


if __name__ == '__main__':
    main()
