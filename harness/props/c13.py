"""C13 -- library calls never modify the caller's arrays unless copy=False is requested.

T-gen: translate/effects.py re-derives an alias/write IR term per function of the bct namespace from /repo's current
source; Gen/EffectsAlias.lean holds one `decide` obligation per public function (`safe`: no write can reach an array
reachable from a parameter; for the copy=False paths `safeExcept`: only the first parameter may be written);
Props/C13.lean holds the soundness theorem of the analysis.  The dynamic part snapshots every argument before a real
call and compares afterwards (also when the call raises); it is the failing-input search and validates the translator."""
import sys, inspect, re, time
from common import *  # noqa
sys.path.insert(0, os.path.join(VERIF, 'translate')); import cores  # noqa: E402
import effects_common as ec
import effects_inputs as ei

PID = 'C13'
T_CALL = 5.0

# Public functions that cannot return normally in this environment, with the observed reason.  Their arguments are still
# snapshotted and compared after the exception.  Any *other* public function that never returns normally on any task is a
# break of the check (it would otherwise pass the dynamic part silently).
CANNOT_RUN = {
    'adjacency_plot_und': "ModuleNotFoundError: mayavi is not installed",
    'agreement': 'D18: dummyvar calls np.sum(<generator>), a TypeError on the installed NumPy',
    'agreement_weighted': 'D18: dummyvar calls np.sum(<generator>), a TypeError on the installed NumPy',
    'dummyvar': 'D18: np.sum(<generator>) is a TypeError on the installed NumPy',
    'find_motif34': 'FileNotFoundError: bct/algorithms/motif34lib.mat is not shipped at the path the code opens',
    'motif3funct_bin': 'FileNotFoundError: motif34lib.mat', 'motif3funct_wei': 'FileNotFoundError: motif34lib.mat',
    'motif3struct_bin': 'FileNotFoundError: motif34lib.mat', 'motif3struct_wei': 'FileNotFoundError: motif34lib.mat',
    'motif4funct_bin': 'FileNotFoundError: motif34lib.mat', 'motif4funct_wei': 'FileNotFoundError: motif34lib.mat',
    'motif4struct_bin': 'FileNotFoundError: motif34lib.mat', 'motif4struct_wei': 'FileNotFoundError: motif34lib.mat',
    'make_motif34lib': 'not called: it writes motif34lib.mat into the package directory (/repo must not be touched)',
    'findpaths': 'IndexError for qmax=1 (util[:, q]); TypeError in its progress print for qmax>=2',
    'generate_fc': 'NotImplementedError: unimplemented stub',
    'get_components_old': "TypeError: np.flatnonzero-based indexing with float64 ('expected a sequence of integers') on this NumPy",
    'link_communities': 'TypeError: np.stack called with a generator on this NumPy',
    'path_transitivity': "ValueError: 'setting an array element with a sequence' (retrieve_shortest_path returns a column vector)",
    'search_information': "ValueError: 'setting an array element with a sequence' (same cause as path_transitivity)",
    'reorder_mod': 'IndexError on every partition tried',
}


def diff_info(a, b):
    if isinstance(a, np.ndarray) and isinstance(b, np.ndarray):
        if a.dtype != b.dtype:
            return 'dtype %s -> %s' % (a.dtype, b.dtype)
        if a.shape != b.shape:
            return 'shape %s -> %s' % (a.shape, b.shape)
        neq = ~((a == b) | ((a != a) & (b != b))) if a.dtype.kind in 'fc' else (a != b)
        idx = np.argwhere(neq)
        on_diag = bool(len(idx)) and a.ndim == 2 and bool(np.all(idx[:, 0] == idx[:, 1]))
        i0 = tuple(int(x) for x in idx[0]) if len(idx) else ()
        return '%d entries changed%s, first at %s: %r -> %r' % (len(idx), ' (all on the diagonal)' if on_diag else '', i0,
                                                               a[i0].item() if len(idx) else None, b[i0].item() if len(idx) else None)
    return 'value changed'


_HELD = []      # (task, argument objects, snapshot taken when that call returned) of the last calls made in this worker


def run_task(task):
    bct = import_bct()
    name = task['function']
    f = getattr(bct, name)
    rs = np.random.RandomState(task['bseed'])
    kw = ei.build(name, f, task['kind'], rs, task.get('flags') or None, n=task.get('n'))
    if kw is not None and task.get('n') and 'itr' in kw:
        kw['itr'] = 1
    out = {'task': task, 'fails': [], 'status': 'ok', 'arrays': 0, 'notes': []}
    if kw is None:
        out['status'] = 'nobuild'
        return out
    params = inspect.signature(f).parameters
    if 'seed' in params and 'seed' not in kw:
        kw['seed'] = task['seed']
    if task['copy'] is False:
        kw['copy'] = False
    before = ei.deep_copy(kw)
    t0 = time.time()
    st = call(lambda: f(**kw), t=task.get('t', T_CALL))
    out['secs'] = time.time() - t0
    out['status'] = st[0] if st[0] != 'exc' else 'exc:' + st[1].split(':')[0]
    first = next((p for p in params if p not in ('seed', 'copy')), None)
    for p, v0 in before.items():
        if isinstance(v0, (np.ndarray, list, tuple, dict)) or ei.is_sparse(v0):
            out['arrays'] += 1
            if ei.is_sparse(v0):
                out['notes'].append('sparse_argument_snapshot')
            if task['copy'] is False and p == first:
                continue                       # the array the caller asked to be modified in place
            if not ei.same(v0, kw[p]):
                out['fails'].append(('argument-modified', p, diff_info(v0, kw[p])))
    # HISTORY ACROSS CALLS: the caller keeps its arrays; a routine that stashed a reference to one (cache keyed by size,
    # memoised 'last input') and writes into it during a LATER call also modifies the caller's array
    for (t0, kw0, snap0) in _HELD:
        for p0, v0 in snap0.items():
            if (isinstance(v0, (np.ndarray, list, tuple, dict)) or ei.is_sparse(v0)) and not ei.same(v0, kw0[p0]):
                out.setdefault('earlier', {})[p0] = t0
                out['fails'].append(('argument-modified-by-later-call', p0,
                                     'argument %s of the earlier call %s(<%s arguments, builder seed %d>%s) changed during this later call: %s'
                                     % (p0, t0['function'], t0['kind'], t0['bseed'],
                                        ''.join(', %s=%r' % kv for kv in sorted((t0.get('flags') or {}).items())), diff_info(v0, kw0[p0]))))
                snap0[p0] = ei.deep_copy(kw0[p0])
    _HELD.append((task, kw, ei.deep_copy(kw)))
    del _HELD[:-6]
    if st[0] == 'ok' and first is not None and isinstance(kw.get(first), np.ndarray):
        res = st[1]
        r0 = res[0] if isinstance(res, tuple) and res else res
        if isinstance(r0, np.ndarray):
            try:
                shares = bool(np.shares_memory(r0, kw[first]))
            except Exception:
                shares = False
            if task['copy'] is False:
                # the exception clause: with copy=False the utility operates on the caller's array, i.e. afterwards the
                # argument holds the result -- judged for every function whose docstring promises "in place"
                inplace = shares or r0 is kw[first] or ei.same(r0, kw[first])
                out['notes'].append('copy_false_in_place' if inplace else 'copy_false_not_in_place')
                if not inplace and re.search(r'modif\w*\s+(W|the matrix)\s+in\s+place|in\s+place', f.__doc__ or ''):
                    out['fails'].append(('copy-false-holds-result', first,
                                         'copy=False returned %s but the argument does not hold the result (argument %s)' % (
                                             'a different array', 'unchanged' if ei.same(before[first], kw[first]) else 'changed')))
            elif shares:
                out['notes'].append('result_shares_memory_with_argument')
    return out


SIZES = (12, 33, 65, 130, 220, 260)


def run_sizes(task):
    """SIZE AXIS: the same routine on n = 12, 33, 65, 130, 220, 260 nodes (fast paths that only switch on for larger inputs),
    ascending, until one call gets expensive (cost bound per routine); each step is an ordinary snapshot task"""
    outs, spent = [], 0.0
    for n in SIZES:
        o = run_task(dict(task, n=n, t=task['budget']))
        outs.append(o)
        spent += o.get('secs', 0.0)
        if o['status'] in ('timeout', 'nobuild') or o.get('secs', 0.0) > 0.6 * task['budget'] or spent > 1.5 * task['budget']:
            break
    return outs


def dispatch(task):
    return run_sizes(task) if task.get('mode') == 'sizes' else [run_task(task)]


def main():
    ck = Check(PID)
    ck.cov['rule'] = ('static: one alias/write IR term per function of the bct namespace (+ helpers, copy variants), regenerated from the source, '
                      'one obligation per public function; dynamic: tasks = (public function, argument flavour in {und, bin, dir, wdiag (nonzero '
                      'diagonal), signed (nonzero diagonal), int (int64, nonzero diagonal)} with arbitrary community labels, builder seed); every '
                      'array/list argument is deep-copied before the real call and compared element-for-element (values, dtype, shape) afterwards, '
                      'also when the call raises or times out; non-trivial = distinct task that passed at least one array and returned normally')
    ck.assumptions += ['parameters documented as int/float/bool/str/enum (numpydoc) are immutable scalars; `seed` is not an array',
                       'copy=False of the utilities that have a `copy` parameter (threshold_*, weight_conversion, binarize, normalize, invert, '
                       'logtransform, autofix, generative_model) is the explicit exception: there only the other arguments are compared, and it is '
                       'judged (predicate copy-false-holds-result) that the argument then holds the result, for every function whose docstring '
                       'promises "in place" (all but generative_model, whose docstring only says some algorithms add edges to the input)',
                       'functions that cannot run on this NumPy / without optional files (agreement: D18, motif*: motif34lib, adjacency_plot_und: '
                       'mayavi) are counted; their arguments are still compared after the exception',
                       'array flags (setflags) are outside the statement (values, dtype, shape)']
    ck.trusted = ['Lean 4.33.0 kernel; axioms per theorem as listed under coverage.theorems',
                  'translate/effects.py: the abstraction Python AST -> alias/write IR is TRUSTED (table of NumPy operations that return views / fresh '
                  'arrays / write in place; numpydoc scalar parameters; frame merging for recursive functions; a store into a container is visible only '
                  'through the names of its alias class); biased to fail (no rule => `unknown`, rejected as soon as a caller-owned array is involved) '
                  'and validated dynamically by the argument snapshots of this check',
                  'functions listed under not_covered_static hand their arguments to an optional external library (mayavi) and have no obligation',
                  'NumPy view/copy semantics as tabulated in the translator']
    tres = ec.run_translator_safe(ck, 'alias')
    if tres is None:      # the generated module on disk is stale: do not count its obligations
        ck.lean_gate(['BctVerif.Props.C13'], extra_modules=['BctVerif.Model.AliasIR'])
        ck.obl.append(('BctVerif.Gen.EffectsAlias (not regenerated: translator crashed)', False, []))
        ck.finish()
    tr, res, summ = tres
    ec.selftest_breaks(ck, res)
    ck.count('translator_selftests', summ['selftests'])
    # T-gen source pins (translate/cores.py): rename-tolerant normalised bodies of routines this check covers that have no interpreted tie
    ck.cov['cores'] = cores.generate(families=['pinutil'])
    for p_ in ck.cov['cores']['problems']:
        ck.corr_break('core extractor (translate/cores.py)', p_)
    ok = ck.lean_gate(['BctVerif.Props.C13'], extra_modules=['BctVerif.Model.AliasIR'], gen_modules=['BctVerif.Gen.EffectsAlias'])
    ck.lean_gate([], gen_modules=['BctVerif.Gen.CoresPinUtil'])
    mirror = {n: d['fails'] for n, d in res['alias'].items() if d['fails'] and d['public'] and n not in res['not_covered_static']}
    ec.name_failed_obligations(ck, 'BctVerif.Gen.EffectsAlias', mirror)
    if ck.tier == 'thorough' and ok:
        ck.leanchecker(['BctVerif.Props.C13', 'BctVerif.Model.AliasIR', 'BctVerif.Gen.EffectsAlias'])
    ck.count('translated_functions', summ['alias_functions'])
    ck.count('generated_obligations', summ['alias_public_obligations'])
    ck.count('ir_nodes', summ['alias_nodes'])
    ck.dist['not_covered_static'] = res['not_covered_static']
    ck.dist['unknown_constructs'] = res['unknown_constructs'][:40]

    bct = import_bct()
    pub = ec.public_functions(bct)
    static_pub = sorted(res['public'])
    if sorted(pub) != static_pub:
        ck.corr_break('translator namespace resolution', {'only_dynamic': sorted(set(pub) - set(static_pub)),
                                                          'only_static': sorted(set(static_pub) - set(pub))})
    if ck.replay:
        case = json.load(open(ck.replay))['case']
        tasks = ([case['earlier_task']] if case.get('earlier_task') else []) + [case['task']]      # a sequence: earlier call, then this one
    else:
        reps = 1 if ck.tier == 'quick' else 8
        tasks = []
        for name in sorted(pub):
            has_copy = 'copy' in inspect.signature(pub[name]).parameters
            combos = ei.flag_combos(pub[name], ck.rs, cap=16)
            ck.count('flag_combinations', len(combos))
            for kind in ei.KINDS:
                for _ in range(reps):
                    for fl in combos:
                        for cp in ([None, False] if has_copy else [None]):
                            tasks.append({'function': name, 'kind': kind, 'flags': fl, 'bseed': int(ck.rs.randint(2 ** 31)),
                                          'seed': int(ck.rs.randint(2 ** 31)), 'copy': cp})
    if not ck.replay:
        for name in sorted(pub):
            has_copy = 'copy' in inspect.signature(pub[name]).parameters
            # special inputs (default flags): edgeless float / int / bool, single node, -0.0 zeros with max exactly 1.0,
            # dyadic row-stochastic matrices and probability vectors whose float sum is exactly 1.0, float32
            for kind in ei.SPECIAL_KINDS:
                for _ in range(1 if ck.tier == 'quick' else 4):
                    for cp in ([None, False] if has_copy else [None]):
                        tasks.append({'function': name, 'kind': kind, 'flags': {}, 'bseed': int(ck.rs.randint(2 ** 31)),
                                      'seed': int(ck.rs.randint(2 ** 31)), 'copy': cp})
            # size axis
            for kind in (('und', 'dir') if ck.tier == 'quick' else ('und', 'dir', 'bin', 'wdiag', 'signed', 'int', 'bool', 'stoch')):
                tasks.append({'mode': 'sizes', 'function': name, 'kind': kind, 'flags': {}, 'bseed': int(ck.rs.randint(2 ** 31)),
                              'seed': int(ck.rs.randint(2 ** 31)), 'copy': None, 'budget': 2.0 if ck.tier == 'quick' else 12.0})
        # never group by routine or flavour: every worker interleaves routines, flavours, flags, sizes
        tasks = [tasks[int(i)] for i in ck.rs.permutation(len(tasks))]
    results = [o for outs in pmap(dispatch, tasks) for o in outs]
    ran = {}
    for r in results:
        t = r['task']
        fn = t['function']
        ck.count('status:' + r['status'].split(':')[0])
        ck.count('kind:' + t['kind'])
        if t.get('n'):
            ck.count('n=%d' % t['n'])
        if r['status'] != 'nobuild':
            ck.count('real_calls')
            ck.count('argument_snapshots_compared', r['arrays'])
        ran.setdefault(fn, 0)
        if r['status'] == 'ok':
            ran[fn] += 1
        for n in r['notes']:
            ck.count(n)
            if n != 'copy_false_in_place':
                ck.count(n + ':' + fn)
        nt = r['status'] == 'ok' and r['arrays'] > 0
        ck.case(sample={'function': fn, 'kind': t['kind'], 'copy': t['copy'], 'arrays': r['arrays']} if nt and fn[0] in 'cgr' else None,
                nontrivial_key=digest([fn, t['kind'], t['bseed'], t['copy'], t.get('flags'), t.get('n')]) if nt else None)
        for pred, p, info in r['fails']:
            ck.violation(fn, pred, {'task': {k: v for k, v in t.items() if k not in ('mode', 'budget')}, 'call': '%s(<%s%s arguments, builder seed %d>%s%s)' % (
                fn, t['kind'], (' n=%d' % t['n']) if t.get('n') else '', t['bseed'], ''.join(', %s=%r' % kv for kv in sorted((t.get('flags') or {}).items())),
                ', copy=False' if t['copy'] is False else ''), 'parameter': p, 'info': info, 'status': r['status'],
                'earlier_task': (r.get('earlier') or {}).get(p) if pred == 'argument-modified-by-later-call' else None},
                {'kind': t['kind'], 'parameter': p})
    ck.dist['functions_exercised'] = len(ran)
    never = sorted(fn for fn, n in ran.items() if n == 0)
    ck.dist['not_exercised (cannot return normally here; arguments still compared)'] = {fn: CANNOT_RUN[fn] for fn in never if fn in CANNOT_RUN}
    if not ck.replay:
        for fn in never:
            if fn not in CANNOT_RUN:
                ck.breaks.append({'kind': 'never-returns-normally', 'function': fn,
                                  'note': 'every dynamic call raised or timed out and the function is not on the cannot-run list'})
        for fn in CANNOT_RUN:
            if ran.get(fn, 0) > 0:
                ck.count('cannot_run_list_stale:' + fn)
    ck.cov['traces_validated_against_impl'] = sum(1 for r in results if r['status'] != 'nobuild')
    ck.finish()


if __name__ == '__main__':
    main()
