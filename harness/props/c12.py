"""C12 — every path the library returns is a real path with the reported length."""
import sys
from common import *  # noqa
sys.path.insert(0, os.path.join(VERIF, 'translate')); import cores  # noqa: E402
import dist_common as dc

PID = 'C12'
FUNCS = {'retrieve_shortest_path', 'navigation_wu'}


def main():
    ck = Check(PID)
    ck.cov['rule'] = ('cases = (a) graphs as in C03 (exhaustive small binary / lengths {1,2,3} / {1,2,4} with inv and log, random n<=10): '
                      'distance_wei_floyd then retrieve_shortest_path for every ordered pair (s,t), each path checked edge by edge; '
                      '(b) navigation_wu on every undirected 4-node graph and directed 3-node graph with lengths, random graphs n<=10, '
                      'nodal distances = Manhattan grid / ring / random symmetric integers, max_hops in {None,1,2,n}; '
                      'non-trivial = distinct case with a multi-hop path or an unreachable / failed pair')
    ck.assumptions += ['existing connections have positive length / weight (the property quantifies over all length or weight matrices; the theorems need nothing else: a family with a non-zero diagonal is part of every run); storage varies over float64/float32/int64/int32/uint8/bool and C/Fortran/transposed order on a third of the cases',
                       's = t: the code returns the empty sequence for every input (hops[s,s] = 0; theorem retrieve_self, predicate self-pair-empty); the path clauses are stated and checked for s != t',
                       'every bct call runs under the watchdog with a 10x retry; a call of distance_wei_floyd / retrieve_shortest_path / navigation_wu with max_hops given that still does not return is a violation does-not-return; only navigation_wu(max_hops=None) is counted (more than 20 % timeouts = break)',
                       'navigation_wu calls that hit the watchdog (greedy walk cycling with max_hops=None) are counted as timeouts: termination is not claimed',
                       "inexact float lengths ('log' transform, decimal lengths k/10): validated against the oracle by tolerance 1e-9 only, no model correspondence"]
    # T-gen: re-extract the core update steps from /repo's current source (translate/cores.py); the generated
    # obligations say the extracted IR is the reference program whose interpreter is proved equal to the model
    ck.cov['cores'] = cores.generate(families=['floyd', 'path', 'pindist'])
    for p_ in ck.cov['cores']['problems']:
        ck.corr_break('core extractor (translate/cores.py)', p_)
    ok = ck.lean_gate(['BctVerif.Props.C12'], extra_modules=['BctVerif.Model.Dist'])
    ck.lean_gate([], gen_modules=['BctVerif.Gen.CoresFloyd', 'BctVerif.Gen.CoresPath', 'BctVerif.Gen.CoresPinDist'])
    if ck.tier == 'thorough' and ok:
        ck.leanchecker(['BctVerif.Props.C12', 'BctVerif.Model.Dist'])
    rp = json.load(open(ck.replay)) if ck.replay else None
    if rp is not None and isinstance(rp.get('case'), dict) and 'case' in rp['case']:
        c0 = rp['case']['case']
        # a failure may depend on what the worker process ran before (hidden state): replay the case as a two-step sequence
        # (itself, then itself again) unless it already is a sequence / probe
        cases = [c0 if c0.get('kind') in ('seq', 'probe', 'nav', 'big', 'bad', 'size') else
                 {'kind': 'seq', 'A': c0['A'], 'steps': [c0, c0], 'gen': 'replay', **({'only': c0['only']} if c0.get('only') else {})}]
    else:      # no replay, or a `no-failing-input-found` replay: run the whole tier
        cases = [dict(c, only='floyd') for c in dc.gen_dist_cases(ck.rs, ck.tier) if c['kind'] in ('bin', 'wei', 'log', 'flt', 'abs', 'seq', 'size') or (c['kind'] == 'bad' and c.get('what') == 'self-loops')]
        cases += dc.gen_nav_cases(ck.rs, ck.tier)
        npr = 500 if ck.tier == 'thorough' else 50
        pr = ['retrieve', 'navigation_wu', 'floyd_none', 'floyd_inv', 'floyd_log', 'edit_floyd', 'pair_wei_floyd']
        cases += [dc.gen_probe(ck.rs, pr[k % len(pr)]) for k in range(npr)]
    if rp is None:
        # interleave: workers must not see the cases grouped by routine / family / size (hidden state carried between calls)
        order = ck.rs.permutation(len(cases)); cases = [cases[i] for i in order]
        # the few large size-axis cases (seconds each) go to the head of distinct chunks so that they run in parallel from the start
        bigc = [c for c in cases if c.get('kind') == 'size' and c['spec']['n'] >= 200]
        rest = [c for c in cases if not (c.get('kind') == 'size' and c['spec']['n'] >= 200)]
        step = max(1, len(cases) // (16 * 8))
        for k, c in enumerate(bigc):
            rest.insert(min(len(rest), k * step), c)
        cases = rest
    results = pmap(dc.run_case, cases)
    dc.absorb(ck, cases, results, FUNCS)
    dc.timeout_rates(ck)
    if ok:
        dc.drive(ck, cases, results, 'paths')
    ck.finish()


if __name__ == '__main__':
    main()
