"""C05 -- seeded calls are reproducible and never touch the global random stream.

T-gen: translate/effects.py re-derives an RNG-effect skeleton per seed-accepting function (and the helpers it calls)
from /repo's current source; Gen/EffectsRng.lean holds one `decide` obligation per function; Props/C05.lean holds the
meta-theorems.  The dynamic part is the failing-input search on the real code and validates the translator."""
import sys, random as pyrandom, pickle
from common import *  # noqa
sys.path.insert(0, os.path.join(VERIF, 'translate')); import cores  # noqa: E402
import effects_common as ec
import effects_inputs as ei

PID = 'C05'
T_CALL = 6.0

# seed-accepting functions that cannot be exercised dynamically, with the reason; every other seed-accepting function
# must return normally in at least one seeded task and must not time out in more than half of its tasks (else: break)
NOT_EXERCISED = {
    'generate_fc': 'NotImplementedError: unimplemented stub (raises right after get_rng(seed)); only the global-state clauses are evaluated',
    'mleme_constraint_model': "static only: bct.algorithms.models cannot be imported (cannot import name 'BibTex' from bct.due) and the "
                              'function is an unimplemented stub',
}
# partner routines for the interleaving clause (cheap, always runnable, they draw)
PARTNER = ('makerandCIJ_und', {'n': 7, 'k': 9})
PARTNER2 = ('makerandCIJ_dir', {'n': 7, 'k': 9})
# integer seeds outside what RandomState accepts go through get_rng's fallback path
OUT_OF_RANGE_SEEDS = [-1, -7, 2 ** 32, 2 ** 40 + 17, 2 ** 63 - 1]

# functions whose skeleton contains a draw that the inputs of this check are not expected to reach
NO_DRAW_EXPECTED = {'generate_fc': 'raises before any draw'}


def _state_equal(a, b):
    return a[0] == b[0] and bool(np.array_equal(a[1], b[1])) and tuple(a[2:]) == tuple(b[2:])


def _call(f, kw, seed, has_seed=True, retry=10, globals_state=None):
    """retry: a repetition that times out is re-run once with 10x the budget -- 'ok vs timeout' between repetitions is a
    verdict (same-seed-identical), so a single wall-clock hit on a loaded machine must not produce it"""
    # Every attempt must be the SAME experiment.  A watchdog retry re-runs the callable after a first attempt that was
    # cut off somewhere: everything the attempt may have consumed or modified is therefore (re)created inside the
    # callable -- fresh copies of the arguments, a fresh generator object when `seed` is a factory (callable), and for
    # unseeded calls the state of both global generators (`globals_state`).
    def attempt():
        k = ei.deep_copy(kw)
        if seed is not None:
            k['seed'] = seed() if callable(seed) else seed
        if globals_state is not None:
            np.random.seed(globals_state[0])
            pyrandom.seed(globals_state[1])
        return f(**k)
    return call(attempt, t=T_CALL, retry=retry)


def _res_equal(r1, r2):
    if r1[0] != r2[0]:
        return False
    if r1[0] == 'ok':
        return ei.same_value(r1[1], r2[1])
    return r1[1] == r2[1]        # same exception text / both timeouts


def run_task(task):
    """one (function, input flavour, seed, prior history) -> dict(status, fails=[(predicate, info)], draws, ...)"""
    bct = import_bct()
    name = task['function']
    rs = np.random.RandomState(task['bseed'])
    if name == 'nbs_parallel.nbs_bct':       # not in the bct namespace; run in the main process (it forks a Pool)
        import importlib
        f = importlib.import_module('bct.nbs_parallel').nbs_bct
        kw = ei.build('nbs_bct', None, task['kind'], rs)
        kw['workers'] = 2
    else:
        f = getattr(bct, name)
        kw = ei.build(name, f, task['kind'], rs)
    out = {'task': task, 'fails': [], 'status': 'ok', 'calls': 0, 'local_draws': 0}
    if kw is None:
        out['status'] = 'nobuild'
        return out
    s = task['seed']
    # arbitrary prior history of the two process-global generators
    np.random.seed(task['prior'][0])
    np.random.rand(task['prior'][1])
    pyrandom.seed(task['prior'][2])
    for _ in range(task['prior'][3]):
        pyrandom.random()
    np0, py0 = np.random.get_state(), pyrandom.getstate()
    r1 = _call(f, kw, s, retry=3)      # a first-call timeout is only counted (mostly-timeouts bound), so a short retry suffices
    np1, py1 = np.random.get_state(), pyrandom.getstate()
    out['calls'] += 1
    out['status'] = r1[0] if r1[0] != 'exc' else 'exc:' + exc_kind(r1[1])
    out['exc'] = r1[1] if r1[0] == 'exc' else None
    if not _state_equal(np0, np1):
        out['fails'].append(('numpy-global-state-unchanged', 'np.random.get_state() differs after the seeded call (int seed)'))
    if py0 != py1:
        out['fails'].append(('python-random-state-unchanged', 'random.getstate() differs after the seeded call (int seed)'))
    if r1[0] == 'timeout':
        return out
    seq = ['%s(<%s arguments, builder seed %d>, seed=%d)' % (name, task['kind'], task['bseed'], s)]
    r2 = _call(f, kw, s)
    r2b = _call(f, kw, s)
    out['calls'] += 2
    seq += [seq[0], seq[0]]
    if not (_res_equal(r1, r2) and _res_equal(r1, r2b)):
        which = 'second' if not _res_equal(r1, r2) else 'third'
        out['fails'].append(('same-seed-identical', 'three consecutive calls with seed=%d: the %s differs from the first (%s / %s / %s); sequence: %s'
                             % (s, which, r1[0], r2[0], r2b[0], ' ; '.join(seq))))
    # interleaving with a different routine that is given the same seed
    g = getattr(bct, PARTNER[0] if name != PARTNER[0] else PARTNER2[0])
    gkw = dict(PARTNER[1] if name != PARTNER[0] else PARTNER2[1])
    gname = PARTNER[0] if name != PARTNER[0] else PARTNER2[0]
    g1 = _call(g, gkw, s)
    r2c = _call(f, kw, s)
    g2 = _call(g, gkw, s)
    out['calls'] += 3
    seq2 = seq[:1] + ['%s(%s, seed=%d)' % (gname, ', '.join('%s=%r' % kv for kv in gkw.items()), s), seq[0], '%s(..., seed=%d)' % (gname, s)]
    if not _res_equal(r1, r2c):
        out['fails'].append(('same-seed-identical', 'after a call of %s with the same seed=%d the result differs from the first call; sequence: %s'
                             % (gname, s, ' ; '.join(seq2))))
    if not _res_equal(g1, g2):
        out['fails'].append(('same-seed-identical', '%s(seed=%d) differs before / after a call of %s with the same seed; sequence: %s'
                             % (gname, s, name, ' ; '.join(seq2))))
    in_range = 0 <= s < 2 ** 32
    if not in_range:
        # RandomState(s) cannot be constructed: the int == RandomState(int) clause does not apply; the other clauses do
        out['local_draws'] = -1
    else:
        r3 = _call(f, kw, lambda: np.random.RandomState(s))
        out['calls'] += 1
        if not _res_equal(r1, r3):
            out['fails'].append(('int-seed-equals-RandomState', 'seed=%d vs seed=RandomState(%d) differ (%s vs %s)' % (s, s, r1[0], r3[0])))
        # recording generator: global state untouched with a RandomState seed as well; count the local draws
        np.random.seed(task['prior'][0] + 1)
        pyrandom.seed(task['prior'][2] + 1)
        np0, py0 = np.random.get_state(), pyrandom.getstate()
        recs = []
        r4 = _call(f, kw, lambda: (recs.append(Recorder(s)), recs[-1])[1])
        rec = recs[-1]          # the generator of the attempt that produced r4
        out['calls'] += 1
        out['local_draws'] = len(rec.log)
        if not _state_equal(np0, np.random.get_state()):
            out['fails'].append(('numpy-global-state-unchanged', 'np.random.get_state() differs after the seeded call (RandomState seed)'))
        if py0 != pyrandom.getstate():
            out['fails'].append(('python-random-state-unchanged', 'random.getstate() differs after the seeded call (RandomState seed)'))
        if not _res_equal(r1, r4):
            out['fails'].append(('int-seed-equals-RandomState', 'seed=%d vs recording RandomState(%d) differ' % (s, s)))
    # unseeded: a function of arguments and numpy's global state alone
    np.random.seed(task['useed'])
    pyrandom.seed(11)
    py0 = pyrandom.getstate()
    u1 = _call(f, kw, None, retry=0, globals_state=(task['useed'], 11))      # a timeout here is not a verdict: no retry
    npa = np.random.get_state()
    if py0 != pyrandom.getstate():
        out['fails'].append(('unseeded-python-random-untouched', 'random.getstate() differs after the unseeded call'))
    np.random.seed(task['useed'])
    pyrandom.seed(12345)            # a different state of Python's generator must not matter
    u2 = _call(f, kw, None, retry=0, globals_state=(task['useed'], 12345))
    out['calls'] += 2
    if u1[0] != 'timeout' and u2[0] != 'timeout':
        if not _res_equal(u1, u2):
            out['fails'].append(('unseeded-reproducible-after-np-seed', 'np.random.seed(%d); f(...) twice differ (%s vs %s)' % (task['useed'], u1[0], u2[0])))
        elif not _state_equal(npa, np.random.get_state()):
            out['fails'].append(('unseeded-reproducible-after-np-seed', 'global generator ends in different states after identical unseeded calls'))
    out['unseeded_status'] = u1[0]
    return out


def _build(bct, name, kind, bseed, over=None, flags=None):
    f = getattr(bct, name)
    kw = ei.build(name, f, kind, np.random.RandomState(bseed), flags or None)
    if kw is not None and over:
        kw = dict(kw)
        kw.update(over)
    return f, kw


def _desc(name, kind, bseed, over, flags, seed):
    extra = ''.join(', %s=%r' % kv for kv in sorted({**(flags or {}), **(over or {})}.items()))
    return '%s(<%s arguments, builder seed %d>%s, seed=%r)' % (name, kind, bseed, extra, seed)


def run_history(task):
    """HISTORY ACROSS CALLS.  Executed as the only task of a freshly forked process (nothing of bct has run in it):
    call X first, then other calls of the same routine with other parameter values / flags / matrices and calls of sibling
    routines, then X again: same arguments and seed must give the same result whatever ran in between."""
    bct = import_bct()
    out = {'task': task, 'fails': [], 'status': 'ok', 'calls': 0, 'local_draws': -1, 'history': True}
    f, kw = _build(bct, task['function'], task['kind'], task['bseed'], task.get('over'), task.get('flags'))
    if kw is None:
        out['status'] = 'nobuild'
        return out
    s = task['seed']
    seq = [_desc(task['function'], task['kind'], task['bseed'], task.get('over'), task.get('flags'), s)]
    r_first = _call(f, kw, s, retry=3)
    out['calls'] += 1
    out['status'] = r_first[0] if r_first[0] != 'exc' else 'exc:' + exc_kind(r_first[1])
    if r_first[0] == 'timeout':
        return out
    for o in task['others']:
        g, gkw = _build(bct, o['function'], o['kind'], o['bseed'], o.get('over'), o.get('flags'))
        if gkw is None:
            continue
        _call(g, gkw, o['seed'], retry=0)
        out['calls'] += 1
        seq.append(_desc(o['function'], o['kind'], o['bseed'], o.get('over'), o.get('flags'), o['seed']))
        if o.get('check'):          # re-check X after every step so that the replay names the shortest prefix
            r_mid = _call(f, kw, s)
            out['calls'] += 1
            if not _res_equal(r_first, r_mid):
                out['fails'].append(('result-depends-on-history', 'the first call in a fresh process and the same call after %d other call(s) differ (%s vs %s); '
                                     'sequence: %s ; %s' % (len(seq) - 1, r_first[0], r_mid[0], ' ; '.join(seq), seq[0])))
                return out
    r_again = _call(f, kw, s)
    out['calls'] += 1
    if not _res_equal(r_first, r_again):
        out['fails'].append(('result-depends-on-history', 'the first call in a fresh process and the same call after %d other calls differ (%s vs %s); '
                             'sequence: %s ; %s' % (len(seq) - 1, r_first[0], r_again[0], ' ; '.join(seq), seq[0])))
    return out


def _mutate_first_matrix(args):
    """in place, staying in the domain: re-weight one existing off-diagonal edge symmetrically (2-D float/int arrays),
    or swap two entries of a vector"""
    for a in args:
        if isinstance(a, np.ndarray) and a.ndim == 2 and a.shape[0] == a.shape[1] and a.shape[0] > 2 and a.dtype.kind in 'fiu':
            idx = np.argwhere((a != 0) & ~np.eye(a.shape[0], dtype=bool))
            if len(idx):
                i, j = idx[len(idx) // 2]
                v = a[i, j]
                a[i, j] = 0
                if a[j, i] == v:
                    a[j, i] = 0          # lesion the edge in both directions of a symmetric matrix
                return
        if isinstance(a, np.ndarray) and a.ndim == 1 and len(a) > 2:
            a[[0, -1]] = a[[-1, 0]]
            return


def run_reuse(task):
    """OBJECT REUSE (common.reuse_probe): f(A, seed=s); edit A in place; f on the SAME objects vs f on fresh copies"""
    bct = import_bct()
    out = {'task': task, 'fails': [], 'status': 'ok', 'calls': 3, 'local_draws': -1, 'reuse': True}
    f, kw = _build(bct, task['function'], task['kind'], task['bseed'])
    if kw is None:
        out['status'] = 'nobuild'
        return out
    names = [k for k, v in kw.items() if isinstance(v, np.ndarray)]
    if not names:
        out['status'] = 'noarrays'
        return out
    scal = {k: v for k, v in kw.items() if k not in names}
    partner = task.get('partner')

    def fn(*arrs, seed=None):
        a = dict(zip(names, arrs))
        if partner:                     # a sibling routine sees the same argument objects first
            g = getattr(bct, partner)
            ps = [p for p in __import__('inspect').signature(g).parameters]
            if ps and names:
                try:
                    g(**{ps[0]: arrs[0]}, **({'itr': 1} if 'itr' in ps else {}), **({'seed': seed} if 'seed' in ps else {}))
                except Exception:  # noqa
                    pass
        return f(**a, **scal, seed=seed)
    fn.__name__ = task['function']
    d = reuse_probe(fn, [kw[k] for k in names], _mutate_first_matrix, t=T_CALL, seed=task['seed'])
    if d is not None:
        out['fails'].append(('result-depends-on-history', {'probe': d, 'sequence': '%s ; <edit %s in place> ; same call on the same objects vs on fresh copies'
                                                            % (_desc(task['function'], task['kind'], task['bseed'], None, None, task['seed']), names[0]),
                                                           'partner_called_first_on_same_object': partner}))
    return out


def run_light(task):
    """the core clauses with five calls (used for the special inputs and along the size axis): seeded call leaves both global
    generators alone, same seed twice identical, int seed == RandomState(int), unseeded reproducible after np.random.seed"""
    import time
    bct = import_bct()
    name = task['function']
    f = getattr(bct, name)
    kw = ei.build(name, f, task['kind'], np.random.RandomState(task['bseed']), None, n=task.get('n'))
    out = {'task': task, 'fails': [], 'status': 'ok', 'calls': 0, 'local_draws': -1, 'light': True, 'secs': 0.0}
    if kw is None:
        out['status'] = 'nobuild'
        return out
    if task.get('n') and 'itr' in kw:
        kw['itr'] = 1
    s, T = task['seed'], task.get('t', T_CALL)
    what = '%s(<%s%s arguments, builder seed %d>, seed=%d)' % (name, task['kind'], (' n=%d' % task['n']) if task.get('n') else '', task['bseed'], s)

    def go(seed, gstate=None, retry=0):
        def attempt():
            k = ei.deep_copy(kw)
            if seed is not None:
                k['seed'] = seed() if callable(seed) else seed
            if gstate is not None:
                np.random.seed(gstate)
            return f(**k)
        out['calls'] += 1
        return call(attempt, t=T, retry=retry)
    np.random.seed(task['prior'][0])
    np.random.rand(task['prior'][1])
    pyrandom.seed(task['prior'][2])
    np0, py0 = np.random.get_state(), pyrandom.getstate()
    t0 = time.time()
    r1 = go(s)
    out['secs'] = time.time() - t0
    out['status'] = r1[0] if r1[0] != 'exc' else 'exc:' + exc_kind(r1[1])
    if not _state_equal(np0, np.random.get_state()):
        out['fails'].append(('numpy-global-state-unchanged', 'np.random.get_state() differs after ' + what))
    if py0 != pyrandom.getstate():
        out['fails'].append(('python-random-state-unchanged', 'random.getstate() differs after ' + what))
    if r1[0] == 'timeout':
        return out
    r2 = go(s, retry=5)
    if not _res_equal(r1, r2):
        out['fails'].append(('same-seed-identical', 'two calls differ (%s vs %s): %s' % (r1[0], r2[0], what)))
    if 0 <= s < 2 ** 32:
        r3 = go(lambda: np.random.RandomState(s), retry=5)
        if not _res_equal(r1, r3):
            out['fails'].append(('int-seed-equals-RandomState', 'seed=%d vs seed=RandomState(%d) differ (%s vs %s): %s' % (s, s, r1[0], r3[0], what)))
    u1 = go(None, gstate=task['useed'])
    npa = np.random.get_state()
    u2 = go(None, gstate=task['useed'])
    if u1[0] != 'timeout' and u2[0] != 'timeout':
        if not _res_equal(u1, u2):
            out['fails'].append(('unseeded-reproducible-after-np-seed', 'np.random.seed(%d); unseeded %s twice differ' % (task['useed'], what)))
        elif not _state_equal(npa, np.random.get_state()):
            out['fails'].append(('unseeded-reproducible-after-np-seed', 'global generator ends in different states after identical unseeded calls: ' + what))
    return out


SIZES = (12, 33, 65, 130, 220, 260)


def run_sizes(task):
    """SIZE AXIS: the light clause set on n = 12, 33, 65, 130, 220, 260 nodes, ascending, until a call gets expensive"""
    outs, spent = [], 0.0
    for n in SIZES:
        o = run_light(dict(task, n=n, t=task['budget']))
        outs.append(o)
        spent += o['secs']
        if o['status'] in ('timeout', 'nobuild') or o['secs'] > 0.5 * task['budget'] or spent > task['budget']:
            break
    return outs


def dispatch(task):
    m = task.get('mode')
    if m == 'reuse':
        return [run_reuse(task)]
    if m == 'light':
        return [run_light(task)]
    if m == 'sizes':
        return run_sizes(task)
    return [run_task(task)]


def _variants(kw, rs, cap):
    """other parameter values for the same routine: every int / float scalar moved up and down"""
    out = []
    for p, v in kw.items():
        if isinstance(v, bool) or p == 'seed':
            continue
        if isinstance(v, (int, np.integer)):
            out += [{p: int(v) + 1}, {p: int(v) + 2}, {p: max(1, int(v) - 1)}, {p: 2 * int(v)}]
        elif isinstance(v, float):
            out += [{p: v * 2}, {p: v / 2}]
    out = [o for i, o in enumerate(out) if o not in out[:i] and any(kw[k] != x for k, x in o.items())]
    if len(out) > cap:
        out = [out[int(i)] for i in sorted(rs.permutation(len(out))[:cap])]
    return out


def history_tasks(ck, bct, pub, seedful):
    import inspect
    tasks = []
    per_fn = 1 if ck.tier == 'quick' else 6
    for name in seedful:
        fam = [g for g in seedful if g != name and pub[g].__module__ == pub[name].__module__]
        close = [g for g in fam if g[:4] == name[:4]]
        for _ in range(per_fn):
            kind = ('und', 'bin', 'dir')[int(ck.rs.randint(3))]
            bseed = int(ck.rs.randint(2 ** 31))
            kw = ei.build(name, pub[name], kind, np.random.RandomState(bseed))
            if kw is None:
                continue
            sd = int(ck.rs.randint(2 ** 31))
            others = []
            for ov in _variants(kw, ck.rs, 8):                     # same routine, other parameter values
                others.append({'function': name, 'kind': kind, 'bseed': bseed, 'over': ov, 'seed': sd, 'check': True})
            for fl in ei.flag_combos(pub[name], ck.rs, cap=4)[1:]:   # same routine, non-default flags
                others.append({'function': name, 'kind': kind, 'bseed': bseed, 'flags': fl, 'seed': sd, 'check': True})
            others.append({'function': name, 'kind': kind, 'bseed': int(ck.rs.randint(2 ** 31)), 'seed': sd})   # other matrix, same size
            sibs = close + [fam[int(i)] for i in ck.rs.permutation(len(fam))[:3] if fam[int(i)] not in close] if fam else []
            for g in sibs[:8]:
                gk = ei.build(g, pub[g], kind, np.random.RandomState(bseed))
                if gk is None:
                    continue
                others.append({'function': g, 'kind': kind, 'bseed': bseed, 'seed': sd, 'check': True})
                for ov in _variants(gk, ck.rs, 3):
                    others.append({'function': g, 'kind': kind, 'bseed': bseed, 'over': ov, 'seed': sd, 'check': True})
            if ck.tier == 'quick' and len(others) > 14:      # budget: keep the same-routine variants first, sample the rest
                keep = [o for o in others if o['function'] == name][:9]
                rest = [o for o in others if o not in keep]
                others = keep + [rest[int(i)] for i in ck.rs.permutation(len(rest))[:14 - len(keep)]]
            order = [int(i) for i in ck.rs.permutation(len(others))]
            tasks.append({'mode': 'history', 'function': name, 'kind': kind, 'bseed': bseed, 'seed': sd, 'others': [others[i] for i in order]})
    return tasks


def fresh_process_map(func, items, procs=None):
    """every item is the only task of a newly forked process (maxtasksperchild=1), forked from this process in which no bct
    routine has run: 'first call in a fresh worker'"""
    import multiprocessing as mp
    if not items:
        return []
    ctx = mp.get_context('fork')
    with ctx.Pool(procs or min(16, os.cpu_count() or 4), maxtasksperchild=1) as pool:
        return pool.map(func, items, chunksize=1)


def has_draw(res):
    """function name -> does its skeleton (transitively) contain a draw"""
    rng = res['rng']
    memo = {}

    def walk(node, stack):
        k = node[0]
        if k == 'seq':
            return any(walk(c, stack) for c in node[1])
        if k == 'branch':
            return walk(node[1], stack) or walk(node[2], stack)
        if k == 'loop':
            return walk(node[1], stack)
        if k == 'draw':
            return True
        if k == 'call':
            return fn(node[1], stack)
        return False

    def fn(n, stack=()):
        if n in memo:
            return memo[n]
        if n in stack or n not in rng:
            return False
        memo[n] = walk(rng[n]['skel'], stack + (n,))
        return memo[n]
    return {n: fn(n) for n in rng}


def get_rng_correspondence(ck, bct):
    """hand model RngIR.getRng vs the real get_rng: None / np.random -> the global instance, RandomState -> itself,
    int -> a fresh RandomState(int) (equal state, not the global instance, global state untouched)"""
    g = bct.get_rng
    glob = np.random.mtrand._rand
    n = 0
    for what, okv in (('None', g(None) is glob), ('absent', g() is glob), ('np.random', g(np.random) is glob)):
        n += 1
        if not okv:
            ck.violation('get_rng', 'none-is-global', {'seed': what}, {})
    for k in [0, 1, 7, 12345, 2 ** 31, 2 ** 32 - 1]:
        r = np.random.RandomState(k)
        r.rand(3)
        n += 1
        if g(r) is not r:
            ck.violation('get_rng', 'randomstate-is-passed-through', {'seed': 'RandomState(%d)' % k}, {})
        np.random.seed(99)
        pyrandom.seed(99)
        s0, p0 = np.random.get_state(), pyrandom.getstate()
        a = g(k)
        n += 1
        if a is glob or not _state_equal(a.get_state(), np.random.RandomState(k).get_state()):
            ck.violation('get_rng', 'int-is-fresh-RandomState', {'seed': k}, {})
        if not _state_equal(s0, np.random.get_state()) or p0 != pyrandom.getstate():
            ck.violation('get_rng', 'global-state-unchanged', {'seed': k}, {})
    for k in [0, 5, 2 ** 32 - 1] + OUT_OF_RANGE_SEEDS:     # get_rng(seed) twice: equal states, distinct objects, also after use
        for rnd in range(3):
            a, b = call(g, k, t=2), call(g, k, t=2)
            n += 1
            if a[0] != 'ok' or b[0] != 'ok':
                if a != b:
                    ck.violation('get_rng', 'same-seed-identical', {'seed': k, 'sequence': 'get_rng(%d) twice' % k, 'results': [str(a)[:80], str(b)[:80]]}, {})
                continue
            if a[1] is b[1] or a[1] is glob:
                ck.violation('get_rng', 'int-gives-distinct-fresh-objects', {'seed': k, 'sequence': 'get_rng(%d); get_rng(%d)' % (k, k), 'round': rnd}, {})
            if not _state_equal(a[1].get_state(), b[1].get_state()):
                ck.violation('get_rng', 'same-seed-same-state', {'seed': k, 'sequence': 'get_rng(%d); get_rng(%d)' % (k, k), 'round': rnd}, {})
            if rnd == 0:
                first_state = a[1].get_state()
            elif not _state_equal(first_state, a[1].get_state()):
                ck.violation('get_rng', 'same-seed-same-state', {'seed': k, 'sequence': 'get_rng(%d).rand(5) ; get_rng(%d)' % (k, k), 'round': rnd}, {})
            a[1].rand(5)            # using a returned generator must not influence later get_rng calls
    for k in [2 ** 40 + 3, 'abc', (1, 2)]:      # not accepted by RandomState: the fallback path must stay deterministic and local
        np.random.seed(5)
        pyrandom.seed(5)
        s0, p0 = np.random.get_state(), pyrandom.getstate()
        st = call(g, k, t=2)
        st2 = call(g, k, t=2)
        n += 1
        if st[0] == 'ok' and st2[0] == 'ok':
            if not _state_equal(st[1].get_state(), st2[1].get_state()):
                ck.violation('get_rng', 'same-seed-identical', {'seed': repr(k)}, {})
        if not _state_equal(s0, np.random.get_state()) or p0 != pyrandom.getstate():
            ck.violation('get_rng', 'global-state-unchanged', {'seed': repr(k)}, {})
    ck.count('get_rng_cases', n)


def main():
    ck = Check(PID)
    ck.never_ok_exempt = set(NOT_EXERCISED)      # unimplemented stubs: they raise on every call by construction (reasons above)
    ck.cov['rule'] = ('static: one RNG-effect skeleton per function with a `seed` parameter and per helper it calls, regenerated from the '
                      'source; dynamic: tasks = (seed-accepting public function, input flavour, int seed, prior history of np.random and '
                      'random, np.random.seed value for the unseeded clause); each task makes 6 calls of the real function; non-trivial = '
                      'distinct task whose seeded call returned normally and made at least one draw on the recording generator')
    ck.assumptions += ['calls that hit the watchdog or that raise on this NumPy (e.g. D5, D18) are counted, not failed; for a raising call the '
                       'global-state clauses are still evaluated and the same exception is expected on repetition',
                       'bct.nbs_parallel.nbs_bct is not part of the bct namespace and has no static obligation (multiprocessing dispatch is '
                       'outside the IR); it is exercised dynamically only']
    ck.trusted = ['Lean 4.33.0 kernel; axioms per theorem as listed under coverage.theorems',
                  'translate/effects.py: the abstraction Python AST -> RNG-effect IR is TRUSTED (which calls are random draws, through which '
                  'generator object, which seed argument nested calls receive); biased to fail (unknown generator / other seed argument) and '
                  'validated dynamically by the six clauses evaluated on the real code in this check',
                  'hand model of get_rng (RngIR.getRng) tied to bct.get_rng by the correspondence cases of this check',
                  'NumPy RandomState / CPython random semantics (RandomState(k) deterministic; get_state complete)']
    tres = ec.run_translator_safe(ck, 'rng')
    if tres is None:      # the generated module on disk is stale: do not count its obligations
        ck.lean_gate(['BctVerif.Props.C05'], extra_modules=['BctVerif.Model.RngIR'])
        ck.obl.append(('BctVerif.Gen.EffectsRng (not regenerated: translator crashed)', False, []))
        ck.finish()
    tr, res, summ = tres
    ec.selftest_breaks(ck, res)
    ck.count('translator_selftests', summ['selftests'])
    # T-gen source pins (translate/cores.py): rename-tolerant normalised bodies of routines this check covers that have no interpreted tie
    ck.cov['cores'] = cores.generate(families=['pingen', 'pinrew'])
    for p_ in ck.cov['cores']['problems']:
        ck.corr_break('core extractor (translate/cores.py)', p_)
    ok = ck.lean_gate(['BctVerif.Props.C05'], extra_modules=['BctVerif.Model.RngIR'], gen_modules=['BctVerif.Gen.EffectsRng'])
    ck.lean_gate([], gen_modules=['BctVerif.Gen.CoresPinGen', 'BctVerif.Gen.CoresPinRewire'])
    mirror = {n: d['fails'] for n, d in res['rng'].items() if d['fails']}
    ec.name_failed_obligations(ck, 'BctVerif.Gen.EffectsRng', mirror)
    if ck.tier == 'thorough' and ok:
        ck.leanchecker(['BctVerif.Props.C05', 'BctVerif.Model.RngIR', 'BctVerif.Gen.EffectsRng'])
    ck.count('translated_functions', summ['rng_functions'])
    ck.count('translated_seedful', summ['rng_seedful'])
    ck.dist['seedless_public_functions_with_global_draws (outside C05: they accept no seed)'] = summ['seedless_public_functions_with_global_draws']
    ck.dist['skipped_modules'] = sorted(res['skipped_modules'])

    bct = import_bct()
    pub = ec.public_functions(bct)
    import inspect
    seedful = sorted(n for n, f in pub.items() if 'seed' in inspect.signature(f).parameters and n != 'get_rng')
    static_seedful = sorted(n for n, d in res['rng'].items() if d['has_seed'] and n in pub)
    if seedful != static_seedful:
        ck.corr_break('translator namespace resolution', {'only_dynamic': sorted(set(seedful) - set(static_seedful)),
                                                          'only_static': sorted(set(static_seedful) - set(seedful))})
    hist, reuse = [], []
    if ck.replay:
        tasks = [json.load(open(ck.replay))['case']['task']]
        if isinstance(tasks[0], dict) and tasks[0].get('mode') == 'history':
            hist, tasks = tasks, []
    else:
        hist = history_tasks(ck, bct, pub, seedful)
        for name in seedful:
            for kind in (('und', 'dir') if ck.tier == 'quick' else ('und', 'bin', 'dir', 'wdiag', 'signed')):
                for rep in range(1 if ck.tier == 'quick' else 3):
                    sibs = [g for g in seedful if g != name and g[:4] == name[:4]]
                    reuse.append({'mode': 'reuse', 'function': name, 'kind': kind, 'bseed': int(ck.rs.randint(2 ** 31)),
                                  'seed': int(ck.rs.randint(2 ** 31)),
                                  'partner': sibs[int(ck.rs.randint(len(sibs)))] if sibs and rep % 2 == 0 and kind == 'und' else None})
    # history tasks first: their processes are forked from this one before any bct routine has run here
    hist_results = fresh_process_map(run_history, hist)
    # shrink a failing sequence: try every single other call on its own (X ; Y ; X in a fresh process each)
    for i, r in enumerate(list(hist_results)):
        if r['fails'] and len(r['task']['others']) > 1:
            singles = [dict(r['task'], others=[dict(o, check=True)]) for o in r['task']['others']]
            for r1 in fresh_process_map(run_history, singles):
                if r1['fails']:
                    hist_results[i] = r1
                    break
    get_rng_correspondence(ck, bct)

    if ck.replay:
        pass
    else:
        kinds = ('und', 'bin', 'dir') if ck.tier == 'quick' else ('und', 'bin', 'dir', 'wdiag', 'signed')
        nseeds = 3 if ck.tier == 'quick' else 16
        tasks = []
        for name in seedful:
            for ki, kind in enumerate(kinds):
                for j in range(nseeds):
                    # the last seed of every (function, flavour) is an integer that RandomState rejects (get_rng's fallback path)
                    sd = int(ck.rs.randint(2 ** 31)) if j < nseeds - 1 else OUT_OF_RANGE_SEEDS[int(ck.rs.randint(len(OUT_OF_RANGE_SEEDS)))]
                    tasks.append({'function': name, 'kind': kind, 'bseed': int(ck.rs.randint(2 ** 31)), 'seed': sd,
                                  'prior': [int(ck.rs.randint(2 ** 31)), int(ck.rs.randint(0, 50)), int(ck.rs.randint(2 ** 31)), int(ck.rs.randint(0, 50))],
                                  'useed': int(ck.rs.randint(2 ** 31))})
    par = [t for t in tasks if t['function'] == 'nbs_parallel.nbs_bct']
    tasks = [t for t in tasks if t['function'] != 'nbs_parallel.nbs_bct']
    if not ck.replay:
        for _ in range(2 if ck.tier == 'quick' else 8):
            par.append({'function': 'nbs_parallel.nbs_bct', 'kind': 'und', 'bseed': int(ck.rs.randint(2 ** 31)), 'seed': int(ck.rs.randint(2 ** 31)),
                        'prior': [int(ck.rs.randint(2 ** 31)), int(ck.rs.randint(0, 50)), int(ck.rs.randint(2 ** 31)), int(ck.rs.randint(0, 50))],
                        'useed': int(ck.rs.randint(2 ** 31))})
    tasks = tasks + reuse
    if not ck.replay:
        def _t(name, kind, mode, **k):
            return dict({'mode': mode, 'function': name, 'kind': kind, 'bseed': int(ck.rs.randint(2 ** 31)), 'seed': int(ck.rs.randint(2 ** 31)),
                         'prior': [int(ck.rs.randint(2 ** 31)), int(ck.rs.randint(0, 50)), int(ck.rs.randint(2 ** 31)), 0],
                         'useed': int(ck.rs.randint(2 ** 31))}, **k)
        for name in seedful:
            # special inputs: edgeless float / int / bool, single node, -0.0 zeros, dyadic row-stochastic, float32
            for kind in ei.SPECIAL_KINDS:
                for _ in range(1 if ck.tier == 'quick' else 4):
                    tasks.append(_t(name, kind, 'light'))
            # size axis
            for kind in ((('und', 'dir')[int(ck.rs.randint(2))],) if ck.tier == 'quick' else ('und', 'dir', 'bin', 'signed', 'int')):
                for _ in range(1 if ck.tier == 'quick' else 2):
                    tasks.append(_t(name, kind, 'sizes', budget=2.0 if ck.tier == 'quick' else 25.0))
        # never group by routine: every worker interleaves routines, flavours, sizes and modes
        tasks = [tasks[int(i)] for i in ck.rs.permutation(len(tasks))]
    results = [o for outs in pmap(dispatch, tasks) for o in outs] + [run_task(t) for t in par] + hist_results
    hd = has_draw(res)
    seen_draw, ran = {}, {}
    for r in results:
        t = r['task']
        fn = t['function']
        ck.count('status:' + r['status'].split(':')[0])
        ck.count('real_calls', r['calls'])
        if r.get('history'):
            ck.count('history_sequences (fresh process; X, other calls, X)')
        if r.get('reuse'):
            ck.count('reuse_probes')
        if r.get('light'):
            ck.count('light_tasks (special inputs / size axis)')
        if t.get('n'):
            ck.count('n=%d' % t['n'])
        ck.count('kind:' + t['kind'])
        if r['status'] in ('timeout', 'nobuild'):
            ck.count(r['status'] + ':' + fn)
        ran.setdefault(fn, 0)
        if r['status'] == 'ok':
            ran[fn] += 1
        seen_draw[fn] = seen_draw.get(fn, 0) + max(0, r.get('local_draws', 0))
        ck.count('seed_in_range' if 0 <= t['seed'] < 2 ** 32 else 'seed_out_of_range')
        nt = r['status'] == 'ok' and r.get('local_draws', 0) != 0
        ck.case(sample={'function': fn, 'kind': t['kind'], 'seed': t['seed'], 'local_draws': r.get('local_draws')} if nt else None,
                nontrivial_key=digest([fn, t['kind'], t['bseed'], t['seed'], t.get('n'), t.get('mode')]) if nt else None)
        for pred, info in r['fails']:
            ck.violation(fn, pred, {'task': {k: v for k, v in t.items() if k != 'budget' and not (k == 'mode' and v == 'sizes')} if not t.get('n') else dict({k: v for k, v in t.items() if k not in ('budget', 't')}, mode='light'), 'info': info, 'status': r['status']}, {'kind': t['kind']})
    never = sorted(fn for fn, n in ran.items() if n == 0)
    ck.dist['functions_exercised'] = len(ran)
    ck.dist['not_exercised'] = dict(NOT_EXERCISED)
    ntasks, ntimeouts = {}, {}
    for r in results:
        fn = r['task']['function']
        ntasks[fn] = ntasks.get(fn, 0) + 1
        if r['status'] == 'timeout':
            ntimeouts[fn] = ntimeouts.get(fn, 0) + 1
    if not ck.replay:
        for fn in never:
            if fn not in NOT_EXERCISED:
                ck.breaks.append({'kind': 'never-returns-normally', 'function': fn,
                                  'note': 'every seeded call raised or timed out and the function is not on the not-exercised list'})
        for fn, k in ntimeouts.items():
            if 2 * k > ntasks[fn]:
                ck.breaks.append({'kind': 'mostly-timeouts', 'function': fn, 'timeouts': k, 'tasks': ntasks[fn]})
        for fn in NOT_EXERCISED:
            if ran.get(fn, 0) > 0:
                ck.count('not_exercised_list_stale:' + fn)
    # translator validation: recorded local draws vs skeleton
    for fn in sorted(ran):
        if fn in hd and not hd[fn] and seen_draw.get(fn, 0) > 0:
            ck.corr_break('translator: skeleton without draw', {'function': fn, 'recorded_local_draws': seen_draw[fn]})
        if fn in hd and hd[fn] and seen_draw.get(fn, 0) == 0 and not ck.replay and fn not in NO_DRAW_EXPECTED:
            # the generator handed in as seed was never used although the skeleton says the function draws
            ck.corr_break('translator / inputs: skeleton has draws but the recording generator saw none', {'function': fn, 'normal_returns': ran[fn]})
    ck.cov['traces_validated_against_impl'] = sum(1 for r in results if r['status'] == 'ok')
    ck.finish()


if __name__ == '__main__':
    main()
