import subprocess
"""C03 — shortest-path distance matrices equal true minimum path lengths."""
import sys
from common import *  # noqa
sys.path.insert(0, os.path.join(VERIF, 'translate')); import cores  # noqa: E402
import dist_common as dc

PID = 'C03'
FUNCS = {'distance_bin', 'distance_wei', 'distance_wei_floyd', 'breadthdist', 'breadth', 'reachdist', 'charpath',
         'efficiency_bin', 'efficiency_wei', 'rout_efficiency', 'distance'}


def main():
    ck = Check(PID)
    ck.cov['rule'] = ('cases = graphs: every directed binary graph n<=4 and undirected n<=5, every directed graph n<=3 / undirected n=4 with '
                      'lengths in {1,2,3} (and {1,2,4} with the weight matrix 1/L for the inv and log transforms), slices of directed n=4 / '
                      'undirected n=5 with lengths {1,2} (quick tier: random slices of all of these), random and structured graphs n=5..10 '
                      '(chains with chords, two components, sinks/sources), weights k/8 in (0,1] for log; on each graph all routines of the '
                      'property are run; non-trivial = distinct graph with a multi-hop shortest path or an unreachable pair')
    ck.assumptions += ['every bct call runs under the watchdog with a 10x retry; a call that still does not return is a violation does-not-return (the models are proved total), also in the self-loop stream',
                       'existing connections have positive length / weight; the diagonal is empty except in the self-loop family (judged for distance_bin, reachdist, distance_wei, distance_wei_floyd, whose theorems do not need it; breadthdist there by correspondence only); storage varies over float64/float32/int64/int32/uint8/bool and C/Fortran/transposed order on a third of the cases (float32 only where the routine does not divide)',
                       "'log' transform: compared with the oracle by tolerance 1e-9 only (no model correspondence)",
                       'charpath/efficiency values compared with the exact rational of the model by tolerance 1e-9',
                       'rout_efficiency: only GErout and Erout (global part) are covered; local efficiencies are out of scope']
    # T-gen: re-extract the core update steps from /repo's current source (translate/cores.py); the generated
    # obligations say the extracted IR is the reference program whose interpreter is proved equal to the model
    ck.cov['cores'] = cores.generate(families=['floyd', 'dijk', 'bin', 'bfs', 'reach', 'char', 'eff', 'pindist'])
    for p_ in ck.cov['cores']['problems']:
        ck.corr_break('core extractor (translate/cores.py)', p_)
    ok = ck.lean_gate(['BctVerif.Props.C03'], extra_modules=['BctVerif.Model.Dist'])
    ck.lean_gate([], gen_modules=['BctVerif.Gen.CoresFloyd', 'BctVerif.Gen.CoresDijk', 'BctVerif.Gen.CoresBin', 'BctVerif.Gen.CoresBfs', 'BctVerif.Gen.CoresReach', 'BctVerif.Gen.CoresChar', 'BctVerif.Gen.CoresEff', 'BctVerif.Gen.CoresPinDist'])
    if ck.tier == 'thorough':
        # translator self-test (every listed mutant must fail its obligation, every listed harmless edit must pass)
        st_ = subprocess.run(['/venv/bin/python', os.path.join(VERIF, 'translate', 'cores_selftest.py')], capture_output=True, text=True, timeout=3000,
                             env=dict(os.environ, BCT_LEAN=LEAN, BCT_REPO=REPO))
        ck.cov['translator_selftest'] = (st_.stdout.strip().split('\n') or [''])[-1][:200]
        if st_.returncode != 0:
            ck.corr_break('core translator self-test (translate/cores_selftest.py)', (st_.stdout + st_.stderr)[-600:])
    if ck.tier == 'thorough' and ok:
        ck.leanchecker(['BctVerif.Props.C03', 'BctVerif.Model.Dist'])
    rp = json.load(open(ck.replay)) if ck.replay else None
    if rp is not None and isinstance(rp.get('case'), dict) and 'case' in rp['case']:
        c0 = rp['case']['case']
        # a failure may depend on what the worker process ran before (hidden state): replay the case as a two-step sequence
        # (itself, then itself again) unless it already is a sequence / probe
        cases = [c0 if c0.get('kind') in ('seq', 'probe', 'nav', 'big', 'bad', 'size', 'reclimit') else
                 {'kind': 'seq', 'A': c0['A'], 'steps': [c0, c0], 'gen': 'replay', **({'only': c0['only']} if c0.get('only') else {})}]
    else:      # no replay, or a `no-failing-input-found` replay (broken theorem / correspondence): run the whole tier
        cases = dc.gen_dist_cases(ck.rs, ck.tier)
    if rp is None:
        # interleave: workers must not see the cases grouped by routine / family / size (hidden state carried between calls)
        order = ck.rs.permutation(len(cases)); cases = [cases[i] for i in order]
        # the few large size-axis cases (seconds each) go to the head of distinct chunks so that they run in parallel from the start
        bigc = [c for c in cases if c.get('kind') == 'size' and c['spec']['n'] >= 200]
        rest = [c for c in cases if not (c.get('kind') == 'size' and c['spec']['n'] >= 200)]
        step = max(1, len(cases) // (16 * 8))
        for k, c in enumerate(bigc):
            rest.insert(min(len(rest), k * step), c)
        cases = rest
    results = pmap(dc.run_case, cases)
    dc.absorb(ck, cases, results, FUNCS)
    dc.timeout_rates(ck)
    if ok:
        dc.drive(ck, cases, results, 'dist')
    ck.finish()


if __name__ == '__main__':
    main()
