"""C20 — synthetic generators deliver the requested size, edge count and symmetry."""
import sys, math
from common import *  # noqa
sys.path.insert(0, os.path.join(VERIF, 'translate')); import cores  # noqa: E402
import seq_common as seqc
import scipy.stats, scipy.linalg  # noqa  (imported here so that maketoeplitzCIJ's in-function import never runs under the watchdog)

PID = 'C20'
MODELLED = {'makerandCIJ_dir', 'makerandCIJ_und', 'makeringlatticeCIJ', 'makeevenCIJ', 'makerandCIJdegreesfixed',
            'maketoeplitzCIJ', 'makefractalCIJ'}
MAX_REPLAY_DRAWS = 40000     # longer toeplitz rejection runs are judged by the predicates only, except:
GIVEUP_REPLAYS = {'quick': 1, 'thorough': 12}   # this many give-up runs (10001 rounds, N <= 5) go through the model per run
DEGREESFIXED_GIVEUP_BOUND = 0.15   # documented-limitation level is ~7 % of graphical pairs; more than this is a new VIOLATION

_SEEN = []


class SpyArray(np.ndarray):
    """what rng.random_sample((n, n)) returns during one observed call: records the float matrix it is compared with
    (`u < template` in maketoeplitzCIJ, `prob > u` in makefractalCIJ, which Python dispatches to the subclass's reflected __lt__)"""

    def __lt__(self, other):
        _SEEN.append(np.array(other, dtype=float)); return np.asarray(self) < np.asarray(other)

    def __gt__(self, other):
        _SEEN.append(np.array(other, dtype=float)); return np.asarray(self) > np.asarray(other)


class SpyRecorder(Recorder):
    def random_sample(self, size=None):
        v = super().random_sample(size)
        return v.view(SpyArray) if isinstance(v, np.ndarray) else v


def thr_str(x):
    f = fractions.Fraction(float(x))
    return '%d/%d' % (f.numerator, f.denominator)


def circ_dist(n):
    D = np.zeros((n, n), dtype=int)
    for i in range(n):
        for j in range(n):
            D[i, j] = min(abs(i - j), n - abs(i - j))
    return D


def cond_of(c):
    d = {'routine': c['routine']}
    if c['routine'] == 'makerandCIJdegreesfixed':
        d['graphical'] = bool(c.get('graphical'))
    if c['routine'] == 'maketoeplitzCIJ':
        d['hit_prob_le_2e-3'] = toeplitz_hit_prob(c['n'], c['k'], c['s']) <= 2e-3
    if c['routine'] in ('makeevenCIJ', 'makefractalCIJ'):
        d['n_is_1'] = bool(c.get('n1'))
    return d


def toeplitz_hit_prob(n, k, s):
    """exact probability that ONE sample `u < template` has exactly K connections, for the ideal template computed here
    independently of bct (Gaussian profile scaled to sum K; an entry >= 1 is always set, <= 0 or NaN never): a Poisson-binomial
    over the N(N-1) off-diagonal cells.  The rejection loop draws 10001 samples, so it gives up with probability (1-q)^10001:
    q <= 2e-3 means a give-up is to be expected with probability > 1e-9 (q = 0: K exceeds the number of cells with positive
    probability, lies below the number of cells with probability 1, or the profile underflowed to a NaN template);
    for q > 2e-3 a give-up has probability < 1e-9 on correct code."""
    from scipy import stats, linalg
    if k == 0:
        return 1.0
    if n < 2:
        return 0.0
    with np.errstate(all='ignore'):
        pf = stats.norm.pdf(range(1, n), .5, s)
        T = linalg.toeplitz(np.append((0,), pf))
        T = T * (k / T.sum())
    if not np.all(np.isfinite(T)):
        return 0.0
    ps = [min(1.0, max(0.0, float(T[i, j]))) for i in range(n) for j in range(n) if i != j]
    dist = np.zeros(k + 2); dist[0] = 1.0
    for p_ in ps:
        dist[1:] = dist[1:] * (1 - p_) + dist[:-1] * p_
        dist[0] *= (1 - p_)
    return float(dist[k])


def toeplitz_deficit(n, k, s):
    """K minus the expected number of connections of one sample when the ideal template (Gaussian profile scaled to sum K,
    computed here independently of bct) is clipped at probability 1.  A rejection sampler can only be expected to fail
    10000 times when this is large: every give-up seen on the unmodified code has a deficit > 5, every case with a
    deficit < 3 succeeds within a few rounds."""
    from scipy import stats, linalg
    if n < 2 or k <= 0:
        return 0.0
    pf = stats.norm.pdf(range(1, n), .5, s)
    T = linalg.toeplitz(np.append((0,), pf))
    T = T * (k / T.sum())
    return float(k - np.minimum(T, 1).sum())


def represent_vec(v, rep):
    """the same degree sequence as int64 / int32 array, python list, or a non-contiguous slice of a longer array"""
    rep = rep or 'int64'
    if rep == 'list':
        return list(v)
    if rep == 'strided':
        big = np.full(2 * len(v) + 1, 9, dtype=np.int64); big[1::2] = v
        return big[1::2]
    return np.array(v, dtype=np.dtype(rep))


def basic(F, X, n, sym=None):
    """shape, 0/1 values, empty diagonal (+ symmetry) — common to every generator"""
    if X.shape != (n, n):
        F.append(('shape', {'shape': list(X.shape)})); return False
    if not np.all((X == 0) | (X == 1)):
        F.append(('zero-one', {'values': sorted(set(X.ravel().tolist()))[:6]}))
    if np.any(np.diag(X) != 0):
        F.append(('diagonal', {}))
    if sym and not np.array_equal(X, X.T):
        F.append(('symmetry', {}))
    return True


def run_case(c):
    bct = import_bct()
    r = c['routine']; F = []
    res = {'fails': F, 'draws': []}
    if not c.get('replay', True):
        seed = c['seed']                   # large case judged by the predicates only: nothing recorded
    elif r in ('maketoeplitzCIJ', 'makefractalCIJ'):
        del _SEEN[:]
        seed = SpyRecorder(c['seed'])
    else:
        seed = Recorder(c['seed'])
    if r in ('makerandCIJ_dir', 'makerandCIJ_und', 'makeringlatticeCIJ'):
        st, out = call(getattr(bct, r), c['n'], c['k'], seed=seed, t=c.get('t', 5), retry=10)
    elif r == 'makeevenCIJ':
        st, out = call(bct.makeevenCIJ, c['n'], c['k'], c['sz_cl'], seed=seed, t=c.get('t', 5), retry=10)
    elif r == 'maketoeplitzCIJ':
        st, out = call(bct.maketoeplitzCIJ, c['n'], c['k'], c['s'], seed=seed, t=c.get('t', 5), retry=10)
    elif r == 'makefractalCIJ':
        st, out = call(bct.makefractalCIJ, c['mx_lvl'], c['E'], c['sz_cl'], seed=seed, t=c.get('t', 5), retry=10)
    elif r == 'makerandCIJdegreesfixed':
        st, out = call(bct.makerandCIJdegreesfixed, represent_vec(c['inv'], c.get('rep')), represent_vec(c['outv'], c.get('rep')), seed=seed, t=c.get('t', 5), retry=10)
    res['status'] = st
    if isinstance(seed, Recorder):
        res['draws'] = seed.flat()
    if r in ('maketoeplitzCIJ', 'makefractalCIJ') and c.get('replay', True):
        res['thr'] = _SEEN[0].tolist() if _SEEN else None
        res['thr_stable'] = all(np.array_equal(t, _SEEN[0]) for t in _SEEN)
        del _SEEN[:]
    if st == 'exc':
        res['exc'] = out; return res
    if st != 'ok':
        return res
    if r == 'makefractalCIJ':
        X, kret = out; res['kret'] = int(kret)
    else:
        X = out
    X = np.asarray(X)
    if X.dtype == bool:
        X = X.astype(int)
    X = X.astype(float)
    res['X'] = X.tolist()
    if not np.all(X == np.round(X)):        # mat_str truncates: never let a non-integer entry reach the exact comparison
        F.append(('zero-one', {'non_integer_entries': True})); return res
    if c.get('malformed'):
        return res
    # ---- independent predicates
    if r == 'makerandCIJ_dir':
        if basic(F, X, c['n']) and X.sum() != c['k']:
            F.append(('count', {'sum': float(X.sum())}))
    elif r == 'makerandCIJ_und':
        if basic(F, X, c['n'], sym=True):
            if np.triu(X, 1).sum() != c['k'] or X.sum() != 2 * c['k']:
                F.append(('count', {'upper': float(np.triu(X, 1).sum()), 'sum': float(X.sum())}))
    elif r == 'makeringlatticeCIJ':
        n, k = c['n'], c['k']
        if basic(F, X, n):
            if X.sum() != k:
                F.append(('count', {'sum': float(X.sum())}))
            D = circ_dist(n)
            used = sorted(set(D[X != 0].tolist()))
            if used:
                cmax = used[-1]
                # every nearer band (wrap-around distance < cmax) is full: excess came out of the outermost band only
                if np.any((D >= 1) & (D < cmax) & (X == 0)):
                    F.append(('bands-nearest-first', {'outermost': cmax, 'holes_at': sorted(set(D[(D >= 1) & (D < cmax) & (X == 0)].tolist()))}))
                # the outermost band was needed
                if ((D >= 1) & (D < cmax)).sum() >= k:
                    F.append(('band-not-needed', {'outermost': cmax}))
    elif r == 'makeevenCIJ':
        n, k, s = c['n'], c['k'], c['sz_cl']
        if basic(F, X, n):
            if X.sum() != k:
                F.append(('count', {'sum': float(X.sum())}))
            blk = 2 ** s
            for i in range(n):
                for j in range(n):
                    if i != j and i // blk == j // blk and X[i, j] != 1:
                        F.append(('clusters-full', {'cell': [i, j]})); break
                else:
                    continue
                break
    elif r == 'maketoeplitzCIJ':
        if basic(F, X, c['n']) and X.sum() != c['k']:
            F.append(('count', {'sum': float(X.sum())}))
    elif r == 'makefractalCIJ':
        if basic(F, X, 2 ** c['mx_lvl']) and X.sum() != res['kret']:
            F.append(('reported-count', {'sum': float(X.sum()), 'reported': res['kret']}))
    elif r == 'makerandCIJdegreesfixed':
        if basic(F, X, len(c['inv'])):
            if X.sum(0).tolist() != [float(x) for x in c['inv']]:
                F.append(('in-degrees', {'got': X.sum(0).tolist()}))
            if X.sum(1).tolist() != [float(x) for x in c['outv']]:
                F.append(('out-degrees', {'got': X.sum(1).tolist()}))
    return res


def lean_line(c, res):
    draws = ','.join(map(str, res['draws'])) or '-'
    if c['routine'] == 'maketoeplitzCIJ':
        T = np.array(res['thr']) if res.get('thr') is not None else np.zeros((c['n'], c['n']))
        if not np.all(np.isfinite(T)):
            return None                 # the profile underflowed: NaN template, nothing to hand to the model
        return 'maketoeplitzCIJ n=%d k=%d prof=%s draws=%s' % (c['n'], c['k'], ','.join(thr_str(x) for x in T[0, 1:]) or '-', draws)
    if c['routine'] == 'makefractalCIJ':
        n = 2 ** c['mx_lvl']
        P = np.array(res['thr']) if res.get('thr') is not None else np.zeros((n, n))
        if not np.all(np.isfinite(P)):
            return None
        return 'makefractalCIJ n=%d k=0 mx=%d szcl=%d E=%d prob=%s draws=%s' % (n, c['mx_lvl'], c['sz_cl'], c['E'], ','.join(thr_str(x) for x in P.ravel()), draws)
    if c['routine'] == 'makerandCIJdegreesfixed':
        return '%s n=%d k=0 inv=%s outv=%s draws=%s' % (c['routine'], len(c['inv']), ','.join(map(str, c['inv'])) or '-',
                                                       ','.join(map(str, c['outv'])) or '-', ','.join(map(str, res['draws'])) or '-')
    s = '%s n=%d k=%d draws=%s' % (c['routine'], c['n'], c['k'], ','.join(map(str, res['draws'])) or '-')
    if c['routine'] == 'makeevenCIJ':
        s += ' mx=%d szcl=%d' % (int(math.floor(math.log2(c['n']))), c['sz_cl'])
    return s


def expected_line(c, res):
    if res['status'] == 'exc':
        return 'error=' + exc_kind(res['exc'])
    if c['routine'] == 'makefractalCIJ':
        return 'C=%s k=%d left=0' % (mat_str(np.array(res['X'])), res['kret'])
    return 'C=%s left=0' % mat_str(np.array(res['X']))


def gen_cases(rs, tier):
    big = tier == 'thorough'
    nmax = 8 if not big else 11
    seeds = 5
    cases = []
    for n in range(2, nmax + 1):
        for k in range(0, n * (n - 1) + 1):
            for _ in range(seeds):
                cases.append({'routine': 'makerandCIJ_dir', 'n': n, 'k': k, 'seed': int(rs.randint(2 ** 31))})
                cases.append({'routine': 'makeringlatticeCIJ', 'n': n, 'k': k, 'seed': int(rs.randint(2 ** 31))})
        for k in range(0, n * (n - 1) // 2 + 1):
            for _ in range(seeds):
                cases.append({'routine': 'makerandCIJ_und', 'n': n, 'k': k, 'seed': int(rs.randint(2 ** 31))})
    # infeasible K (no claim; the model must still agree with the code)
    for n in (3, 4, 5):
        for r in ('makerandCIJ_dir', 'makerandCIJ_und', 'makeringlatticeCIJ'):
            cases.append({'routine': r, 'n': n, 'k': n * n + 3, 'seed': int(rs.randint(2 ** 31)), 'malformed': 'k-infeasible'})
    # even: n power of two, cluster size 2^sz_cl, every feasible K (clusters .. full)
    # N = 2 (mx_lvl = 1) is a power of two: the template loop body never runs
    for k in (0, 1, 2):
        for s in (1,):
            for _ in range(2):
                cases.append({'routine': 'makeevenCIJ', 'n': 2, 'k': max(k, 2), 'sz_cl': s, 'seed': int(rs.randint(2 ** 31)), 'mx1': True})
    # N = 1 = 2**0: no hierarchical level at all
    cases.append({'routine': 'makeevenCIJ', 'n': 1, 'k': 0, 'sz_cl': 1, 'seed': 1, 'n1': True})
    cases.append({'routine': 'makefractalCIJ', 'mx_lvl': 0, 'E': 2, 'sz_cl': 1, 'seed': 1, 'n1': True})
    # N not a power of two: the code shrinks it to 2**floor(log2 N) with a printed warning (no claim; the model's driver does the same)
    for n, k, s in ((5, 9, 1), (6, 12, 2), (7, 5, 1), (12, 40, 2), (3, 2, 1)):
        cases.append({'routine': 'makeevenCIJ', 'n': n, 'k': k, 'sz_cl': s, 'seed': int(rs.randint(2 ** 31)), 'malformed': 'n-not-power-of-two',
                      'mx1': n < 4})
    for n in ((4, 8) if not big else (4, 8, 16)):
        for s in range(1, int(math.log2(n)) + 1):
            ncl = n * (2 ** s - 1)
            ks = list(range(ncl, n * (n - 1) + 1))
            if n == 16:
                ks = sorted(set(int(x) for x in rs.choice(ks, 25)) | {ncl, n * (n - 1)})
            for k in ks:
                for _ in range(seeds if n < 16 else 2):
                    cases.append({'routine': 'makeevenCIJ', 'n': n, 'k': k, 'sz_cl': s, 'seed': int(rs.randint(2 ** 31))})
            if ncl > 0:
                cases.append({'routine': 'makeevenCIJ', 'n': n, 'k': ncl - 1, 'sz_cl': s, 'seed': 1, 'malformed': 'k-below-clusters'})
    # toeplitz: if it returns, count = K
    for n in range(3, (7 if not big else 9)):
        ks = list(range(0, (n * (n - 1) // 2 if n > 4 else n * (n - 1)) + 1))   # n <= 4: every feasible K
        if n in (5, 6):
            ks += [n * (n - 1) - 2, n * (n - 1)]                               # a few dense K (the rejection loop gives up for small s)
        for k in ks:
            for s in (.001, .01, .02, .25, .3, .5, 1.0, 2.0, 4.0):
                if s < 1 and not big and (n > 5 or (k + n) % 2):      # narrow profiles: a slice in the quick tier (give-ups cost 10001 rounds)
                    continue
                for _ in range((2 if s >= 1 else 1) if not big else seeds):
                    cases.append({'routine': 'maketoeplitzCIJ', 'n': n, 'k': k, 's': s, 'seed': int(rs.randint(2 ** 31))})
    # fractal
    for mx in ((1, 2, 3, 4) if not big else (1, 2, 3, 4, 5)):
        for E in (1, 2, 3, 4):
            for s in range(1, mx + 1):
                for _ in range(seeds if mx > 1 else 2):
                    cases.append({'routine': 'makefractalCIJ', 'mx_lvl': mx, 'E': E, 'sz_cl': s, 'seed': int(rs.randint(2 ** 31)), 'mx1': mx == 1})
    # E = 0 (1/0**ee = inf): outside the domain, must not upset the harness
    cases.append({'routine': 'makefractalCIJ', 'mx_lvl': 2, 'E': 0, 'sz_cl': 1, 'seed': 1, 'malformed': 'E-zero'})
    # degrees fixed: graphical pairs = degree sequences of random simple digraphs, n <= 5 (+ the empty graph)
    for n in ((2, 3, 4, 5, 6) if not big else (2, 3, 4, 5, 6, 7, 8)):
        cases.append({'routine': 'makerandCIJdegreesfixed', 'inv': [0] * n, 'outv': [0] * n, 'seed': 1, 'graphical': True})
        for _ in range(30 if not big else 120):
            A = rand_graph(rs, n, float(rs.choice([.2, .4, .6, .8])), True)
            if A.sum() == 0:
                continue
            for _s in range(seeds if big else 3):
                cases.append({'routine': 'makerandCIJdegreesfixed', 'inv': [int(x) for x in A.sum(0)], 'outv': [int(x) for x in A.sum(1)],
                              'seed': int(rs.randint(2 ** 31)), 'graphical': True})
                if rs.rand() < .4:      # representation axis: dtype / container / stride of the two degree vectors
                    cases[-1]['rep'] = ['int32', 'list', 'strided'][int(rs.randint(3))]
    # non-graphical pairs with equal sums (no claim: raising is fine; the model must still agree)
    for inv, outv in (([1, 1], [2, 0]), ([2, 0, 0], [2, 0, 0]), ([3, 0, 0, 0], [0, 3, 0, 0]), ([2, 2, 0], [0, 2, 2])):
        cases.append({'routine': 'makerandCIJdegreesfixed', 'inv': inv, 'outv': outv, 'seed': int(rs.randint(2 ** 31)), 'graphical': False,
                      'malformed': 'non-graphical'})
    return cases


SIZES = (12, 16, 17, 32, 33, 48, 64, 65, 100, 128, 129, 216, 220, 256, 257)


def size_cases(rs, tier):
    """size axis for every generator: N around 12, 16/17, 32/33, 48, 64/65, 100, 128/129, 216-220, 256/257, K near its extremes and
    in the middle, 4-8 hierarchical levels, degree sequences with > 64 / 500 / 1000 edges; the predicates judge every case, the
    Lean model replays the ones it can do quickly (`replay`)"""
    big = tier == 'thorough'
    cases = []

    def S():
        return int(rs.randint(2 ** 31))

    def pick(xs, m):
        xs = sorted(set(int(x) for x in xs))
        return xs if (big or len(xs) <= m) else sorted(int(x) for x in rs.choice(xs, m, replace=False))
    sizes = SIZES if big else tuple(sorted(set(int(x) for x in rs.choice(SIZES[:11], 6, replace=False)) | {int(rs.choice(SIZES[11:]))}))
    for n in sizes:
        full = n * (n - 1)
        for k in pick([0, 1, 2, full // 4 + int(rs.randint(7)), full // 2 - 1, full // 2, full // 2 + 1, full - 2, full - 1, full], 4):
            cases.append({'routine': 'makerandCIJ_dir', 'n': n, 'k': k, 'seed': S(), 'size': True, 'replay': n <= 33, 't': 60})
            cases.append({'routine': 'makeringlatticeCIJ', 'n': n, 'k': k, 'seed': S(), 'size': True, 'replay': n <= 65, 't': 60})
        h = full // 2
        for k in pick([0, 1, 2, h // 3 + int(rs.randint(5)), h // 2, h - 2, h - 1, h], 4):
            cases.append({'routine': 'makerandCIJ_und', 'n': n, 'k': k, 'seed': S(), 'size': True, 'replay': n <= 33, 't': 60})
    # several hierarchical levels
    for mx in ((4, 5, 6, 7, 8) if big else (4, 5, 6, int(rs.choice([7, 8])))):
        n = 2 ** mx
        for s in pick(range(1, mx + 1), 2):
            ncl = n * (2 ** s - 1); full = n * (n - 1)
            for k in pick([x for x in (ncl, ncl + 1, (ncl + full) // 2, full - 1, full) if ncl <= x <= full], 3):
                cases.append({'routine': 'makeevenCIJ', 'n': n, 'k': k, 'sz_cl': s, 'seed': S(), 'size': True, 'replay': n <= (64 if big else 32), 't': 60})
            for E in pick([1, 2, 3, 4], 2):
                cases.append({'routine': 'makefractalCIJ', 'mx_lvl': mx, 'E': E, 'sz_cl': s, 'seed': S(), 'size': True, 'replay': mx <= 5, 't': 60})
    # toeplitz: K the clipped template can place (no give-up expected), growing N
    for n in ((12, 16, 17, 32, 33, 48, 64, 100) if big else (12, 17, 33, 64)):
        for sd in (1.0, 2.0, 4.0):
            for k in (n, 2 * n, 3 * n):
                if toeplitz_deficit(n, k, sd) < .5:
                    cases.append({'routine': 'maketoeplitzCIJ', 'n': n, 'k': k, 's': sd, 'seed': S(), 'size': True, 'replay': n <= 17, 't': 60})
    # degrees fixed: more than 64, 500, 1000 edges
    for n in ((12, 16, 17, 32, 33, 48, 64, 65, 100) if big else (12, 17, 33, 48, int(rs.choice([64, 65, 100])))):
        for dens in ((.15, .3, .5) if n <= 33 else (.1, .25)):
            for _ in range(3 if big else 2):
                A = rand_graph(rs, n, dens, True)
                cases.append({'routine': 'makerandCIJdegreesfixed', 'inv': [int(x) for x in A.sum(0)], 'outv': [int(x) for x in A.sum(1)],
                              'seed': S(), 'graphical': True, 'size': True, 'replay': n <= 33, 't': 60})
    return cases


def explicit_sequences(rs, tier):
    """sibling generators at equal n in one fresh process, dense requests after sparse ones, options away from the default first"""
    def S():
        return int(rs.randint(2 ** 31))
    seqs = []
    for n in (4, 8):
        mxs = int(math.log2(n)); full = n * (n - 1)
        szc = 1 if n == 4 else 2                      # cluster cells n * (2**szc - 1): 4 resp. 24
        seqs.append([{'routine': 'makeevenCIJ', 'n': n, 'k': n * (2 ** szc - 1) + 6 * (n // 8) + 2 * (n // 4 % 2), 'sz_cl': szc, 'seed': S(), 'seq': True},
                     {'routine': 'makerandCIJ_dir', 'n': n, 'k': full * 3 // 4, 'seed': S(), 'seq': True},
                     {'routine': 'makeevenCIJ', 'n': n, 'k': full - 3, 'sz_cl': 1, 'seed': S(), 'seq': True},
                     {'routine': 'makerandCIJ_und', 'n': n, 'k': full // 2, 'seed': S(), 'seq': True},
                     {'routine': 'makeringlatticeCIJ', 'n': n, 'k': full - 1, 'seed': S(), 'seq': True}])
    for n in range(3, 9):
        full = n * (n - 1)
        seqs.append([{'routine': 'makerandCIJ_dir', 'n': n, 'k': 1, 'seed': S(), 'seq': True},
                     {'routine': 'makerandCIJ_und', 'n': n, 'k': 1, 'seed': S(), 'seq': True},
                     {'routine': 'makeringlatticeCIJ', 'n': n, 'k': 2, 'seed': S(), 'seq': True},
                     {'routine': 'makerandCIJ_dir', 'n': n, 'k': full, 'seed': S(), 'seq': True},
                     {'routine': 'makerandCIJ_und', 'n': n, 'k': full // 2, 'seed': S(), 'seq': True},
                     {'routine': 'makeringlatticeCIJ', 'n': n, 'k': full, 'seed': S(), 'seq': True},
                     {'routine': 'maketoeplitzCIJ', 'n': n, 'k': 2, 's': 1.0, 'seed': S(), 'seq': True},
                     {'routine': 'maketoeplitzCIJ', 'n': n, 'k': full // 2, 's': 4.0, 'seed': S(), 'seq': True}])
    for mx in (2, 3):
        n = 2 ** mx
        seqs.append([{'routine': 'makefractalCIJ', 'mx_lvl': mx, 'E': 3, 'sz_cl': 1, 'seed': S(), 'seq': True},
                     {'routine': 'makeevenCIJ', 'n': n, 'k': n * (n - 1) - 1, 'sz_cl': 1, 'seed': S(), 'seq': True},
                     {'routine': 'makefractalCIJ', 'mx_lvl': mx, 'E': 1, 'sz_cl': mx, 'seed': S(), 'seq': True},
                     {'routine': 'makeevenCIJ', 'n': n, 'k': n * (2 ** mx - 1), 'sz_cl': mx, 'seed': S(), 'seq': True},
                     {'routine': 'makerandCIJ_dir', 'n': n, 'k': n * (n - 1), 'seed': S(), 'seq': True}])
    return seqs


def gen_probes(rs, tier):
    """object-reuse probes for the only generator with array arguments: the degree vectors relabelled in place (stays graphical),
    and the returned matrix edited by the caller before the second call"""
    probes = []
    while len(probes) < (50 if tier != 'thorough' else 500):
        n = int(rs.randint(3, 7)); A = rand_graph(rs, n, float(rs.choice([.3, .5, .7])), True)
        if A.sum() == 0:
            continue
        probes.append({'probe': True, 'kind': ('same', 'edit-returned')[len(probes) % 2], 'routine': 'makerandCIJdegreesfixed',
                       'inv': [int(x) for x in A.sum(0)], 'outv': [int(x) for x in A.sum(1)], 'perm': [int(x) for x in rs.permutation(n)],
                       'seed': int(rs.randint(2 ** 31))})
    return probes


def run_probe(pr):
    bct = import_bct()
    f = bct.makerandCIJdegreesfixed
    if pr['kind'] == 'same':
        def fn(inv, outv, seed=None):
            return f(inv, outv, seed=seed)
    else:
        def fn(inv, outv, seed=None):
            out = f(inv, outv, seed=seed)
            out[...] = 1 - out             # the caller edits the returned matrix in place
            return f(inv, outv, seed=seed)

    def mutate(args):
        p = np.array(pr['perm'])
        args[0][:] = args[0][p]; args[1][:] = args[1][p]
    return reuse_probe(fn, [np.array(pr['inv']), np.array(pr['outv'])], mutate, t=5.0, seed=pr['seed'])


def main():
    ck = Check(PID)
    ck.cov['rule'] = ('cases: makerandCIJ_dir / makeringlatticeCIJ every (N,K) with 2<=N<=8(11), 0<=K<=N(N-1); makerandCIJ_und every K<=N(N-1)/2; 5 seeds each; '
                      'makeevenCIJ N in {4,8,(16)}, every cluster size and every feasible K; maketoeplitzCIJ N=3..6(8), K<=N(N-1)/2, s in {1,2,4}; '
                      'makefractalCIJ levels 1..4(5), E in {1,2,3,4} (probabilities checked against 1/E^ee by the model); makeevenCIJ also N = 2 and non-powers of two; makerandCIJdegreesfixed on degree sequences of random simple digraphs N<=6(8), 40 % of them passed as int32 array / python list / strided view; '
                      'a size axis for every generator: N around 12, 16/17, 32/33, 48, 64/65, 100, 128/129, 216-220, 256/257 with K at and near its extremes, 4-8 hierarchical levels, '
                      'degree sequences with > 64 / 500 / 1000 edges (model replay where fast, the independent predicates alone beyond - counted under size-axis:*); '
                      'non-trivial = distinct case in which the generator returned a non-empty matrix')
    ck.assumptions += ['K feasible: K <= N(N-1) (N(N-1)/2 undirected), K >= number of cluster cells for makeevenCIJ, N a power of two >= 4 where required',
                       'maketoeplitzCIJ (10000 rejections) and makerandCIJdegreesfixed (repair loop) may give up with BCTParamError on in-domain input: reported as violations of the '
                       'predicates gives-up-after-10000-rejections / gives-up-on-graphical-input; they match the open known findings only if (degreesfixed) the input is graphical and the '
                       'as-coded model gives up on the same draws, (toeplitz) the exact probability that one sample of the independently computed clipped template has K connections is <= 2e-3 (a give-up then has '
                       'probability > 1e-9; it is 0 when K exceeds the cells with positive probability or the profile underflows to a NaN template); '
                       'any other give-up, and a degreesfixed give-up rate above 15 %, is a new VIOLATION; rates are in coverage.give_up_rates',
                       'history: the shuffled cases run in batches of 40, each batch sequentially in a fresh process, plus explicit sequences of sibling generators at equal n '
                       '(dense requests after sparse ones); a failure is reported with the calls that preceded it in its process (replayed as history + case); '
                       'object-reuse probes (common.reuse_probe) for makerandCIJdegreesfixed, the only generator with array arguments',
                       'a call that hits the watchdog is re-tried once with 10x the budget; > 5 % timeouts or no normal return for a routine is a violation',
                       'maketoeplitzCIJ / makefractalCIJ: the float threshold matrix (scaled Gaussian profile, 1/E**ee) is observed in the real run '
                       '(through the array returned by random_sample) and given to the model as exact dyadic rationals; norm.pdf, the float scaling and the float powers are not modelled',
                       'toeplitz runs with more than %d uniform draws are judged by the predicates only (no replay)' % MAX_REPLAY_DRAWS]
    # T-gen: makeringlatticeCIJ interpreted, makerandCIJdegreesfixed source-pinned (translate/cores.py)
    ck.cov['cores'] = cores.generate(families=['synth'])
    for p_ in ck.cov['cores']['problems']:
        ck.corr_break('core extractor (translate/cores.py)', p_)
    ok = ck.lean_gate(['BctVerif.Props.C20'], extra_modules=['BctVerif.Model.Synth'])
    ck.lean_gate([], gen_modules=['BctVerif.Gen.CoresSynth'])
    if ck.tier == 'thorough' and ok:
        ck.leanchecker(['BctVerif.Props.C20', 'BctVerif.Model.Synth'])
    probes = []
    if ck.replay:
        rp = json.load(open(ck.replay))
        if 'case' in rp and isinstance(rp['case'].get('case'), dict) and rp['case']['case'].get('probe'):
            batches, probes = [], [rp['case']['case']]
        elif 'case' in rp and 'case' in rp['case']:   # a violation replay: the failing input preceded by the calls its process had made before
            batches = [seqc.replay_batch(rp)]
        elif 'case' in rp:
            batches = []                              # aggregate verdicts (rates) have no single input
        else:                       # a 'no longer checks' replay: the correspondence cases named in it
            batches = [[b['detail']['case'] for b in rp.get('no_longer_checks', [])
                        if isinstance(b.get('detail'), dict) and 'case' in b['detail']]]
    else:
        # history across calls: shuffled batches, one fresh process per batch, plus explicit sequences
        sz = size_cases(ck.rs, ck.tier)
        sz = [sz[i] for i in ck.rs.permutation(len(sz))]
        size_batches = [sz[i::max(1, len(sz) // 6)] for i in range(max(1, len(sz) // 6))]     # mixed generators, ~6 per process
        batches = seqc.make_batches(ck.rs, gen_cases(ck.rs, ck.tier), 40, size_batches + explicit_sequences(ck.rs, ck.tier))
        probes = gen_probes(ck.rs, ck.tier)
    cases, results, hist = seqc.run_batches(run_case, batches)
    ck.count('batches', len(batches)); ck.count('explicit_sequence_cases', sum(1 for c in cases if c.get('seq')))
    for pr, d in zip(probes, pmap(run_probe, probes)):
        ck.count('reuse_probe:' + pr['kind'])
        ck.case(nontrivial_key=digest(['probe', pr]))
        if d is not None:
            ck.violation(pr['routine'], 'result-depends-on-history', {'case': pr, 'probe': d}, {'routine': pr['routine']})
    lines, idx, pending = [], [], []
    giveup_budget = GIVEUP_REPLAYS[ck.tier]
    for n_, (c, r) in enumerate(zip(cases, results)):
        rt = c['routine']
        ck.count('routine:' + rt); ck.count('status:' + r['status'])
        nz = r['status'] == 'ok' and bool(np.any(np.array(r['X']) != 0))
        key = {k: v for k, v in c.items() if k != 'seed'}
        ck.case(sample={'case': c, 'ones': float(np.sum(r['X']))} if nz and n_ % 97 == 0 else None,
                nontrivial_key=digest([key, r['draws']]) if nz else None)
        if r['status'] == 'timeout':
            continue
        cond = cond_of(c)
        if c.get('malformed'):
            ck.count('malformed:' + c['malformed'])
        elif r['status'] == 'exc':
            if c.get('n1') and exc_kind(r['exc']) == 'BCTParamError':
                ck.count('n=1:rejected')          # no hierarchical level: the documented error is the acceptable answer (as the model says)
            elif rt in ('makerandCIJdegreesfixed', 'maketoeplitzCIJ') and exc_kind(r['exc']) == 'BCTParamError':
                # in-domain input on which the routine gives up: the property promises a matrix.  Judged after the model has
                # replayed the run (cond['model_gives_up']): only give-ups the as-coded model reproduces can be the known finding
                ck.count(rt + ':gave-up')
                pending.append((n_, cond))
            else:
                ck.violation(rt, 'raises', {'case': c, 'history': hist[n_], 'exception': r['exc']}, cond)
        else:
            for pred, info in r['fails']:
                ck.violation(rt, pred, {'case': c, 'history': hist[n_], 'output': r.get('X'), 'info': info}, cond)
        if rt == 'maketoeplitzCIJ' and r.get('thr') is not None and np.all(np.isfinite(np.array(r['thr'], dtype=float))):
            T = np.array(r['thr']); nn = c['n']
            toep = all(T[i, j] == (0 if i == j else T[0, abs(i - j)]) for i in range(nn) for j in range(nn))
            if not (toep and r['thr_stable']):
                ck.corr_break('maketoeplitzCIJ template is not the Toeplitz matrix of its first row with a zero diagonal', {'case': c, 'template': r['thr']})
        if rt == 'maketoeplitzCIJ' and len(r['draws']) > MAX_REPLAY_DRAWS:
            if r['status'] == 'exc' and giveup_budget > 0 and c['n'] <= 5:
                giveup_budget -= 1; ck.count('toeplitz:give-up-runs-replayed')      # 10001 rounds through the model's loop
            else:
                ck.count('toeplitz:replay-skipped-long-run'); continue
        if rt == 'makerandCIJdegreesfixed':
            ck.count('degreesfixed:rep=%s' % (c.get('rep') or 'int64'))
        if rt == 'makerandCIJdegreesfixed' and len(r['draws']) > sum(c['inv']):
            ck.count('degreesfixed:repair-loop-entered')
        if c.get('n1') and r['status'] != 'exc':
            continue                    # open finding C20-hier-n1: nothing to compare (the model, like the proposed repair, rejects)
        if c.get('size'):
            ck.count('size-axis:%s:%s' % (rt, 'model-replay' if c.get('replay', True) else 'predicates-only'))
        if rt in MODELLED and c.get('replay', True):
            ln = lean_line(c, r)
            if ln is None:
                ck.count('not-replayed:non-finite-threshold'); continue
            lines.append(ln); idx.append(n_)
    # a routine that hangs or raises on (almost) every input must not pass silently
    for rt in sorted(set(c['routine'] for c in cases)):
        rr = [r for c, r in zip(cases, results) if c['routine'] == rt and not c.get('malformed')]
        nto = sum(r['status'] == 'timeout' for r in rr); nok = sum(r['status'] == 'ok' for r in rr)
        if rr and not ck.replay and (nto > 0.05 * len(rr) or nok == 0):
            ck.violation(rt, 'hangs-or-never-returns', {'cases': len(rr), 'timeouts': nto, 'normal_returns': nok}, {'routine': rt})
    if ok:
        try:
            outs = run_driver('Synth', lines)
            nd = 0
            for n_, o in zip(idx, outs):
                exp = expected_line(cases[n_], results[n_])
                if o != exp:
                    nd += 1
                    if nd <= 5:
                        ck.corr_break('Synth model vs bct.' + cases[n_]['routine'], {'case': cases[n_], 'model': o[:400], 'impl': exp[:400]})
            ck.cov['traces_validated_against_impl'] = len(outs) - nd
            ck.count('correspondence_cases', len(outs)); ck.count('correspondence_disagreements', nd)
            model_out = {n_: o for n_, o in zip(idx, outs)}
        except DriverError as e:
            ck.corr_break('Synth driver', str(e)); model_out = {}
    else:
        model_out = {}
    # the give-ups
    rates = {}
    for n_, cond in pending:
        c = cases[n_]; rt = c['routine']
        o = model_out.get(n_)
        cond['model_gives_up'] = (o == 'error=BCTParamError') if o is not None else 'not-replayed'
        pred = 'gives-up-on-graphical-input' if rt == 'makerandCIJdegreesfixed' else 'gives-up-after-10000-rejections'
        ck.violation(rt, pred, {'case': c, 'history': hist[n_], 'exception': results[n_].get('exc'), 'model': o}, cond)
    if not ck.replay:
        dom = [(c, r) for c, r in zip(cases, results) if c['routine'] == 'makerandCIJdegreesfixed' and c.get('graphical') and not c.get('malformed')]
        gu = sum(r['status'] == 'exc' and exc_kind(r['exc']) == 'BCTParamError' for c, r in dom)
        rates['makerandCIJdegreesfixed graphical'] = {'cases': len(dom), 'gave_up': gu, 'rate': round(gu / max(1, len(dom)), 4), 'bound': DEGREESFIXED_GIVEUP_BOUND}
        if dom and gu > DEGREESFIXED_GIVEUP_BOUND * len(dom):
            ck.violation('makerandCIJdegreesfixed', 'give-up-rate-above-documented-level', rates['makerandCIJdegreesfixed graphical'], {'routine': 'makerandCIJdegreesfixed'})
        for name, sel in (('hit probability <= 2e-3', True), ('hit probability > 2e-3', False)):
            dom = [(c, r) for c, r in zip(cases, results) if c['routine'] == 'maketoeplitzCIJ' and not c.get('malformed')
                   and (toeplitz_hit_prob(c['n'], c['k'], c['s']) <= 2e-3) == sel]
            gu = sum(r['status'] == 'exc' and exc_kind(r['exc']) == 'BCTParamError' for c, r in dom)
            rates['maketoeplitzCIJ ' + name] = {'cases': len(dom), 'gave_up': gu, 'rate': round(gu / max(1, len(dom)), 4)}
        ck.cov['give_up_rates'] = rates
        ck.dist['give_up_rates'] = rates
    ck.finish()


if __name__ == '__main__':
    main()
