"""C08 — betweenness counts exactly the shortest paths through each node and connection.

Search:  brute-force enumeration of all simple paths (exact integer lengths, Fractions) vs the four real routines,
         plus the identities of the property evaluated on the real outputs alone.
Corr:    Lean model `Between` — definition-level spec (dist / sigma / bcSpec / ebcSpec, exact rationals, compared
         *exactly* with the brute-force oracle) and the algorithm-level models mirroring centrality.py
         (compared with the real routines' floats at 1e-9 and, exactly, with the spec model; Props/C08.lean proves
         the algorithm-level models equal to the spec, so this tie is what binds the theorems to /repo).
"""
import sys, zlib
from fractions import Fraction as Fr
from common import *  # noqa
sys.path.insert(0, os.path.join(VERIF, 'translate')); import cores  # noqa: E402

PID = 'C08'
TOL = 1e-9
ROUT_BIN = ['betweenness_bin', 'edge_betweenness_bin', 'betweenness_wei', 'edge_betweenness_wei']
ROUT_WEI = ['betweenness_wei', 'edge_betweenness_wei']


# ------------------------------------------------------------------ brute-force oracle

def brute(L):
    """L: list of lists of non-negative ints (0 = no connection), empty diagonal assumed irrelevant (loops skipped).
    Enumerates, from every source, all simple paths no longer than the largest finite distance from that source
    (that bound comes from a plain Bellman-Ford and is the only pruning), keeps for every target the minimum-length
    ones and accumulates the fractions of the property text.  Returns dist, sigma, BC, EBC (Fractions)."""
    n = len(L)
    nbr = [[j for j in range(n) if L[i][j] != 0 and j != i] for i in range(n)]
    INF = float('inf')
    BC = [Fr(0)] * n
    EBC = [[Fr(0)] * n for _ in range(n)]
    dist = [[None] * n for _ in range(n)]
    sig = [[0] * n for _ in range(n)]
    for s in range(n):
        d = [INF] * n
        d[s] = 0
        for _ in range(n):
            for u in range(n):
                if d[u] < INF:
                    for w in nbr[u]:
                        if d[u] + L[u][w] < d[w]:
                            d[w] = d[u] + L[u][w]
        ecc = max(x for x in d if x < INF)
        best = {}
        path = [s]
        onp = [False] * n
        onp[s] = True

        def dfs(u, ln):
            for w in nbr[u]:
                if onp[w]:
                    continue
                l2 = ln + L[u][w]
                if l2 > ecc:
                    continue
                path.append(w)
                onp[w] = True
                b = best.get(w)
                if b is None or l2 < b[0]:
                    best[w] = (l2, [tuple(path)])
                elif l2 == b[0]:
                    b[1].append(tuple(path))
                dfs(w, l2)
                path.pop()
                onp[w] = False

        dfs(s, 0)
        dist[s][s] = 0
        sig[s][s] = 1
        for t, (ln, ps) in best.items():
            dist[s][t] = ln
            sig[s][t] = len(ps)
            k = len(ps)
            for p in ps:
                for v in p[1:-1]:
                    BC[v] += Fr(1, k)
                for a, b in zip(p, p[1:]):
                    EBC[a][b] += Fr(1, k)
    return dist, sig, BC, EBC


def bfs_dist(L):
    """independent hop distances (binary graphs) for the sum identities"""
    n = len(L)
    out = []
    for s in range(n):
        d = [None] * n
        d[s] = 0
        fr = [s]
        k = 0
        while fr:
            k += 1
            nx = []
            for u in fr:
                for w in range(n):
                    if L[u][w] != 0 and d[w] is None:
                        d[w] = k
                        nx.append(w)
            fr = nx
        out.append(d)
    return out


def close(x, y):
    return abs(x - y) <= TOL * max(1.0, abs(y))


def vec_close(py, exact):
    return len(py) == len(exact) and all(close(float(a), float(b)) for a, b in zip(py, exact))


# ------------------------------------------------------------------ cases

def decode(case):
    """case -> integer matrix as list of lists"""
    if case[0] in ('M', 'Q', 'B'):
        return [list(r) for r in case[1]]
    _, n, directed, base, code = case
    cells = [(i, j) for i in range(n) for j in range(n) if (i != j if directed else i < j)]
    L = [[0] * n for _ in range(n)]
    for (i, j) in cells:
        v = code % base
        code //= base
        L[i][j] = v
        if not directed:
            L[j][i] = v
    return L


def ncodes(n, directed, base):
    return base ** (n * (n - 1) if directed else n * (n - 1) // 2)


def enum_cases(n, directed, base, rs=None, take=None):
    N = ncodes(n, directed, base)
    if take is None or take >= N:
        return [('E', n, directed, base, c) for c in range(N)]
    return [('E', n, directed, base, int(c)) for c in sorted(set(rs.randint(0, N, size=take).tolist()))]


def structured():
    out = []

    def M(A):
        out.append(('M', tuple(tuple(int(x) for x in r) for r in A)))

    for n in range(1, 10):
        P = np.zeros((n, n)); C = np.zeros((n, n))
        for i in range(n - 1):
            P[i, i + 1] = 1
        M(P); M(P + P.T)
        if n >= 3:
            for i in range(n):
                C[i, (i + 1) % n] = 1
            M(C); M(C + C.T)
            S = np.zeros((n, n)); S[0, 1:] = 1
            M(S); M(S.T); M(S + S.T)
            M(1 - np.eye(n)); M(np.zeros((n, n)))
    # grids and the cube: maximal numbers of ties
    for (a, b) in [(2, 2), (2, 3), (3, 3), (2, 4)]:
        n = a * b
        G = np.zeros((n, n))
        for i in range(a):
            for j in range(b):
                if i + 1 < a:
                    G[i * b + j, (i + 1) * b + j] = 1
                if j + 1 < b:
                    G[i * b + j, i * b + j + 1] = 1
        M(G); M(G + G.T)
    Q = np.zeros((8, 8))
    for i in range(8):
        for k in range(3):
            Q[i, i ^ (1 << k)] = 1
    M(Q)
    for (a, b) in [(2, 3), (3, 3), (2, 5), (4, 4)]:
        K = np.zeros((a + b, a + b)); K[:a, a:] = 1
        M(K); M(K + K.T)
    # weighted: a length-2 connection tying with two length-1 connections, in a chain of diamonds
    for k in (1, 2, 3):
        n = 2 * k + 1
        W = np.zeros((n, n))
        for i in range(k):
            W[2 * i, 2 * i + 1] = 1; W[2 * i + 1, 2 * i + 2] = 1; W[2 * i, 2 * i + 2] = 2
        M(W); M(W + W.T)
    # the D9 shape: exactly one / two nodes unreachable from some source
    M([[0, 1, 0], [1, 0, 0], [1, 1, 0]])
    M([[0, 1, 0, 0], [1, 0, 0, 0], [1, 1, 0, 0], [0, 0, 0, 0]])
    return out


def random_cases(rs, count, nmax=9):
    out = []
    for k in range(count):
        n = int(rs.randint(5, nmax + 1))
        directed = bool(rs.rand() < .55)
        wmax = int(rs.choice([1, 1, 2, 2, 3]))
        dens = float(rs.choice([.12, .2, .3, .45, .65, .85]))
        A = rand_graph(rs, n, dens, directed, wmax=wmax)
        mode = k % 6
        if mode == 1:      # isolate a node
            v = rs.randint(n); A[v, :] = 0; A[:, v] = 0
        elif mode == 2:    # two components
            h = int(rs.randint(1, n))
            A[:h, h:] = 0; A[h:, :h] = 0
        elif mode == 3 and directed:   # a node with no in-edges / no out-edges
            v = rs.randint(n); A[:, v] = 0
            w = rs.randint(n); A[w, :] = 0
        out.append(('M', tuple(tuple(int(x) for x in r) for r in A)))
    return out


def rational_cases(rs, count, tier):
    """dyadic rational lengths k/den (den in 2,4,8): exact in binary floating point, ties by construction
    (1/2 + 1/2 = 1, 1/4 + 3/4 = 1/2 + 1/2, ...).  case = ('Q', numerators, den); the routines get numerators/den."""
    out = []
    # every labelled digraph n<=3 / graph n<=4 with lengths {1/2, 1} and {1/4, 1/2}: a slice in the quick tier
    for (n, directed) in ((2, True), (3, True), (3, False), (4, False)):
        for c in enum_cases(n, directed, 3, rs, None if tier == 'thorough' else 250):
            L = decode(c)
            out.append(('Q', tuple(tuple(r) for r in L), int(rs.choice([2, 4]))))
    if tier == 'thorough':
        for c in enum_cases(4, True, 3, rs, 60000):
            out.append(('Q', tuple(tuple(r) for r in decode(c)), 2))
    for k in range(count):
        n = int(rs.randint(4, 10))
        directed = bool(rs.rand() < .55)
        den = int(rs.choice([2, 4, 8]))
        dens = float(rs.choice([.15, .25, .4, .6, .85]))
        A = rand_graph(rs, n, dens, directed)
        mode = k % 3
        if mode == 0:      # halves and wholes: many exact ties
            W = rs.choice([den // 2, den, 3 * den // 2, 2 * den], size=(n, n))
        elif mode == 1:    # any k/den up to 2
            W = rs.randint(1, 2 * den + 1, size=(n, n))
        else:              # short and long connections mixed (k/den up to 4)
            W = rs.choice([1, 2, den, 2 * den, 4 * den], size=(n, n))
        if not directed:
            W = np.triu(W, 1); W = W + W.T
        Lq = (A * W).astype(int)
        if k % 4 == 1:
            h = int(rs.randint(1, n)); Lq[:h, h:] = 0; Lq[h:, :h] = 0
        out.append(('Q', tuple(tuple(int(x) for x in r) for r in Lq), den))
    # fixed: the two-halves-tie triangle and a chain of diamonds with lengths 1/4+3/4 = 1/2+1/2 = 1
    out.append(('Q', ((0, 1, 2), (0, 0, 1), (0, 0, 0)), 2))
    out.append(('Q', ((0, 1, 2, 4, 0), (0, 0, 0, 0, 3), (0, 0, 0, 0, 2), (0, 0, 0, 0, 0), (0, 0, 0, 0, 0)), 4))
    return out


NEAR_DEN = 2 ** 40


def lollipop(c, p):
    """clique on c nodes with a path of p further nodes attached (undirected): astronomically many walks, large diameter"""
    n = c + p
    A = np.zeros((n, n), dtype=int)
    A[:c, :c] = 1
    np.fill_diagonal(A, 0)
    for x in range(c - 1, n - 1):
        A[x, x + 1] = A[x + 1, x] = 1
    return A


def big_cases(rs, tier):
    """large binary graphs ('B', matrix): judged by the independent exact Brandes oracle (brandes_exact) and by the cross-routine identities;
    the algorithm models are run for n <= 34 only (the definition-level model is O(n^4))"""
    out = []
    lol = [(50, 185), (12, 120), (5, 20), (6, 24)] if tier == 'quick' else \
        [(50, 185), (12, 120), (60, 180), (30, 150), (80, 160), (5, 20), (6, 24), (8, 22), (4, 28), (20, 200)]
    for cp in lol:
        out.append(('B', tuple(tuple(int(x) for x in r) for r in lollipop(*cp)), 'lollipop'))
    for _ in range(2 if tier == 'quick' else 14):
        n = int(rs.randint(60, 200))
        A = rand_graph(rs, n, float(rs.choice([1.5, 3, 6])) / n, bool(rs.rand() < .5))
        out.append(('B', tuple(tuple(int(x) for x in r) for r in A), 'rand-big'))
    for _ in range(3 if tier == 'quick' else 20):
        n = int(rs.randint(16, 31))
        A = rand_graph(rs, n, float(rs.choice([2, 4])) / n, bool(rs.rand() < .5))
        out.append(('B', tuple(tuple(int(x) for x in r) for r in A), 'rand-mid'))
    return out


STRESS_SIZES = [32, 33, 34, 64, 65, 66, 96, 97, 128, 129]


def bead_string(beads, par, weighted=False):
    """hub -{par parallel routes}- hub ... (beads times): par^beads equally short paths between the end hubs.
    weighted: one of the routes is a direct connection of length 2 tying with the 1+1 routes"""
    hubs = list(range(beads + 1)); nxt = beads + 1
    E = []
    for b in range(beads):
        for k in range(par):
            if weighted and k == 0:
                E.append((hubs[b], hubs[b + 1], 2))
            else:
                E += [(hubs[b], nxt, 1), (nxt, hubs[b + 1], 1)]; nxt += 1
    W = [[0] * nxt for _ in range(nxt)]
    for a, b, l in E:
        W[a][b] = W[b][a] = l
    return W


def lattice(k, length=1):
    W = [[0] * (k * k) for _ in range(k * k)]
    for i in range(k):
        for j in range(k):
            for (a, b) in ((i + 1, j), (i, j + 1)):
                if a < k and b < k:
                    W[i * k + j][a * k + b] = W[a * k + b][i * k + j] = length
    return W


def stress_cases(rs, tier):
    """size-dependent fast paths and path-count overflow: cheap structures at n = 32,33,34,64,65,66,96,97,128,129 (binary and
    with lengths {1,2}), and graphs with astronomically many equally short paths (bead strings 3^40, diamond chains 2^64,
    k x k lattices) -- judged by the exact big-integer Brandes oracle"""
    out = []

    def add(W, label):
        out.append(('B', tuple(tuple(int(x) for x in r) for r in W), label))

    for idx, n in enumerate(STRESS_SIZES):
        C = np.zeros((n, n), dtype=int)
        for i in range(n):
            C[i, (i + 1) % n] = C[(i + 1) % n, i] = 1
        kind = idx % 3
        if kind == 0:
            add(C, 'size:cycle')                              # even n: every antipodal pair is tied
        elif kind == 1:
            D = np.zeros((n, n), dtype=int)                    # directed cycle with skip-2 chords: many ties
            for i in range(n):
                D[i, (i + 1) % n] = 1; D[i, (i + 2) % n] = 1
            add(D, 'size:dircycle+chords')
        else:
            Ld = np.zeros((n, n), dtype=int)                   # ladder (2 x n/2 grid), plus a pendant node if n is odd
            h = n // 2
            for i in range(h):
                Ld[i, h + i] = Ld[h + i, i] = 1
                if i + 1 < h:
                    Ld[i, i + 1] = Ld[i + 1, i] = 1; Ld[h + i, h + i + 1] = Ld[h + i + 1, h + i] = 1
            if n % 2:
                Ld[n - 1, 0] = Ld[0, n - 1] = 1
            add(Ld, 'size:ladder')
        R = rand_graph(rs, n, 2.5 / n, bool(rs.rand() < .5))
        add(R.astype(int), 'size:rand-sparse')
        Wt = rand_graph(rs, n, 3.0 / n, bool(rs.rand() < .5), wmax=2)
        add(Wt.astype(int) + (C if idx % 2 else 0) * (Wt == 0), 'size:weighted{1,2}')
    # astronomically many equal shortest paths (3^40 and 2^64 exceed 2^63)
    add(bead_string(40, 3), 'paths:bead3x40')
    add(bead_string(40, 3, weighted=True), 'paths:bead3x40-weighted')
    add(bead_string(64, 2), 'paths:diamond-chain64')
    add(lattice(12), 'paths:lattice12'); add(lattice(9, 2), 'paths:lattice9-len2')
    if tier == 'thorough':
        add(bead_string(70, 2, weighted=True), 'paths:diamond-chain70-weighted')
        add(bead_string(30, 5), 'paths:bead5x30')
        add(lattice(20), 'paths:lattice20'); add(lattice(35), 'paths:lattice35')
    return out


def absorbed_cases(rs, count):
    """special values: positive lengths that are absorbed in floating point (a + b == b): 1.5e-300 (2^-996) next to 1 and 2,
    2^-60 next to 2^10 and 2^11.  ('F', float matrix, label); weighted routines only; no model line (float addition is not a
    rational length function), judged by `brandes_batch_float`"""
    out = []
    pairs = [(2.0 ** -996, 1.0), (2.0 ** -60, 2.0 ** 10)]

    def add(W, label):
        out.append(('F', tuple(tuple(float(x) for x in r) for r in W), label))

    for (t, b) in pairs:
        # chain s -b-> a -t-> c -b-> e : c sits at the float distance of the settled node a
        W = np.zeros((4, 4)); W[0, 1] = b; W[1, 2] = t; W[2, 3] = b
        add(W, 'absorbed:chain'); add(W + W.T, 'absorbed:chain-und')
        # diamond with an absorbed step on one route: 0->1->3 (b+b) ties with 0->2->4->3 (b + t + b)
        W = np.zeros((5, 5)); W[0, 1] = b; W[1, 3] = b; W[0, 2] = b; W[2, 4] = t; W[4, 3] = b
        add(W, 'absorbed:diamond'); add(W + W.T, 'absorbed:diamond-und')
    for k in range(count):
        n = int(rs.randint(4, 9))
        directed = bool(rs.rand() < .6)
        t, b = pairs[k % 2]
        A = rand_graph(rs, n, float(rs.choice([.3, .45, .6])), directed)
        big = rs.choice([b, b, 2 * b], size=(n, n))
        tiny = rs.rand(n, n) < float(rs.choice([.15, .3]))
        W = np.where(tiny, t, big)
        if not directed:
            W = np.triu(W, 1); W = W + W.T
        add(A * W, 'absorbed:random')
    return out


def brandes_batch_float(W):
    """betweenness under floating-point path lengths (lengths accumulated from the source with float additions, exactly as
    numpy adds them; ties by exact float equality): level-by-level Dijkstra, integer path counts, Fraction dependencies.
    Returns (BC, EBC, ambiguous): ambiguous = some source has two nodes of one level joined by a step of zero effective
    length (m + l == m), where 'shortest path' is not well defined -- such inputs are not judged."""
    n = len(W)
    INF = float('inf')
    BC = [Fr(0)] * n
    EBC = [[Fr(0)] * n for _ in range(n)]
    amb = False
    for s in range(n):
        d = [INF] * n; d[s] = 0.0
        sig = [0] * n; sig[s] = 1
        preds = [[] for _ in range(n)]
        settled = [False] * n; order = []
        while True:
            rest = [d[i] for i in range(n) if not settled[i]]
            if not rest or min(rest) == INF:
                break
            m = min(rest)
            batch = [i for i in range(n) if not settled[i] and d[i] == m]
            for v in batch:
                settled[v] = True; order.append(v)
            for v in batch:
                for w in range(n):
                    l = W[v][w]
                    if l == 0 or w == v:
                        continue
                    if w in batch:
                        if m + l == m:
                            amb = True
                        continue
                    if settled[w]:
                        continue
                    nd = d[v] + l
                    if nd < d[w]:
                        d[w] = nd; sig[w] = sig[v]; preds[w] = [v]
                    elif nd == d[w]:
                        sig[w] += sig[v]; preds[w].append(v)
        dep = [Fr(0)] * n
        for w in reversed(order):
            for v in preds[w]:
                c = Fr(sig[v], sig[w]) * (1 + dep[w])
                dep[v] += c; EBC[v][w] += c
            if w != s:
                BC[w] += dep[w]
    return BC, EBC, amb


def run_float_case(case, bct, R, cnt):
    """absorbed-length inputs: the two weighted routines against brandes_batch_float"""
    W = [list(r) for r in case[1]]
    n = len(W)
    A = np.array(W, dtype=float)
    BC, EBC, amb = brandes_batch_float(W)
    R['evals'] += 1
    cnt('n=%d' % n); cnt('weighted'); cnt(case[2]); cnt('float-lengths(absorbed)')
    if amb:
        cnt('absorbed:ambiguous(not judged)')
        return
    if any(b != 0 for b in BC):
        R['keys'].append(digest(W))
    outs = {}
    for f in ROUT_WEI:
        A0 = A.copy()
        st, o = call(getattr(bct, f), A0, t=5.0, retry=10)
        cnt('calls:' + f); cnt(st + ':' + f)
        cond = {'routine': f, 'length_absorbed': True, 'binary': False}
        det = {'W': W, 'label': case[2]}
        if st == 'timeout':
            R['viol'].append((f, 'does-not-return', det, cond)); continue
        if st == 'exc':
            R['viol'].append((f, 'raises', dict(det, exception=o), cond)); continue
        if not np.array_equal(A0, A):
            R['viol'].append((f, 'input-modified', det, cond))
        if f.startswith('edge'):
            ebc, bc = np.asarray(o[0], dtype=float).tolist(), np.asarray(o[1], dtype=float).ravel().tolist()
            if not vec_close([x for r in ebc for x in r], [x for r in EBC for x in r]):
                R['viol'].append((f, 'edge-betweenness', dict(det, returned=ebc, expected=[[str(x) for x in r] for r in EBC]), cond))
        else:
            bc = np.asarray(o, dtype=float).ravel().tolist()
        outs[f] = bc
        if not vec_close(bc, BC):
            R['viol'].append((f, 'node-betweenness', dict(det, returned=bc, expected=[str(x) for x in BC]), cond))
    if len(outs) == 2 and not vec_close(outs['edge_betweenness_wei'], outs['betweenness_wei']):
        R['viol'].append(('edge_betweenness_wei', 'edge-node-vector', {'W': W, 'label': case[2], 'edge_routine_BC': outs['edge_betweenness_wei'],
                          'node_routine_BC': outs['betweenness_wei']}, {'routine': 'edge_betweenness_wei', 'length_absorbed': True, 'binary': False}))


def brandes_exact(L):
    """independent Brandes for large graphs with non-negative integer lengths: Dijkstra with a heap, shortest-path counts as
    exact Python integers (they reach 3^40 and beyond), dependencies in 80-digit Decimal arithmetic (error ~1e-78 relative,
    i.e. exact for the 1e-9 comparison) -> distances, BC, EBC as floats"""
    import heapq, decimal
    ctx = decimal.Context(prec=80)
    D1 = decimal.Decimal(1)
    n = len(L)
    nbr = [[(j, L[i][j]) for j in range(n) if L[i][j] != 0 and j != i] for i in range(n)]
    BC = [decimal.Decimal(0)] * n
    EBC = [[0.0] * n for _ in range(n)]
    dist = []
    for s in range(n):
        d = [None] * n; d[s] = 0
        sig = [0] * n; sig[s] = 1
        preds = [[] for _ in range(n)]
        done = [False] * n; order = []
        heap = [(0, s)]
        while heap:
            du, u = heapq.heappop(heap)
            if done[u] or du != d[u]:
                continue
            done[u] = True; order.append(u)
            for w, l in nbr[u]:
                nd = du + l
                if d[w] is None or nd < d[w]:
                    d[w] = nd; sig[w] = sig[u]; preds[w] = [u]; heapq.heappush(heap, (nd, w))
                elif nd == d[w] and not done[w]:
                    sig[w] += sig[u]; preds[w].append(u)
        dep = [decimal.Decimal(0)] * n
        for w in reversed(order):
            cw = ctx.divide(ctx.add(D1, dep[w]), decimal.Decimal(sig[w]))
            for v in preds[w]:
                c = ctx.multiply(decimal.Decimal(sig[v]), cw)
                dep[v] = ctx.add(dep[v], c); EBC[v][w] += float(c)
            if w != s:
                BC[w] = ctx.add(BC[w], dep[w])
        dist.append(d)
    return dist, [float(x) for x in BC], EBC


def near_tie_cases(rs, count):
    """lengths k/4 perturbed by j*2^-e (e = 30..40, exact in floats, common denominator 2^40): routes whose totals differ by
    less than any reasonable float tolerance although the exact oracle says they are NOT ties, next to exactly tied
    penultimate nodes (unperturbed parallel routes)."""
    out = []

    def Q(W):
        out.append(('Q', tuple(tuple(int(x) for x in r) for r in W), NEAR_DEN))

    unit = NEAR_DEN // 4
    for e in range(30, 41):
        eps = NEAR_DEN >> e
        # diamond s->a->t, s->b->t with a,b exactly tied and the second route longer by 2^-e; then two diamonds in series
        Q([[0, 4 * unit, 4 * unit, 0], [0, 0, 0, 4 * unit], [0, 0, 0, 4 * unit + eps], [0, 0, 0, 0]])
        W = np.zeros((7, 7), dtype=object)
        for k in (0, 3):
            W[k, k + 1] = 2 * unit; W[k, k + 2] = 2 * unit; W[k + 1, k + 3] = 2 * unit; W[k + 2, k + 3] = 2 * unit + (eps if k == 0 else 0)
        Q(W); Q(W + W.T)
    for k in range(count):
        n = int(rs.randint(4, 10))
        directed = bool(rs.rand() < .5)
        A = rand_graph(rs, n, float(rs.choice([.25, .4, .6, .85])), directed)
        base = rs.choice([2, 4, 4, 8], size=(n, n))            # 1/2, 1, 1, 2
        pert = (rs.rand(n, n) < .3) * rs.randint(1, 4, size=(n, n))
        e = int(rs.randint(30, 41))
        if not directed:
            base = np.triu(base, 1); base = base + base.T
            pert = np.triu(pert, 1); pert = pert + pert.T
        W = [[int(A[i, j]) * (int(base[i, j]) * unit + int(pert[i, j]) * (NEAR_DEN >> e)) for j in range(n)] for i in range(n)]
        Q(W)
    return out


DT_BIN = ['int64', 'int32', 'bool', 'uint8', 'float32', 'float64']
DT_INT = ['int64', 'float64']
ORDERS = ['C', 'F', 'T', 'V']


def choose_rep(case, binary, den):
    """deterministic representation of the input array: (dtype, memory order); 60% of the cases keep float64 / C"""
    h = zlib.crc32(repr(case).encode())
    if h % 10 < 6:
        return 'float64', 'C'
    h //= 10
    dts = DT_BIN if binary else (DT_INT if den == 1 else ['float64'])
    return dts[h % len(dts)], ORDERS[(h // 7) % len(ORDERS)]


def make_input(A, dtype, order):
    """same logical matrix, different storage: dtype, C / Fortran order, transposed view, strided view"""
    B = A.astype(dtype)
    if order == 'F':
        return np.asfortranarray(B)
    if order == 'T':
        return np.ascontiguousarray(B.T).T
    if order == 'V':
        big = np.zeros((len(B), 2 * len(B)), dtype=B.dtype)
        big[:, ::2] = B
        return big[:, ::2]
    return np.ascontiguousarray(B)


def malformed_cases(rs, count):
    """non-empty diagonal: outside the property's domain; correspondence of the algorithm models only"""
    out = []
    for _ in range(count):
        n = int(rs.randint(2, 7))
        A = rand_graph(rs, n, .4, bool(rs.rand() < .5), wmax=int(rs.choice([1, 2])))
        for i in range(n):
            if rs.rand() < .5:
                A[i, i] = rs.randint(1, 3)
        out.append(('X', tuple(tuple(int(x) for x in r) for r in A)))
    return out


# ------------------------------------------------------------------ running one chunk

def fr_list(s):
    if s == '-':
        return []
    out = []
    for t in s.split(','):
        a, b = t.split('/')
        out.append(Fr(int(a), int(b)))
    return out


def run_chunk(arg):
    cid, cases, lean_ok = arg
    bct = import_bct()
    R = {'evals': 0, 'keys': [], 'dist': {}, 'viol': [], 'breaks': [], 'samples': [], 'corr': 0, 'corr_bad': 0, 'spec_exact': 0}

    def cnt(k, v=1):
        R['dist'][k] = R['dist'].get(k, 0) + v

    lines, meta = [], []
    for case in cases:
        if case[0] == 'F':
            run_float_case(case, bct, R, cnt)
            continue
        rep = None
        if case[0] == 'R':
            rep = (case[2], case[3]); case = case[1]
        mal = case[0] == 'X'
        big = case[0] == 'B'
        L = decode(('M', case[1]) if mal else case)
        n = len(L)
        if big:
            cnt('big:' + case[2])
        den = case[2] if case[0] == 'Q' else 1
        A = np.array(L, dtype=float).reshape(n, n) / den      # exact: dyadic denominators
        binary = den == 1 and all(x in (0, 1) for r in L for x in r)
        if den != 1:
            cnt('rational-lengths'); cnt('den=2^40(near-ties)' if den == NEAR_DEN else 'den=%d' % den)
        dtype, order = rep or choose_rep(case, binary, den)
        cnt('dtype=' + dtype); cnt('order=' + order)
        directed = any(L[i][j] != L[j][i] for i in range(n) for j in range(n))
        routines = ROUT_BIN if binary else ROUT_WEI
        R['evals'] += 1
        cnt('n=%d' % n); cnt('binary' if binary else 'weighted'); cnt('directed' if directed else 'symmetric')
        if mal:
            cnt('malformed:diagonal')
        outs = {}
        for f in routines:
            A0 = make_input(A, dtype, order)
            Akeep = A0.copy()
            st, o = call(getattr(bct, f), A0, t=5.0 if n <= 300 else 300.0, retry=10)   # a timeout is a verdict here: re-tried once with 10x the budget
            cnt('calls:' + f); cnt(st + ':' + f)
            if st == 'timeout':      # survived the 10x retry: the routine does not return on an in-domain input
                cnt('timeouts')
                R['viol'].append((f, 'does-not-return', {'L': L, 'den': den, 'dtype': dtype, 'order': order, 'budget_s': 50.0},
                                  {'routine': f, 'binary': binary, 'dtype': dtype, 'order': order, 'large': n >= 100}))
                continue
            if st == 'exc':
                outs[f] = ('exc', o)
                continue
            if f.startswith('edge'):
                outs[f] = ('ok', np.asarray(o[0], dtype=float).reshape(n, n).tolist(), np.asarray(o[1], dtype=float).ravel().tolist())
            else:
                outs[f] = ('ok', None, np.asarray(o, dtype=float).ravel().tolist())
            if A0.dtype != Akeep.dtype or not np.array_equal(A0, Akeep):
                R['viol'].append((f, 'input-modified', {'L': L, 'den': den, 'dtype': dtype, 'order': order}, {'routine': f}))
        if not mal:
            if big:
                dist, BC, EBC = brandes_exact(L); sig = None
            else:
                dist, sig, BC, EBC = brute(L if den == 1 else [[Fr(x, den) for x in r] for r in L])
            disconnected = any(dist[s][t] is None for s in range(n) for t in range(n))
            ties = big or any(sig[s][t] > 1 for s in range(n) for t in range(n))
            unreach_per_src = max([sum(1 for t in range(n) if dist[s][t] is None) for s in range(n)] or [0])
            cnt('disconnected' if disconnected else 'connected')
            if ties:
                cnt('with-ties')
            nontriv = any(b != 0 for b in BC)
            if nontriv:
                R['keys'].append(digest(L))
                if len(R['samples']) < 2 and ties and disconnected and n <= 9:
                    R['samples'].append({'L': L, 'den': den, 'dtype': dtype, 'order': order, 'BC': [str(x) for x in BC], 'sigma': sig})
            cond0 = {'disconnected': disconnected, 'directed': directed, 'binary': binary, 'dtype': dtype, 'order': order, 'max_unreachable_from_a_source': min(unreach_per_src, 2)}
            ebc_flat = [x for r in EBC for x in r]
            for f in routines:
                if f not in outs:
                    continue
                cond = dict(cond0, routine=f)
                if outs[f][0] == 'exc':
                    R['viol'].append((f, 'raises', {'L': L, 'den': den, 'dtype': dtype, 'order': order, 'exception': outs[f][1]}, cond))
                    continue
                _, ebc, bc = outs[f]
                if not vec_close(bc, BC):
                    R['viol'].append((f, 'node-betweenness', {'L': L, 'den': den, 'dtype': dtype, 'order': order, 'returned': bc, 'expected': [str(x) for x in BC]}, cond))
                if ebc is not None and not vec_close([x for r in ebc for x in r], ebc_flat):
                    R['viol'].append((f, 'edge-betweenness', {'L': L, 'den': den, 'dtype': dtype, 'order': order, 'returned': ebc, 'expected': [[str(x) for x in r] for r in EBC]}, cond))
                if binary:
                    hd = bfs_dist(L)
                    tot = sum(hd[s][t] for s in range(n) for t in range(n) if s != t and hd[s][t] is not None)
                    npairs = sum(1 for s in range(n) for t in range(n) if s != t and hd[s][t] is not None)
                    if not close(sum(bc), tot - npairs):
                        R['viol'].append((f, 'sum-node-bin', {'L': L, 'den': den, 'dtype': dtype, 'order': order, 'sum_BC': sum(bc), 'sum_d_minus_1': tot - npairs}, cond))
                    if ebc is not None and not close(sum(x for r in ebc for x in r), tot):
                        R['viol'].append((f, 'sum-edge-bin', {'L': L, 'den': den, 'dtype': dtype, 'order': order, 'sum_EBC': sum(x for r in ebc for x in r), 'sum_d': tot}, cond))
            # the node vector of the edge routines equals the node routines' result (real outputs only)
            for fe, fn in (('edge_betweenness_bin', 'betweenness_bin'), ('edge_betweenness_wei', 'betweenness_wei')):
                if fe in outs and fn in outs and outs[fe][0] == 'ok' and outs[fn][0] == 'ok':
                    if not vec_close(outs[fe][2], outs[fn][2]):
                        R['viol'].append((fe, 'edge-node-vector', {'L': L, 'den': den, 'dtype': dtype, 'order': order, 'edge_routine_BC': outs[fe][2], 'node_routine_BC': outs[fn][2]}, dict(cond0, routine=fe)))
        else:
            dist = sig = BC = EBC = None
        if lean_ok:
            ms = ','.join(str(int(x)) for r in L for x in r) + ('' if den == 1 else ' den=%d' % den)
            if not mal and not big:
                lines.append('spec n=%d L=%s' % (n, ms)); meta.append(('spec', (L, den, dtype, order), (dist, sig, BC, EBC), None))
            if big:
                dist = sig = BC = EBC = None      # float oracle: no exact comparison with the model
            for f in (routines if (not big or n <= 34) else []):     # every routine has its own model line (betweenness_wei: `betweennessWei`, not a projection of the edge model)
                if f in outs:
                    lines.append('%s n=%d L=%s' % (f, n, ms)); meta.append((f, (L, den, dtype, order), (dist, sig, BC, EBC), outs[f]))
    if lean_ok and lines:
        try:
            res = run_driver('Between', lines)
        except DriverError as e:
            R['breaks'].append(('Between driver', str(e)))
            return R
        for mt, o in zip(meta, res):
            op, (L, den, dtype, order), orc, py = mt[:4]
            n = len(L)
            R['corr'] += 1
            bad = None
            kvs = kv(o)
            try:
                if op == 'spec':
                    dist, sig, BC, EBC = orc
                    ed = [None if x is None else Fr(x) for r in dist for x in r]
                    es = ','.join(str(x) for r in sig for x in r)
                    md = [None if t == 'inf' else Fr(t) for t in kvs['d'].split(',')]
                    if md != ed or kvs.get('sig') != es:
                        bad = ('spec model dist/sigma vs brute-force oracle', {'L': L, 'den': den, 'dtype': dtype, 'order': order, 'model': o[:300], 'oracle_d': [str(x) for x in ed], 'oracle_sigma': es})
                    elif fr_list(kvs['bc']) != BC or fr_list(kvs['ebc']) != [x for r in EBC for x in r]:
                        bad = ('spec model bcSpec/ebcSpec vs brute-force oracle', {'L': L, 'den': den, 'dtype': dtype, 'order': order, 'model': o[:300], 'oracle_bc': [str(x) for x in BC]})
                    else:
                        R['spec_exact'] += 1
                elif py[0] == 'exc':
                    if kvs.get('error') != exc_kind(py[1]):
                        bad = ('model vs bct.%s (exception)' % op, {'L': L, 'den': den, 'dtype': dtype, 'order': order, 'model': o[:300], 'impl': py[1]})
                else:
                    if 'error' in kvs:
                        bad = ('model vs bct.%s' % op, {'L': L, 'den': den, 'dtype': dtype, 'order': order, 'model': o[:300], 'impl': 'returned normally'})
                    else:
                        mbc = fr_list(kvs['bc'])
                        okc = vec_close(py[2], mbc)
                        if py[1] is not None:
                            okc = okc and vec_close([x for r in py[1] for x in r], fr_list(kvs['ebc']))
                        if not okc:
                            bad = ('model vs bct.%s' % op, {'L': L, 'den': den, 'dtype': dtype, 'order': order, 'model': o[:300], 'impl_bc': py[2], 'impl_ebc': py[1]})
                        elif orc[2] is not None:
                            # algorithm-level model = definition-level spec, exactly (also proved: brandes_wei_correct, edge_betweenness_bin_correct, betweennessBin_correct)
                            if mbc != orc[2] or (py[1] is not None and fr_list(kvs['ebc']) != [x for r in orc[3] for x in r]):
                                bad = ('algorithm model %s vs definition (exact rationals)' % op, {'L': L, 'den': den, 'dtype': dtype, 'order': order, 'model': o[:300]})
            except Exception as e:  # malformed driver output is a break, never agreement
                bad = ('unparsable driver output for %s' % op, {'L': L, 'den': den, 'dtype': dtype, 'order': order, 'model': o[:300], 'exc': repr(e)})
            if bad:
                R['corr_bad'] += 1
                if len(R['breaks']) < 3:
                    R['breaks'].append(bad)
    return R


# ------------------------------------------------------------------ history / object-reuse probes

def probe_specs(rs, count):
    """(L, mutation, g, f, mode): g(A); mutate A in place; f(A) versus f(fresh copy of A).  All ordered pairs of the applicable
    routines (g == f: single-routine probe); mode 'edit-returned': the array(s) returned by the first call are overwritten
    in place by the caller before the second call."""
    out = []
    for k in range(count):
        n = int(rs.randint(4, 9))
        directed = bool(rs.rand() < .5)
        binary = k % 3 != 0
        A = rand_graph(rs, n, float(rs.choice([.3, .45, .6, .8])), directed, wmax=1 if binary else 2)
        L = [[int(x) for x in r] for r in A]
        edges = [(i, j) for i in range(n) for j in range(n) if L[i][j] and (directed or i < j)]
        holes = [(i, j) for i in range(n) for j in range(n) if i != j and not L[i][j] and (directed or i < j)]
        kind = ['lesion', 'lengthen', 'add'][k % 3] if not binary else ['lesion', 'add'][k % 2]
        if kind in ('lesion', 'lengthen') and not edges:
            kind = 'add'
        if kind == 'add' and not holes:
            kind = 'lesion'
        (i, j) = (edges if kind != 'add' else holes)[int(rs.randint(len(edges if kind != 'add' else holes)))]
        val = {'lesion': 0, 'lengthen': L[i][j] + 1 + int(rs.randint(2)), 'add': 1}[kind]
        routines = ROUT_BIN if binary else ROUT_WEI
        pairs = [(g, f) for g in routines for f in routines]
        g, f = pairs[(k // 3) % len(pairs)]
        out.append({'L': L, 'symmetric': not directed, 'mutation': [kind, i, j, val], 'first': g, 'second': f,
                    'mode': 'edit-returned' if k % 7 == 6 else 'edit-argument'})
    return out


def run_probe(spec):
    """-> None or the disagreement dict of common.reuse_probe"""
    bct = import_bct()
    g, f = getattr(bct, spec['first']), getattr(bct, spec['second'])
    kind, i, j, val = spec['mutation']
    state = {'calls': 0}

    def seq(A):
        state['calls'] += 1
        if state['calls'] == 1:          # the earlier call that may leave something behind
            r = g(A)
            if spec['mode'] == 'edit-returned':
                for x in (r if isinstance(r, tuple) else (r,)):
                    x[...] = 7.0         # the caller scribbles over the returned arrays
            return None
        return f(A)

    def mutate(args):
        A = args[0]
        A[i, j] = val
        if spec['symmetric']:
            A[j, i] = val

    return reuse_probe(seq, [np.array(spec['L'], dtype=float)], mutate, t=10.0, tol=0.0)


PROTO_BAD = ['spec n=3 L=0,1,0', 'spec n=2 L=0,1,1,0 den=0', 'betweenness_wei n=2 L=0,1,1,0 den=1/2', 'betweenness_wei n=2 L=0,1,-1,0', 'spec n=x L=0', 'between n=2 L=0,1,1,0', 'spec L=0', '',
             'edge_betweenness_bin n=2 L=0,1,a,0']


def main():
    ck = Check(PID)
    ck.cov['rule'] = ('cases = connection(-length) matrices with empty diagonal: exhaustive labelled digraphs n<=4 / undirected graphs n<=5, binary and '
                      'with lengths in {1,2} (thorough: all of them; quick: all binary ones, all {1,2}-weighted ones for n<=3 directed / n<=4 undirected plus a seeded random slice of the rest), '
                      'structured tie-rich graphs (paths, cycles, stars, grids, cube, complete bipartite, diamond chains), random n=5..9 graphs '
                      '(lengths 1..3, densities .12-.85, isolated nodes / two components / sources and sinks forced in half of them), dyadic rational '
                      'lengths k/den, den in {2,4,8} (exact in floats; exhaustive small graphs with lengths {1/den, 2/den}, random n=4..9 with halves/wholes, '
                      'any k/den <= 2, mixed short/long), given to the weighted routines as numerators/den and to the model as numerators + den; large binary graphs (lollipops K_c+P_p up to n=235, sparse random n=60..200, n=16..30; exact big-integer Brandes oracle + cross-routine identities, models for n<=34); sizes n=32,33,34,64,65,66,96,97,128,129 (cycles, chorded directed cycles, ladders, sparse random, lengths {1,2}) and graphs with 3^40 / 2^64 equally short paths (bead strings, diamond chains, lattices); near ties: lengths k/4 + j*2^-e, e=30..40 '
                      '(den 2^40, exact in floats) next to exact ties; representation axis on 40% of the cases: dtype (int64/int32/bool/uint8/float32/float64 for binary, '
                      'int64/float64 for integer lengths) and memory order (C, Fortran, transposed view, strided view) of the same logical matrix; every case is run '
                      'through all applicable routines. non-trivial = distinct matrix on which some node has non-zero betweenness '
                      '(at least one shortest path with an interior node)')
    ck.assumptions += ['connection lengths are positive integers, 0 = no connection, empty diagonal (the weighted routines take a connection-length matrix)',
                       'binary routines are only given binary matrices; the weighted routines are given binary, {1,2,3}-length and dyadic rational-length matrices '
                       '(non-dyadic rationals are excluded: float sums of thirds need not tie exactly)',
                       'a call that times out at 5 s is re-tried once with 50 s; a second timeout is a does-not-return violation with the input as replay',
                       'floats of the real routines are compared with exact rationals at 1e-9 relative to max(1,|x|)',
                       'results are functions of the argument values: after any earlier call g(A) and an in-place edit of A, f(A) must equal f(copy of A) bit for bit']
    # T-gen: whole bodies of betweenness_bin / edge_betweenness_bin re-extracted from /repo's current source (translate/cores.py)
    ck.cov['cores'] = cores.generate(families=['betw', 'pinpart'])
    for p_ in ck.cov['cores']['problems']:
        ck.corr_break('core extractor (translate/cores.py)', p_)
    ok = ck.lean_gate(['BctVerif.Props.C08'], extra_modules=['BctVerif.Model.Between'])
    ck.lean_gate([], gen_modules=['BctVerif.Gen.CoresBetw', 'BctVerif.Gen.CoresPinPart'])
    if ck.tier == 'thorough' and ok:
        ck.leanchecker(['BctVerif.Props.C08', 'BctVerif.Model.Between'])
    rs = ck.rs
    if ck.replay:
        rc = json.load(open(ck.replay))['case']
        if 'probe' in rc:
            d = run_probe(rc['probe'])
            ck.case(sample=rc['probe'])
            if d is not None:
                ck.violation(rc['probe']['second'], 'result-depends-on-history', {'probe': rc['probe'], 'disagreement': d},
                             {'routine': rc['probe']['second'], 'after': rc['probe']['first'], 'mode': rc['probe']['mode']})
            ck.finish()
        if 'W' in rc:
            cases = [('F', tuple(tuple(float(x) for x in r) for r in rc['W']), rc.get('label', 'absorbed:replay'))]
            rc = dict(rc, L=[[0]], den=1, dtype=None)
        Lr = tuple(tuple(int(x) for x in r) for r in rc['L'])
        cases = cases if 'W' in rc else [('Q', Lr, int(rc['den']))] if int(rc.get('den', 1)) != 1 else [('M', Lr)]
        if rc.get('dtype'):
            cases = [('R', cases[0], rc['dtype'], rc.get('order', 'C'))]
    elif ck.tier == 'thorough':
        cases = []
        for n in (1, 2, 3, 4):
            cases += enum_cases(n, True, 2) + enum_cases(n, True, 3)
        for n in (2, 3, 4, 5):
            cases += enum_cases(n, False, 2) + enum_cases(n, False, 3)
        ck.cov['exhaustive'] = True
        cases += structured() + random_cases(rs, 6000) + rational_cases(rs, 6000, 'thorough') + near_tie_cases(rs, 4000) + big_cases(rs, 'thorough') + stress_cases(rs, 'thorough') + absorbed_cases(rs, 3000) + malformed_cases(rs, 400)
    else:
        cases = []
        for n in (1, 2, 3):
            cases += enum_cases(n, True, 2) + enum_cases(n, True, 3)
        for n in (2, 3, 4):
            cases += enum_cases(n, False, 2) + enum_cases(n, False, 3)
        cases += enum_cases(4, True, 2) + enum_cases(4, True, 3, rs, 3000)
        cases += enum_cases(5, False, 2) + enum_cases(5, False, 3, rs, 1500)
        cases += structured() + random_cases(rs, 800) + rational_cases(rs, 1200, 'quick') + near_tie_cases(rs, 600) + big_cases(rs, 'quick') + stress_cases(rs, 'quick') + absorbed_cases(rs, 300) + malformed_cases(rs, 100)
    if not ck.replay:     # homogeneous chunks: seeded shuffle, then one chunk per worker in the quick tier
        perm = np.random.RandomState(ck.seed + 12345).permutation(len(cases))
        cases = [cases[i] for i in perm]
    nproc = min(16, os.cpu_count() or 4)
    csz = max(1, -(-len(cases) // nproc)) if ck.tier == 'quick' else 2500
    chunks = [(i, cases[i:i + csz], ok) for i in range(0, len(cases), csz)]
    # interleave cheap and expensive chunks a little: sort is not needed, pool.map balances with chunksize 1
    import multiprocessing as mp
    if len(chunks) > 1:
        with mp.get_context('fork').Pool(min(16, os.cpu_count() or 4)) as pool:
            results = pool.map(run_chunk, chunks, chunksize=1)
    else:
        results = [run_chunk(c) for c in chunks]
    corr = bad = spec_exact = 0
    for R in results:
        ck.merge_counts(evaluations=R['evals'], keys=R['keys'], dist=R['dist'], samples=R['samples'])
        for (f, pred, detail, cond) in R['viol']:
            ck.violation(f, pred, detail, cond)
        for (what, detail) in R['breaks']:
            ck.corr_break(what, detail)
        corr += R['corr']; bad += R['corr_bad']; spec_exact += R['spec_exact']
    # a timeout that survives the retry is a `does-not-return` violation (above); a routine that never returns normally is a break
    for f in ROUT_BIN:
        calls = ck.dist.get('calls:' + f, 0); okc = ck.dist.get('ok:' + f, 0)
        if calls and not ck.replay and okc == 0:
            ck.corr_break('bct.%s never returns normally' % f, {'calls': calls, 'ok': okc, 'timeouts': ck.dist.get('timeout:' + f, 0),
                                                               'exceptions': ck.dist.get('exc:' + f, 0)})
    # history / object reuse: g(A); edit A in place; f(A) must equal f(fresh copy) -- all ordered pairs of routines
    if not ck.replay:
        specs = probe_specs(rs, 160 if ck.tier == 'quick' else 1600)
        nd = 0
        for sp, d in zip(specs, pmap(run_probe, specs)):
            ck.count('reuse-probes'); ck.count('probe:%s->%s' % (sp['first'][:4] + sp['first'][-4:], sp['second'][:4] + sp['second'][-4:]))
            ck.case(nontrivial_key=digest(['probe', sp]))
            if d is not None:
                nd += 1
                ck.violation(sp['second'], 'result-depends-on-history', {'probe': sp, 'disagreement': d},
                             {'routine': sp['second'], 'after': sp['first'], 'mode': sp['mode']})
        ck.count('reuse-probe-disagreements', nd)
    ck.count('correspondence_cases', corr); ck.count('correspondence_disagreements', bad)
    ck.count('spec_model_equals_bruteforce_exactly', spec_exact)
    ck.cov['traces_validated_against_impl'] = corr - bad
    if ok and not ck.replay:
        try:
            outs = run_driver('Between', PROTO_BAD)
            for ln, o in zip(PROTO_BAD, outs):
                ck.count('malformed:protocol')
                if o != 'error=protocol':
                    ck.corr_break('Between driver accepted a malformed line', {'line': ln, 'model': o[:200]})
        except DriverError as e:
            ck.corr_break('Between driver (malformed stream)', str(e))
    ck.finish()


if __name__ == '__main__':
    main()
