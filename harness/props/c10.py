"""C10 — weighted routines reduce to their binary counterparts on 0/1 input, directed routines to their undirected counterparts on
symmetric input, weight-ignoring routines return the same for W and binarize(W).

Lean theorems (Props/C10.lean): the clustering / transitivity / degree-strength reductions over the Cluster model (and over R for
the symmetric-weighted clause); distance, global efficiency, betweenness, edge betweenness, distance_bin / reachdist / kcore
weight-ignoring as corollaries of the C03 / C08 / C15 theorems about their models; local efficiency over Model/LocalEff.lean and
undirected assortativity over Model/Measures.lean (both replayed here).  Predicate-only (no theorem): density, breadthdist, kcoreness, edge_nei_overlap, findwalks, get_components.  Every clause is also checked here on
the real code (pairs of public functions on the same matrix)."""
import sys
from common import *  # noqa
sys.path.insert(0, os.path.join(VERIF, 'translate')); import cores  # noqa: E402
import cluster_common as cc
from cluster_common import F

PID = 'C10'
P01, PSYM, PIGN = 'weighted-eq-binary-on01', 'directed-eq-undirected-symm', 'weights-ignored'


def flat(o):
    if isinstance(o, (tuple, list)):
        return [y for x in o for y in flat(x)]
    return [np.asarray(o, dtype=float)]


def agree(a, b, exact=False, tol=cc.TOL, rtol=0.0):
    a, b = flat(a), flat(b)
    if len(a) != len(b):
        return False
    for x, y in zip(a, b):
        if x.shape != y.shape:
            return False
        if exact:
            if not np.array_equal(x, y, equal_nan=True):
                return False
        elif not np.allclose(x, y, rtol=rtol, atol=tol, equal_nan=True):
            return False
    return True


def short(o):
    return [np.round(x, 12).tolist() for x in flat(o)]


def pairs_on01(bct, sym):
    """(label, weighted call, binary call, exact?) — evaluated on a 0/1 matrix"""
    P = [
        ('clustering_coef_wd/clustering_coef_bd', bct.clustering_coef_wd, bct.clustering_coef_bd, True),
        ('transitivity_wd/transitivity_bd', bct.transitivity_wd, bct.transitivity_bd, True),
        ('distance_wei/distance_bin', lambda A: bct.distance_wei(A)[0], bct.distance_bin, True),
        ('distance_wei[hops]/distance_bin', lambda A: bct.distance_wei(A)[1], lambda A: np.where(np.isinf(bct.distance_bin(A)), 0, bct.distance_bin(A)), True),
        ('betweenness_wei/betweenness_bin', bct.betweenness_wei, bct.betweenness_bin, False),
        ('edge_betweenness_wei/edge_betweenness_bin', bct.edge_betweenness_wei, bct.edge_betweenness_bin, False),
        ('efficiency_wei/efficiency_bin:global', lambda A: bct.efficiency_wei(A), lambda A: bct.efficiency_bin(A), False),
        ('efficiency_wei/efficiency_bin:local', lambda A: bct.efficiency_wei(A, True), lambda A: bct.efficiency_bin(A, True), False),
        ('strengths_dir/degrees_dir', bct.strengths_dir, lambda A: bct.degrees_dir(A)[2], True),
    ]
    if sym:
        P += [
            ('clustering_coef_wu/clustering_coef_bu', bct.clustering_coef_wu, bct.clustering_coef_bu, True),
            ('transitivity_wu/transitivity_bu', bct.transitivity_wu, bct.transitivity_bu, True),
            ('strengths_und/degrees_und', bct.strengths_und, bct.degrees_und, True),
            ('assortativity_wei/assortativity_bin', lambda A: bct.assortativity_wei(A, 0), lambda A: bct.assortativity_bin(A, 0), False),
        ]
    return P


def _rc_odd(bd, bu):
    """levels 1, 3, 5, … of rich_club_bd (degree = in + out), as many as rich_club_bu has levels"""
    m = len(bu[0])
    out = []
    for x in bd:
        x = np.asarray(x, dtype=float)
        out.append(np.array([x[2 * k + 1] if 2 * k + 1 < len(x) else np.nan for k in range(m)]))
    return out


def pairs_symm(bct, binary):
    """(label, directed call, undirected call, exact?) — evaluated on a symmetric matrix"""
    P = [
        ('clustering_coef_wd/clustering_coef_wu', bct.clustering_coef_wd, bct.clustering_coef_wu, binary),
        ('transitivity_wd/transitivity_wu', bct.transitivity_wd, bct.transitivity_wu, binary),
        ('degrees_dir[in]/degrees_und', lambda W: bct.degrees_dir(W)[0], bct.degrees_und, True),
        ('degrees_dir[out]/degrees_und', lambda W: bct.degrees_dir(W)[1], bct.degrees_und, True),
        ('degrees_dir[total]/2*degrees_und', lambda W: bct.degrees_dir(W)[2], lambda W: 2 * bct.degrees_und(W), True),
        ('strengths_dir/2*strengths_und', bct.strengths_dir, lambda W: 2 * bct.strengths_und(W), False),
        # 2k relations on symmetric input (theorems kcore_bd_eq_bu_symm, rich_level_bd_eq_bu_symm, density_dir_eq_und_symm)
        ('kcore_bd(2k)/kcore_bu(k)', lambda W: [[(np.asarray(bct.kcore_bd(W, 2 * k)[0]) != 0).astype(float), bct.kcore_bd(W, 2 * k)[1]] for k in (1, 2, 3)],
         lambda W: [[(np.asarray(bct.kcore_bu(W, k)[0]) != 0).astype(float), bct.kcore_bu(W, k)[1]] for k in (1, 2, 3)], True),
        ('density_dir/density_und', lambda W: [bct.density_dir(W)[0], bct.density_dir(W)[1], bct.density_dir(W)[2]],
         lambda W: [bct.density_und(W)[0], bct.density_und(W)[1], 2 * bct.density_und(W)[2]], False),
        ('rich_club_bd[2k+1]/rich_club_bu[k]', lambda W: _rc_odd(bct.rich_club_bd(W), bct.rich_club_bu(W)), lambda W: list(bct.rich_club_bu(W)), False),
    ]
    if binary:
        P += [
            ('clustering_coef_bd/clustering_coef_bu', bct.clustering_coef_bd, bct.clustering_coef_bu, True),
            ('transitivity_bd/transitivity_bu', bct.transitivity_bd, bct.transitivity_bu, True),
        ]
    return P


def ignoring(bct, sym, n):
    """(label, call) — documented to ignore weights: same on W and binarize(W)"""
    def kc(f, k):
        def g(W):
            M, kn = f(W, k)
            return [(np.asarray(M) != 0).astype(float), kn]
        return g
    P = [
        ('degrees_dir', bct.degrees_dir), ('density_dir', bct.density_dir), ('distance_bin', bct.distance_bin),
        ('breadthdist', bct.breadthdist), ('reachdist', bct.reachdist),
        ('efficiency_bin:global', lambda W: bct.efficiency_bin(W)), ('efficiency_bin:local', lambda W: bct.efficiency_bin(W, True)),
        ('kcoreness_centrality_bd', bct.kcoreness_centrality_bd), ('kcore_bd(k=1)', kc(bct.kcore_bd, 1)), ('kcore_bd(k=2)', kc(bct.kcore_bd, 2)),
        ('kcore_bd(k=3)', kc(bct.kcore_bd, 3)), ('edge_nei_overlap_bd', bct.edge_nei_overlap_bd),
    ]
    if n <= 6:
        P.append(('findwalks', bct.findwalks))
    if sym:
        P += [('degrees_und', bct.degrees_und), ('density_und', bct.density_und), ('kcoreness_centrality_bu', bct.kcoreness_centrality_bu),
              ('kcore_bu(k=1)', kc(bct.kcore_bu, 1)), ('kcore_bu(k=2)', kc(bct.kcore_bu, 2)), ('kcore_bu(k=3)', kc(bct.kcore_bu, 3)),
              ('assortativity_bin', lambda W: bct.assortativity_bin(W, 0)), ('edge_nei_overlap_bu', bct.edge_nei_overlap_bu),
              ('get_components', bct.get_components)]
    return P


# model ops compared with the real code per kind of case (ties the Lean theorems of Props/C10.lean to /repo)
MODEL_OPS = {
    '01u': ['cc_wu', 'cc_bu', 'cc_wd', 'cc_bd', 'trans_wu', 'trans_bu', 'trans_wd', 'trans_bd', 'strengths_und', 'degrees_und', 'strengths_dir', 'degrees_dir'],
    '01d': ['cc_wd', 'cc_bd', 'trans_wd', 'trans_bd', 'strengths_dir', 'degrees_dir'],
    'symw': ['cc_wd', 'cc_wu', 'trans_wd', 'trans_wu', 'degrees_dir', 'degrees_und', 'strengths_dir', 'strengths_und'],
    'effw': [],
    'symg': ['degrees_dir', 'degrees_und', 'strengths_dir', 'strengths_und', 'cc_sign_zhang', 'cc_sign_costantini'],
    'ignu': ['degrees_und', 'degrees_dir'],
    'ignd': ['degrees_dir'],
}


def named_funcs(bct):
    """single public routines (with their non-default options) used by the history / object-reuse probes"""
    return {
        'distance_wei': lambda A: bct.distance_wei(A), 'distance_bin': lambda A: bct.distance_bin(A),
        'betweenness_wei': lambda A: bct.betweenness_wei(A), 'betweenness_bin': lambda A: bct.betweenness_bin(A),
        'edge_betweenness_wei': lambda A: bct.edge_betweenness_wei(A), 'edge_betweenness_bin': lambda A: bct.edge_betweenness_bin(A),
        'efficiency_wei': lambda A: bct.efficiency_wei(A), 'efficiency_bin': lambda A: bct.efficiency_bin(A),
        'efficiency_wei_local': lambda A: bct.efficiency_wei(A, True), 'efficiency_bin_local': lambda A: bct.efficiency_bin(A, True),
        'efficiency_wei_original': lambda A: bct.efficiency_wei(A, 'original'),
        'strengths_dir': lambda A: bct.strengths_dir(A), 'degrees_dir': lambda A: bct.degrees_dir(A),
        'strengths_und': lambda A: bct.strengths_und(A), 'degrees_und': lambda A: bct.degrees_und(A),
        'assortativity_wei': lambda A: bct.assortativity_wei(A, 0), 'assortativity_bin': lambda A: bct.assortativity_bin(A, 0),
        'clustering_coef_wd': lambda A: bct.clustering_coef_wd(A), 'clustering_coef_bd': lambda A: bct.clustering_coef_bd(A),
        'clustering_coef_wu': lambda A: bct.clustering_coef_wu(A), 'clustering_coef_bu': lambda A: bct.clustering_coef_bu(A),
        'transitivity_wd': lambda A: bct.transitivity_wd(A), 'transitivity_bd': lambda A: bct.transitivity_bd(A),
        'transitivity_wu': lambda A: bct.transitivity_wu(A), 'transitivity_bu': lambda A: bct.transitivity_bu(A),
        'kcore_bd': lambda A: bct.kcore_bd(A, 2), 'kcore_bu': lambda A: bct.kcore_bu(A, 2),
        'reachdist': lambda A: bct.reachdist(A), 'breadthdist': lambda A: bct.breadthdist(A),
    }


def _pairs(a, b):
    return [[a, a], [b, b], [a, b], [b, a], [a, b, a]]


_DIR = (_pairs('distance_wei', 'distance_bin') + _pairs('betweenness_wei', 'betweenness_bin') + _pairs('edge_betweenness_wei', 'edge_betweenness_bin') +
        _pairs('efficiency_wei', 'efficiency_bin') + _pairs('efficiency_wei_local', 'efficiency_bin_local') + _pairs('strengths_dir', 'degrees_dir') +
        _pairs('clustering_coef_wd', 'clustering_coef_bd') + _pairs('transitivity_wd', 'transitivity_bd') +
        # an option away from its default followed by the default, and routines sharing internals
        [['efficiency_bin_local', 'efficiency_bin'], ['efficiency_wei_local', 'efficiency_wei'], ['efficiency_wei_original', 'efficiency_wei_local'],
         ['distance_wei', 'efficiency_wei'], ['distance_bin', 'efficiency_bin'], ['efficiency_bin', 'distance_bin'], ['clustering_coef_wd', 'transitivity_wd'],
         ['transitivity_wd', 'clustering_coef_wd'], ['kcore_bd', 'kcore_bd'], ['reachdist', 'distance_bin'], ['breadthdist', 'distance_bin'],
         ['betweenness_bin', 'edge_betweenness_bin'], ['edge_betweenness_wei', 'betweenness_wei']])
_UND = (_pairs('clustering_coef_wu', 'clustering_coef_bu') + _pairs('transitivity_wu', 'transitivity_bu') + _pairs('strengths_und', 'degrees_und') +
        _pairs('assortativity_wei', 'assortativity_bin') + _pairs('clustering_coef_bd', 'clustering_coef_bu') + _pairs('clustering_coef_wd', 'clustering_coef_wu') +
        [['kcore_bu', 'kcore_bu'], ['transitivity_bd', 'transitivity_bu'], ['transitivity_wd', 'transitivity_wu']])
PROBE_SEQS = {'01d': _DIR, '01u': _UND + _DIR[:20], 'symw': _pairs('clustering_coef_wd', 'clustering_coef_wu') + _pairs('transitivity_wd', 'transitivity_wu'),
              'symg': _pairs('clustering_coef_wd', 'clustering_coef_wu') + [['transitivity_wd', 'transitivity_wu']]}


def run_probe(task):
    bct = import_bct()
    NF = named_funcs(bct)
    W, R = cc.case_mats(task['base'])
    Wf = cc.fl(W)
    kind = task['base']['kind']
    rs = np.random.RandomState(task['pseed'])
    vals = [1.0] if kind in ('01u', '01d') else [.125, .5, 1.0]
    edit = cc.pick_edit(rs, Wf, kind != '01d', vals) if task['edit'] else None
    d = cc.seq_probe([NF[x] for x in task['seq']], Wf, edit, task['scrib'], t=2.5)
    return {'probe': True, 'fail': d, 'edit': edit}


_TIMEOUTS = {}      # per worker process: label -> number of watchdog hits (a hanging routine must not stall the whole check)


# further model ops (other drivers): kind -> [(driver, op, bct call)]
def extra_ops(bct, kind, sym, nonneg):
    le_b = ('LocalEff', 'eff_bin_local', lambda A: bct.efficiency_bin(A, True))
    le_w = ('LocalEff', 'eff_wei_local', lambda A: bct.efficiency_wei(A, True))
    ops = []
    if kind in ('01u', '01d', 'symw', 'effw') and nonneg:      # connection weights of the efficiency routines are positive
        ops += [le_w, le_b]
    if kind == '01u' or (kind == '01d' and sym):
        ops += [('Measures', 'assortativity_bin', lambda A: bct.assortativity_bin(A, 0)), ('Measures', 'assortativity_wei', lambda A: bct.assortativity_wei(A, 0))]
    return ops


def extra_line(driver, op, W):
    if driver == 'Measures':
        return '%s n=%d R=%s%s' % (op, len(W), ','.join(str(int(x)) for row in W for x in row), ' flag=0' if op == 'assortativity_bin' else '')
    return '%s n=%d W=%s' % (op, len(W), cc.enc(W))


def extra_parse(driver, line):
    """-> list of Fraction / None (non-finite), or None for an error line"""
    d = kv(line)
    if 'error' in d:
        return None
    key = 'r' if driver == 'Measures' else 'E'
    if key not in d:
        return None
    return [None if x in ('nan', 'inf', '-inf') else F(x) for x in d[key].split(',')] if d[key] != '-' else []


def run_pair(label, f, g, Wf, pred, exact, cond, res, t=2.5, rep=None, rtol=0.0):
    if _TIMEOUTS.get(label, 0) >= 2:
        res['skipped'] += 1; return
    tol = cc.TOL
    if rep:     # the same network stored in another dtype / memory layout: a fresh array per call, never normalised by a copy
        mk = lambda: cc.represent(Wf, rep['dtype'], rep['order'], rep.get('negzero', False))
        tol = cc.rep_tol(rep['dtype']); exact = exact and rep['dtype'] != 'float32'
    else:
        mk = lambda: Wf.copy()
    # a timed-out call is re-tried once with 10x the budget: only a second timeout counts (a single wall-clock hit on a
    # loaded machine must not become a verdict)
    s1, o1 = call(f, mk(), t=t, retry=10)
    s2, o2 = ('timeout', None) if s1 == 'timeout' else call(g, mk(), t=t, retry=10)
    if rep and ((s1 == 'exc' and cc.rejected_exc(rep['dtype'], o1)) or (s2 == 'exc' and cc.rejected_exc(rep['dtype'], o2))):
        res['rejected'] += 1; return      # one variant visibly rejects this storage type: no claim
    res['npairs'] += 1
    res['evals'][label] = res['evals'].get(label, 0) + 1
    if s1 == 'timeout' or s2 == 'timeout':
        # these routines are deterministic and finish in milliseconds at n <= 10: a variant that does not return does not
        # "return what its counterpart returns"
        _TIMEOUTS[label] = _TIMEOUTS.get(label, 0) + 1
        res['timeouts'] += 1
        res['fails'].append((label, pred, {'first': s1, 'second': s2, 'why': 'no result within %.1fs, nor within %.0fs on the retry' % (t, 10 * t)}, cond)); return
    if s1 == 'exc' and s2 == 'exc' and exc_kind(o1) == exc_kind(o2):
        res['both_raise'][label] = res['both_raise'].get(label, 0) + 1; return
    if s1 != 'ok' or s2 != 'ok':
        res['fails'].append((label, pred, {'first': o1 if s1 != 'ok' else 'ok', 'second': o2 if s2 != 'ok' else 'ok'}, cond)); return
    if not agree(o1, o2, exact, tol, rtol):
        res['fails'].append((label, pred, {'first': short(o1), 'second': short(o2)}, cond))
    elif any(np.any(np.nan_to_num(x, nan=0.0, posinf=0.0) != 0) for x in flat(o1)):
        res['nonzero'] = True


def big_matrix(case):
    """size / multiplicity axis: the matrix is rebuilt from its recipe (too large to ship as text)"""
    g = case['big']
    if g[0] == 'beads':
        return cc.beads(g[1], g[2], g[3])
    if g[0] == 'lattice':
        return cc.lattice(g[1], g[2])
    rs = np.random.RandomState(g[4])
    A = cc.sparse01(rs, g[1], g[2], g[3], isolate=g[5])
    if g[0] == 'weighted':      # generic weights on the same support (symmetric when undirected)
        Wt = rs.randint(1, 10, size=A.shape) / 10.0
        Wt = np.triu(Wt, 1) + np.triu(Wt, 1).T if not g[3] else Wt
        A = A * Wt
    return A


def run_big(case):
    """the pair equalities on a large / path-rich network: outputs of the two routines compared directly, exactly where the
    pair is exact on small cases and the values are integers, else at 1e-9 relative + absolute (path counts beyond 2^53 are
    rounded by both routines)"""
    bct = import_bct()
    Wf = big_matrix(case)
    sym = bool(np.array_equal(Wf, Wf.T)); binary = bool(np.all((Wf == 0) | (Wf == 1)))
    res = {'fails': [], 'npairs': 0, 'timeouts': 0, 'skipped': 0, 'rejected': 0, 'evals': {}, 'both_raise': {}, 'nonzero': False,
           'model': [], 'model_fail': [], 'model2': [], 'n': len(Wf)}
    cond = {'symmetric': sym, 'dtype': 'float64', 'order': 'C', 'big': case['big'][0]}
    rep = case.get('rep')
    if rep:
        cond.update(dtype=rep['dtype'], order=rep['order'])
    if binary:
        for label, f, g, exact in pairs_on01(bct, sym):
            run_pair(label, f, g, Wf, P01, False, dict(cond, pair=label), res, t=60.0, rep=rep, rtol=cc.TOL)
    if sym:
        for label, f, g, exact in pairs_symm(bct, binary):
            run_pair(label, f, g, Wf, PSYM, False, dict(cond, pair=label), res, t=60.0, rep=rep, rtol=cc.TOL)
    if not binary:
        Bf = (Wf != 0).astype(float)
        for label, f in ignoring(bct, sym, len(Wf)):
            run_pair(label, f, lambda _W, f=f: f(Bf.copy()), Wf, PIGN, False, dict(cond, pair=label), res, t=60.0, rtol=cc.TOL)
    return res


def run_case(case):
    if case['kind'] == 'probe':
        return run_probe(case)
    if case['kind'] == 'big':
        return run_big(case)
    bct = import_bct()
    W, R = cc.case_mats(case)
    kind = case['kind']; n = len(W)
    Wf = cc.fl(W)
    sym = cc.is_sym(W)
    res = {'fails': [], 'npairs': 0, 'timeouts': 0, 'skipped': 0, 'rejected': 0, 'evals': {}, 'both_raise': {}, 'nonzero': False, 'model': [], 'model_fail': [], 'model2': []}
    rep = case.get('rep')
    cond = {'symmetric': sym, 'dtype': rep['dtype'] if rep else 'float64', 'order': rep['order'] if rep else 'C'}
    if kind in ('01u', '01d'):
        for label, f, g, exact in pairs_on01(bct, sym):
            run_pair(label, f, g, Wf, P01, exact, dict(cond, pair=label), res, rep=rep)
    if kind in ('01u', 'symw', 'symg'):
        for label, f, g, exact in pairs_symm(bct, cc.is_bin(W)):
            run_pair(label, f, g, Wf, PSYM, exact, dict(cond, pair=label), res, rep=rep)
    if rep:
        return res      # representation cases: pair predicates only (the model correspondence runs on the float64 original)
    if kind in ('ignu', 'ignd'):
        Bf = (Wf != 0).astype(float)
        for label, f in ignoring(bct, sym, n):
            run_pair(label, f, lambda _W, f=f: f(Bf.copy()), Wf, PIGN, False, dict(cond, pair=label), res)
    for driver, op, f in extra_ops(bct, kind, sym, all(x >= 0 for row in W for x in row)):
        st, out = call(f, Wf.copy(), t=5.0, retry=10)
        if st != 'ok':
            res['model_fail'].append((op, st, out)); continue
        v = np.atleast_1d(np.asarray(out, dtype=float)).ravel().tolist()
        res['model2'].append((driver, op, [x if np.isfinite(x) else None for x in v]))
    for name in MODEL_OPS[kind]:
        if R is None and name in ('cc_wu', 'cc_wd', 'trans_wu', 'trans_wd') and not cc.is_bin(W):
            continue
        st, out = cc.run_bct(bct, name, Wf)
        if st != 'ok':
            res['model_fail'].append((name, st, out))
        if st == 'ok':
            res['model'].append((name, out, cc.is_bin(W) or name.startswith('degrees') or
                                 (name.startswith('strengths') and all(x.denominator == 1 for row in W for x in row))))
    return res


def gen_cases(rs, tier):
    thorough = tier == 'thorough'
    B = (F(0), F(1))
    cases = []
    add = lambda kind, M, tag, raw=False: cases.append({'kind': kind, ('W' if raw else 'R'): cc.fstr(M), 'tag': tag})
    # 0/1 matrices: undirected n <= 5 and directed n <= 4 exhaustively in thorough, exhaustive n <= 4 / n <= 3 plus a random slice in quick
    for n in (1, 2, 3, 4):
        for M in cc.all_mats(n, False, B):
            add('01u', M, 'exh-01u%d' % n)
    all5 = list(cc.all_mats(5, False, B))
    for x in (range(len(all5)) if thorough else rs.permutation(len(all5))[:200]):
        add('01u', all5[int(x)], 'exh-01u5')
    for n in (2, 3):
        for M in cc.all_mats(n, True, B):
            add('01d', M, 'exh-01d%d' % n)
    if thorough:
        for M in cc.all_mats(4, True, B):
            add('01d', M, 'exh-01d4')
    else:
        for _ in range(300):
            add('01d', cc.dir_from_cells(4, [F(int(rs.randint(2))) for _ in range(12)]), 'slice-01d4')
    # symmetric weighted matrices: cube roots in {0,1/2,1} exhaustively for n = 3 (4 in thorough), random beyond
    H = (F(0), F(1, 2), F(1))
    for M in cc.all_mats(3, False, H):
        add('symw', M, 'exh-symw3')
    allw4 = list(cc.all_mats(4, False, H))
    for x in (range(len(allw4)) if thorough else rs.permutation(len(allw4))[:100]):
        add('symw', allw4[int(x)], 'exh-symw4')
    G3 = (F(0), F(1, 2), F(3, 10))
    allg = list(cc.all_mats(3, False, G3)) + list(cc.all_mats(4, False, (F(0), F(1, 2), F(-3, 10))))
    for x in (range(len(allg)) if thorough else rs.permutation(len(allg))[:100]):
        add('symg', allg[int(x)], 'exh-symg', raw=True)
    nr = 700 if thorough else 70
    nmax = 10
    ints = [F(k) for k in range(1, 10)]
    for _ in range(nr):
        n = int(rs.randint(5, nmax + 1)); d = float(rs.choice([.1, .2, .35, .5, .7, .9])); iso = int(rs.choice([0, 0, 1, 2]))
        add('01u', cc.rand_mat(rs, n, d, False, [F(1)], isolate=iso), 'rand-01u')
        add('01d', cc.rand_mat(rs, n, d, True, [F(1)], isolate=iso), 'rand-01d')
        add('symw', cc.rand_mat(rs, n, d, False, cc.ROOTS, isolate=iso), 'rand-symw')
        add('effw', cc.rand_mat(rs, min(n, 9), d, True, cc.ROOTS, isolate=iso), 'rand-effw')     # directed cube weights: LocalEff model only
        add('symw', cc.rand_mat(rs, n, d, False, cc.ROOTS, signed=True, isolate=iso), 'rand-symw-signed')
        add('symg', cc.rand_mat(rs, n, d, False, cc.GENERIC, isolate=iso), 'rand-symg', raw=True)
        add('symg', cc.rand_mat(rs, n, d, False, cc.GENERIC, signed=True, isolate=iso), 'rand-symg-signed', raw=True)
        add('ignu', cc.rand_mat(rs, n, d, False, ints + cc.ROOTS, isolate=iso), 'rand-ignu', raw=True)
        add('ignd', cc.rand_mat(rs, n, d, True, ints + cc.ROOTS, isolate=iso), 'rand-ignd', raw=True)
    for n in ((3, 4) if thorough else (3,)):
        for M in cc.all_mats(n, False, (F(0), F(1), F(3))):
            add('ignu', M, 'exh-ignu%d' % n, raw=True)
    alld3 = list(cc.all_mats(3, True, (F(0), F(1), F(3))))
    for x in (range(len(alld3)) if thorough else rs.permutation(len(alld3))[:150]):
        add('ignd', alld3[int(x)], 'exh-ignd3', raw=True)
    for n in ((5, 8, 10) if thorough else (7,)):
        for tag, M in cc.structured(rs, n, False):
            add('01u', M, 'struct-' + tag)
        for tag, M in cc.structured(rs, n, True):
            add('01d', M, 'struct-' + tag)
    cases += cc.add_reps(rs, cases, .3 if thorough else .2, ('01u', '01d'), ('symw', 'symg'))
    # size / multiplicity axis: n crossing 12, 16/17, 32/33, 64/65, 100, 128/129, 160, 256/257 and networks with astronomically
    # many equally short paths (predicates only: the Lean models are not run at these sizes)
    big = []
    sizes = cc.SIZES if thorough else sorted(set([int(x) for x in rs.choice(cc.SIZES[:9], 3, replace=False)] + [int(rs.choice(cc.SIZES[9:]))] + [17]))
    for n in sizes:
        for directed in (False, True):
            for deg in ((2.5, 6.0) if thorough else (float(rs.choice([2.5, 4.0, 6.0])),)):
                big.append(('random', n, deg, directed, int(rs.randint(2 ** 31)), int(rs.choice([0, 1, 3]))))
        if thorough or rs.rand() < .5:
            big.append(('weighted', n, 4.0, bool(rs.rand() < .5), int(rs.randint(2 ** 31)), 1))
    rich = [('beads', 40, 3, False), ('beads', 40, 3, True), ('beads', 64, 2, False), ('beads', 22, 8, True), ('lattice', 10, True), ('lattice', 8, False)]
    if thorough:
        rich += [('beads', 64, 2, True), ('beads', 22, 8, False), ('beads', 45, 3, True), ('beads', 30, 4, False), ('beads', 6, 3, False),
                 ('beads', 70, 2, True), ('lattice', 20, True), ('lattice', 16, False), ('beads', 54, 3, False)]
    for g in big + rich:
        cases.append({'kind': 'big', 'big': list(g), 'tag': 'big-' + g[0]})
    k = 0
    for g in (big + rich)[::2 if not thorough else 1]:      # and in other storage: -0.0 zeros, float32 / int / bool, Fortran order
        if g[0] != 'weighted':
            dt = cc.DT_BIN[k % len(cc.DT_BIN)]; k += 1
            cases.append({'kind': 'big', 'big': list(g), 'tag': 'big-' + g[0] + '+rep',
                          'rep': {'dtype': dt, 'order': cc.ORDERS[k % len(cc.ORDERS)], 'negzero': dt.startswith('float')}})
    cases += cc.make_probes(rs, cases, PROBE_SEQS, 520 if thorough else 110)
    # hidden state carried between calls only shows when a worker runs other routines / sizes before the call under test:
    # never group by routine or size
    cases = [cases[int(x)] for x in rs.permutation(len(cases))]
    return cases


def main():
    ck = Check(PID)
    ck.cov['rule'] = ('case = (matrix, pair of public bct functions); 0/1 matrices: every undirected n<=4 (n=5: all in thorough, slice in quick), every directed '
                      'n<=3 (n=4: all in thorough, slice in quick), random n=5..10 with isolated nodes, stars/paths/cycles/bipartite/complete/trees; symmetric '
                      'weighted: every n=3 (n=4) matrix with cube roots in {0,1/2,1}, random n=5..10 with weights (p/q)^3 (also signed) and with generic decimal/dyadic weights (also signed; every n=3 matrix over {0,1/2,3/10}); weight-ignoring: '
                      'integer/fractional weights vs their binarisation; non-trivial = distinct matrix on which some compared pair returned a non-zero value')
    ck.assumptions += ['inputs have an empty diagonal and float dtype',
                       "efficiency_wei(local='original') is documented not to generalise the binary variant and is not compared; local=True (Wang 2016) is",
                       'assortativity is compared for undirected input only (flag=0), as the property states',
                       'pairs where both variants raise the same exception kind (e.g. edge_nei_overlap on a graph whose edge has no other neighbour) carry no claim',
                       'Lean theorems cover the clustering / transitivity / degree / strength clauses (Cluster model) and, as corollaries of the C03 / C08 / C15 '
                       'theorems about the Dist / Between / Core models, distance, global efficiency, betweenness, edge betweenness, distance_bin / reachdist / kcore '
                       'weight-ignoring; local efficiency (LocalEff model) and undirected assortativity (Measures model) with their own correspondence here; density, breadthdist, kcoreness, edge_nei_overlap, findwalks, get_components are predicate-only',
                       'a call that hits the 2.5 s watchdog is re-tried once with 25 s; only a second timeout is a disagreement']
    ck.trusted = TRUSTED_DEFAULT + ['the Dist / Between / Core models used by the imported corollaries are tied to /repo by the C03 / C08 / C15 checks, not by this one']
    # T-gen: whole bodies of the clustering / transitivity, betweenness (bin and wei) and binary efficiency routines re-extracted from
    # /repo's current source; the C10 theorems relate exactly the model functions these are tied to
    ck.cov['cores'] = cores.generate(families=['clust', 'betw', 'eff', 'pinmeas', 'pindist', 'pinwalk'])
    for p_ in ck.cov['cores']['problems']:
        ck.corr_break('core extractor (translate/cores.py)', p_)
    ok = ck.lean_gate(['BctVerif.Props.C10'], extra_modules=['BctVerif.Model.Cluster', 'BctVerif.Model.LocalEff', 'BctVerif.Model.Measures'])
    ck.lean_gate([], gen_modules=['BctVerif.Gen.CoresClust', 'BctVerif.Gen.CoresBetw', 'BctVerif.Gen.CoresEff', 'BctVerif.Gen.CoresPinMeas', 'BctVerif.Gen.CoresPinDist', 'BctVerif.Gen.CoresPinWalk'])
    if ck.tier == 'thorough' and ok:
        ck.leanchecker(['BctVerif.Props.C10', 'BctVerif.Model.Cluster', 'BctVerif.Model.LocalEff'])
    if ck.replay:
        cases = cc.replay_cases(ck.replay)
    else:
        cases = gen_cases(ck.rs, ck.tier)
    results = pmap(run_case, cases)
    lines, meta = [], []
    xl = {'LocalEff': ([], []), 'Measures': ([], [])}
    ev, br = {}, {}
    for r in results:
        if r.get('probe'):
            continue
        for k, v in r['evals'].items():
            ev[k] = ev.get(k, 0) + v
        for k, v in r['both_raise'].items():
            br[k] = br.get(k, 0) + v
    for k, v in sorted(br.items()):     # "both variants raise the same kind" is no claim only while it stays the exception
        if v >= 5 and 2 * v > ev.get(k, 0):
            ck.violation(k, 'raises', {'pair': k, 'why': 'both variants raise on %d of %d evaluations' % (v, ev.get(k, 0))}, {'pair': k, 'kind': 'both-raise'})
    for c, r in zip(cases, results):
        if c['kind'] == 'big':
            ck.count('kind:big:' + c['big'][0]); ck.count('big n=%d' % r['n']); ck.count('pairs evaluated', r['npairs']); ck.count('timeouts', r['timeouts'])
            ck.count('storage type rejected by one variant (OverflowError on int / TypeError on bool): no claim', r['rejected'])
            ck.case(sample={'kind': 'big', 'recipe': c['big'], 'n': r['n'], 'pairs': r['npairs']}, nontrivial_key=digest(['big', c['big'], c.get('rep')]))
            for label, pred, info, cond in r['fails']:
                ck.violation(label, pred, {'case': c, 'pair': label, 'info': info}, cond)
            continue
        if c['kind'] == 'probe':
            ck.count('kind:probe'); ck.count('probe:' + '>'.join(c['seq']))
            ck.case()
            if r['fail']:
                ck.violation(c['seq'][-1], 'result-depends-on-history',
                             {'case': c, 'sequence': c['seq'], 'edit(i,j,value,symmetric)': r['edit'], 'returned_arrays_edited': c['scrib'], 'probe': r['fail']},
                             {'pair': c['seq'][-1], 'kind': 'probe'})
            continue
        W, _ = cc.case_mats(c)
        ck.count('kind:' + c['kind']); ck.count('n=%d' % len(W)); ck.count('pairs evaluated', r['npairs']); ck.count('timeouts', r['timeouts']); ck.count('pairs skipped after repeated timeouts', r['skipped'])
        if c.get('rep'):
            ck.count('representation:%s/%s' % (c['rep']['dtype'], c['rep']['order']))
            ck.count('representation: zeros stored as -0.0', int(bool(c['rep'].get('negzero'))))
            ck.count('storage type rejected by one variant (OverflowError on int / TypeError on bool): no claim', r['rejected'])
        for k, v in r['both_raise'].items():
            ck.count('both-raise:' + k, v)
        ck.case(sample={'kind': c['kind'], 'tag': c['tag'], 'W': cc.fstr(W), 'pairs': r['npairs']} if r['nonzero'] else None,
                nontrivial_key=digest([c['kind'], cc.fstr(W)]) if r['nonzero'] else None)
        for label, pred, info, cond in r['fails']:
            ck.violation(label, pred, {'case': c, 'pair': label, 'info': info}, cond)
        for name, st, out in r['model_fail']:
            ck.count('model-op call not ok:%s:%s' % (name, st))
            ck.corr_break('bct.%s did not return on a case used for the model correspondence' % cc.PUBLIC[name], {'case': c, 'status': st, 'detail': out})
        for name, out, exact in r['model']:
            lines.append(cc.lean_line(name, W)); meta.append((c, name, out, exact))
        for driver, op, out in r['model2']:
            xl[driver][0].append(extra_line(driver, op, W)); xl[driver][1].append((c, op, out))
    if ok:
        try:
            outs = cc.run_driver_par('Cluster', lines)
            nd = 0
            for (c, name, out, exact), o in zip(meta, outs):
                m = cc.parse_model(o, name)
                if m is None or len(m) != len(out) or not all(cc.same_vec(p, e, exact) for p, e in zip(out, m)):
                    nd += 1
                    if nd <= 5:
                        ck.corr_break('Cluster model vs bct.' + cc.PUBLIC[name], {'case': c, 'function': name, 'model': o[:400], 'impl': out})
            ck.cov['traces_validated_against_impl'] = len(outs) - nd
            ck.count('correspondence_cases', len(outs)); ck.count('correspondence_disagreements', nd)
        except DriverError as e:
            ck.corr_break('Cluster driver', str(e))
        for driver, (xlines, xmeta) in xl.items():
            try:
                outs = cc.run_driver_par(driver, xlines)
                nd = 0
                for (c, op, out), o in zip(xmeta, outs):
                    m = extra_parse(driver, o)
                    if m is None or not cc.same_vec(out, m, False):
                        nd += 1
                        if nd <= 5:
                            ck.corr_break('%s model vs bct (%s)' % (driver, op), {'case': c, 'op': op, 'model': o[:400], 'impl': out})
                ck.cov['traces_validated_against_impl'] = ck.cov.get('traces_validated_against_impl', 0) + len(outs) - nd
                ck.count('correspondence_cases:' + driver, len(outs)); ck.count('correspondence_disagreements:' + driver, nd)
            except DriverError as e:
                ck.corr_break(driver + ' driver', str(e))
    ck.finish()


if __name__ == '__main__':
    cc.guarded(main)
