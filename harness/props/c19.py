"""C19 — NBS reports true suprathreshold components and correct permutation p-values.

Search : an oracle built on scipy.stats.ttest_ind / ttest_rel + a DFS component finder, evaluated on the arrays returned by the
         real nbs_bct: support of adj, labels up to renaming, one p-value per component = fraction of the *returned* null values that
         are >= the component's number of connections, every null value = largest component under the recorded relabelling,
         group-swap (+ tail swap) and subject-reorder symmetries of the observed components.
Corr   : the Lean model `Nbs` (exact rationals, no square roots) replays the recorded permutations / sign flips and must reproduce
         adj, component sizes, hit counts and the null vector exactly.
Data are integer valued; cases in which an attained statistic lies within 1e-6 of the threshold are counted as skipped.
"""
import sys
from fractions import Fraction
from concurrent.futures import ThreadPoolExecutor
from common import *  # noqa
sys.path.insert(0, os.path.join(VERIF, 'translate')); import cores  # noqa: E402

PID = 'C19'
NEAR = 1e-6
TAILS = ('both', 'left', 'right')
DTYPES = ('float64', 'float32', 'int64', 'int32', 'uint16', 'uint32', 'uint8', 'float64', 'uint16', 'int16')
SWAP = {'both': 'both', 'left': 'right', 'right': 'left'}


# ------------------------------------------------------------------ case generation

def gen_data(rs, n, nx, ny, paired, flavour):
    """integer-valued symmetric stacks with effects of either sign, constant (zero variance) edges"""
    def stack(p):
        X = rs.randint(0, 8, size=(n, n, p)).astype(float)
        for s in range(p):
            X[:, :, s] = np.triu(X[:, :, s], 1) + np.triu(X[:, :, s], 1).T
        return X
    x, y = stack(nx), stack(ny)
    edges = [(i, j) for i in range(n) for j in range(i + 1, n)]
    rs.shuffle(edges)
    # effect cluster: a connected set of edges (random tree growth) + possibly a detached edge
    ne = int(rs.randint(1, max(2, len(edges) // 2)))
    nodes = [int(rs.randint(n))]
    eff = []
    for _ in range(ne):
        u = nodes[int(rs.randint(len(nodes)))]
        v = int(rs.randint(n))
        if u != v:
            eff.append((min(u, v), max(u, v)))
            if v not in nodes:
                nodes.append(v)
    if rs.rand() < 0.7:
        eff.append(edges[0])
    if rs.rand() < 0.4:
        eff.append(edges[1])
    sgn = 1 if rs.rand() < 0.5 else -1
    for (i, j) in set(eff):
        d = int(rs.randint(4, 11)) * (sgn if rs.rand() < 0.8 else -sgn)
        x[i, j, :] += d; x[j, i, :] += d
    # zero-variance edges
    const = []
    if flavour in ('const', 'const-sep'):
        for (i, j) in edges[2:2 + int(rs.randint(1, 4))]:
            c = int(rs.randint(0, 5))
            x[i, j, :] = x[j, i, :] = c
            y[i, j, :] = y[j, i, :] = c
            const.append((i, j))
        if paired:      # constant non-zero paired differences: t = +-inf
            (i, j) = edges[-1]
            dlt = int(rs.randint(-3, 4))
            y[i, j, :] = y[j, i, :] = x[i, j, :] - dlt
    if flavour == 'const-sep' and not paired:   # both groups constant, different means (pooled variance 0, mean difference != 0)
        (i, j) = edges[-1]
        c = int(rs.randint(0, 5)); d = int(rs.choice([-3, -1, 2, 4]))
        x[i, j, :] = x[j, i, :] = c
        y[i, j, :] = y[j, i, :] = c + d
    return x, y, sorted(set(eff))


def gen_cases(rs, tier):
    quick = tier != 'thorough'
    cases = []
    N = 200 if quick else 5000
    for t in range(N):
        paired = (t % 3 == 2)
        n = int(rs.randint(4, 7))
        nx = int(rs.randint(3, 8))
        ny = nx if paired else int(rs.choice([v for v in range(3, 8) if v != nx]))
        flavour = ('plain', 'const', 'const', 'const-sep')[t % 4] if t % 8 != 7 or paired else 'const-sep'
        x, y, eff = gen_data(rs, n, nx, ny, paired, flavour)
        dtype = DTYPES[t % len(DTYPES)]
        if dtype.startswith('uint'):      # a common shift leaves every t statistic unchanged and keeps the data non-negative
            sh = 16 - min(0, int(min(x.min(), y.min())))
            x = x + sh; y = y + sh
        r = rs.rand()
        thr = float(np.round(rs.uniform(1.0, 2.8), 4)) if r < 0.75 else (float(np.round(rs.uniform(0.05, 1.0), 4)) if r < 0.9 else
              (float(np.round(rs.uniform(6, 30), 3)) if r < 0.96 else float(np.round(rs.uniform(-1.5, -0.1), 4))))
        cases.append({'n': n, 'nx': nx, 'ny': ny, 'x': x.astype(int).tolist(), 'y': y.astype(int).tolist(), 'thr': thr,
                      'tail': TAILS[int(rs.randint(3))], 'paired': paired, 'k': int(rs.randint(20, 51)),
                      'seed': int(rs.randint(2 ** 31 - 1)), 'flavour': flavour, 'exp': 0, 'cexp': None, 'scale': 'unit',
                      'dtype': dtype, 'order': 'F' if t % 3 == 1 else 'C'})
    # ---- two-sample tests with EQUAL small groups (3+3, 4+4, 5+5), many permutations: a relabelling and its mirror image both occur
    for t in range(48 if quick else 600):
        n = int(rs.randint(4, 6)); nx = ny = (3, 4, 5)[t % 3]
        x, y, eff = gen_data(rs, n, nx, ny, False, ('plain', 'const')[t % 2])
        cases.append({'n': n, 'nx': nx, 'ny': ny, 'x': x.astype(int).tolist(), 'y': y.astype(int).tolist(),
                      'thr': float(np.round(rs.uniform(0.6, 2.2), 4)), 'tail': TAILS[(t // 3) % 3], 'paired': False, 'k': int(rs.randint(40, 81)),
                      'seed': int(rs.randint(2 ** 31 - 1)), 'flavour': 'equal-groups', 'exp': 0, 'cexp': None, 'scale': 'unit',
                      'dtype': 'float64', 'order': 'C'})
    # ---- long-diameter suprathreshold components: a Hamiltonian path (or a spanning tree) of strong effects, n = 6 .. 65 incl. 32/33/34, 51, 64/65
    CH_N = (6, 7, 10, 11, 12, 13, 14, 15, 17, 24, 33, 34, 40, 51, 34, 36, 66, 68) if quick else (6, 7, 10, 11, 12, 13, 14, 15, 16, 17, 24, 32, 33, 34, 36, 40, 51, 55, 64, 65)
    for t in range(len(CH_N) if quick else 200):
        n = CH_N[t % len(CH_N)]
        paired = (t % 4 == 3)
        nx = int(rs.randint(4, 7)); ny = nx if paired else nx + 1
        x = rs.randint(0, 4, size=(n, n, nx)).astype(float); y = rs.randint(0, 4, size=(n, n, ny)).astype(float)
        for a_ in (x, y):
            for s_ in range(a_.shape[2]):
                a_[:, :, s_] = np.triu(a_[:, :, s_], 1) + np.triu(a_[:, :, s_], 1).T
        mode = t % 3                      # 0: node labels along the chain, 1: reversed, 2: random labels
        order = np.arange(n) if mode == 0 else (np.arange(n)[::-1] if mode == 1 else rs.permutation(n))
        shape = 'tree' if t % 5 == 4 else 'chain'
        cut = int(rs.randint(2, n - 2)) if (t % 7 == 6 and shape == 'chain') else None          # sometimes two chains
        sgn = 1 if t % 2 else -1
        for q in range(n - 1):
            if cut is not None and q == cut:
                continue
            i = int(order[q]) if shape == 'chain' else int(order[int(rs.randint(max(0, q - 2), q + 1))])   # tree: attach to one of the last three
            j = int(order[q + 1])
            dlt = sgn * (int(rs.randint(12, 18)) if n <= 17 else int(rs.randint(28, 36)))
            x[i, j, :] += dlt; x[j, i, :] += dlt
        mn = min(x.min(), y.min())
        if mn < 0:
            x -= mn; y -= mn
        cases.append({'n': n, 'nx': nx, 'ny': ny, 'x': x.astype(int).tolist(), 'y': y.astype(int).tolist(),
                      'thr': float(np.round(rs.uniform(4.5, 6.5) if n <= 17 else rs.uniform(9.0, 11.0), 4)),   # large n: no accidental shortcut edge
                      'tail': ('both', 'right' if sgn > 0 else 'left')[t % 2], 'paired': paired,
                      'k': int(rs.randint(10, 21)) if n <= 17 else int(rs.randint(4, 8)), 'seed': int(rs.randint(2 ** 31 - 1)), 'flavour': 'chain', 'exp': 0, 'cexp': None, 'scale': 'unit',
                      'dtype': 'float64', 'order': 'C'})
    # ---- more than 64 connections (n >= 12), unequal groups, connections with the same non-dyadic constant in every subject of both groups:
    #      the null replay (every recorded relabelling) is judged by the exact rational oracle
    SZ = ((3, 5), (5, 3), (4, 9), (3, 7), (7, 4), (6, 7), (5, 8))
    for t in range(14 if quick else 140):
        n = (12, 13, 16, 12, 17, 14, 24)[t % 7] if not quick else (12, 13, 16, 12, 14, 12, 17)[t % 7]
        nx, ny = SZ[t % len(SZ)]
        x, y, eff = gen_data(rs, n, nx, ny, False, 'plain')
        x = x.astype(np.int64).astype(object); y = y.astype(np.int64).astype(object)
        edges = [(i, j) for i in range(n) for j in range(i + 1, n)]
        rs.shuffle(edges)
        ce = np.zeros((n, n), dtype=int)
        for (i, j) in edges[:int(rs.randint(2, 6))]:
            cst = int(Fraction(float((0.1, 0.3, 0.7)[int(rs.randint(3))])) * 2 ** 55)
            ce[i, j] = ce[j, i] = -55
            for s_ in range(nx):
                x[i, j, s_] = x[j, i, s_] = cst
            for s_ in range(ny):
                y[i, j, s_] = y[j, i, s_] = cst
        cases.append({'n': n, 'nx': nx, 'ny': ny, 'x': [[[int(v) for v in r] for r in pl] for pl in x.tolist()],
                      'y': [[[int(v) for v in r] for r in pl] for pl in y.tolist()], 'thr': float(np.round(rs.uniform(0.5, 1.8), 4)),
                      'tail': ('both', 'both', 'left', 'right')[t % 4], 'paired': False, 'k': int(rs.randint(8, 13)), 'seed': int(rs.randint(2 ** 31 - 1)),
                      'flavour': 'const-nd-big', 'exp': 0, 'cexp': ce.tolist(), 'scale': 'unit', 'dtype': 'float64', 'order': 'C', 'exact': True})
    # ---- exactly judged flavours (rational oracle, no tolerance, no near-threshold skip)
    def nd(v):          # the float v as integer * 2^-55
        f = Fraction(float(v)) * 2 ** 55
        assert f.denominator == 1
        return int(f)
    NDC = (0.1, 0.3, 0.7)
    for t in range(48 if quick else 480):
        kind = ('const-nd', 'const-nd-paired', 'offset-paired', 'thr0', 'offset-two-sample', 'const-nd')[t % 6]
        paired = kind in ('const-nd-paired', 'offset-paired') or (kind == 'thr0' and t % 4 == 3)
        n = int(rs.randint(4, 6)); nx = int(rs.randint(3, 7)); ny = nx if paired else int(rs.choice([v for v in range(3, 8) if v != nx]))
        if kind == 'thr0' and t % 2 == 0 and not paired:
            ny = nx
        x, y, eff = gen_data(rs, n, nx, ny, paired, 'plain')
        edges = [(i, j) for i in range(n) for j in range(i + 1, n)]
        rs.shuffle(edges)
        ce = np.zeros((n, n), dtype=int)
        x = x.astype(np.int64).astype(object); y = y.astype(np.int64).astype(object)
        if kind.startswith('const-nd'):
            for q, (i, j) in enumerate(edges[:int(rs.randint(1, 3))]):
                c1 = NDC[int(rs.randint(3))]
                c2 = c1 if (not paired and q == 0) else (NDC[int(rs.randint(3))] if rs.rand() < 0.6 else 0.0)
                ce[i, j] = ce[j, i] = -55
                for s_ in range(nx):
                    x[i, j, s_] = x[j, i, s_] = nd(c1)
                for s_ in range(ny):
                    y[i, j, s_] = y[j, i, s_] = nd(c2)
        elif kind.startswith('offset'):
            for (i, j) in edges[:int(rs.randint(1, 3))]:
                off = int(rs.choice([10 ** 8, 3 * 10 ** 7, 2 ** 27 + 1]))
                const = rs.rand() < 0.4
                for s_ in range(nx):
                    x[i, j, s_] = x[j, i, s_] = off + (3 if const else int(x[i, j, s_]))
                if const and paired:
                    for s_ in range(ny):
                        y[i, j, s_] = y[j, i, s_] = 0
        else:               # thr = 0 with exact ties: one edge has equal group means
            (i, j) = edges[0]
            vals = [int(v) for v in rs.randint(0, 6, size=nx)]
            for s_ in range(nx):
                x[i, j, s_] = x[j, i, s_] = vals[s_]
            if nx == ny:
                pv = rs.permutation(nx)
                for s_ in range(ny):
                    y[i, j, s_] = y[j, i, s_] = vals[int(pv[s_])]
        thr = 0.0 if kind == 'thr0' else float(np.round(rs.uniform(0.4, 2.5), 4))
        cases.append({'n': n, 'nx': nx, 'ny': ny, 'x': [[[int(v) for v in r] for r in pl] for pl in x.tolist()],
                      'y': [[[int(v) for v in r] for r in pl] for pl in y.tolist()], 'thr': thr, 'tail': TAILS[int(rs.randint(3))],
                      'paired': paired, 'k': int(rs.randint(10, 21)), 'seed': int(rs.randint(2 ** 31 - 1)), 'flavour': kind, 'exp': 0,
                      'cexp': ce.tolist() if ce.any() else None, 'scale': 'unit', 'dtype': 'float64', 'order': 'C', 'exact': True})
    # ---- thr := a statistic attained EXACTLY by some connection (dyadic t): the exact answer is "not suprathreshold"
    import math

    def dyadic_t(xs, ys, paired_):
        """the exact t statistic of the samples if it is a non-zero dyadic rational, else None"""
        xs = [Fraction(int(v)) for v in xs]; ys = [Fraction(int(v)) for v in ys]
        if paired_:
            d = [a - b for a, b in zip(xs, ys)]; nn = len(d)
            ss = sum((a * a for a in d), Fraction(0)) - sum(d, Fraction(0)) ** 2 / nn
            num = sum(d, Fraction(0)) / nn; V = ss / (nn * (nn - 1)) if ss else Fraction(0)
        else:
            n1, n2 = len(xs), len(ys); mx = sum(xs, Fraction(0)) / n1; my = sum(ys, Fraction(0)) / n2
            V = (sum(((a - mx) ** 2 for a in xs), Fraction(0)) + sum(((b - my) ** 2 for b in ys), Fraction(0))) / (n1 + n2 - 2) * (Fraction(1, n1) + Fraction(1, n2))
            num = mx - my
        if V == 0 or num == 0:
            return None
        q = num * num / V
        a, b = math.isqrt(q.numerator), math.isqrt(q.denominator)
        if a * a != q.numerator or b * b != q.denominator or b & (b - 1):
            return None
        return Fraction(a, b) * (1 if num > 0 else -1)
    for t in range(24 if quick else 240):
        paired = t % 3 == 2
        n = int(rs.randint(4, 6)); nx = int(rs.randint(2 if paired else 3, 6)); ny = nx if paired else int(rs.randint(3, 6))
        x, y, eff = gen_data(rs, n, nx, ny, paired, 'plain')
        tv = None
        for _ in range(4000):
            xs = rs.randint(0, 8, size=nx); ys = rs.randint(0, 8, size=ny)
            tv = dyadic_t(xs, ys, paired)
            if tv is not None and abs(tv) <= 6:
                break
        if tv is None:
            continue
        (i, j) = [(a, b) for a in range(n) for b in range(a + 1, n)][int(rs.randint(n * (n - 1) // 2))]
        x[i, j, :] = x[j, i, :] = xs; y[i, j, :] = y[j, i, :] = ys
        tail = 'both' if t % 2 == 0 else ('right' if tv > 0 else 'left')
        cases.append({'n': n, 'nx': nx, 'ny': ny, 'x': x.astype(int).tolist(), 'y': y.astype(int).tolist(), 'thr': float(abs(tv)), 'tail': tail,
                      'paired': paired, 'k': int(rs.randint(8, 16)), 'seed': int(rs.randint(2 ** 31 - 1)), 'flavour': 'tie-thr', 'exp': 0, 'cexp': None,
                      'scale': 'unit', 'dtype': 'float64', 'order': 'C', 'exact': True})
    # ---- the same kind of data in exact dyadic units: t is scale invariant, every predicate must be unchanged
    M = 90 if quick else 1500
    for t in range(M):
        paired = (t % 3 == 2)
        n = int(rs.randint(4, 7))
        nx = int(rs.randint(3, 8))
        ny = nx if paired else int(rs.choice([v for v in range(3, 8) if v != nx]))
        flavour = ('plain', 'const')[t % 2]
        x, y, eff = gen_data(rs, n, nx, ny, paired, flavour)
        thr = float(np.round(rs.uniform(1.0, 2.8), 4))
        exp, cexp, scale = 0, None, 'unit'
        if t % 2 == 0:
            exp = int((-30, -40, 20, -60)[(t // 2) % 4]); scale = 'global2^%d' % exp
        else:                                   # mixed: one or two effect edges in tiny units next to unit-scale edges
            ce = np.zeros((n, n), dtype=int)
            for (i, j) in eff[:1 + (t // 2) % 2]:
                ce[i, j] = ce[j, i] = -35 if (t // 4) % 2 == 0 else -70
            if (t // 2) % 3 == 2:
                i, j = int(rs.randint(n)), int(rs.randint(n))
                if i != j:
                    ce[i, j] = ce[j, i] = 20
            cexp = ce.tolist(); scale = 'mixed'
        cases.append({'n': n, 'nx': nx, 'ny': ny, 'x': x.astype(int).tolist(), 'y': y.astype(int).tolist(), 'thr': thr,
                      'tail': TAILS[int(rs.randint(3))], 'paired': paired, 'k': int(rs.randint(20, 41)),
                      'seed': int(rs.randint(2 ** 31 - 1)), 'flavour': flavour, 'exp': exp, 'cexp': cexp, 'scale': scale})
    return cases


# ------------------------------------------------------------------ oracle

def tstats(X, Y, paired):
    """X: m x nx, Y: m x ny -> scipy t statistics per edge (nan where undefined, +-inf for zero variance with non-zero effect)"""
    import scipy.stats as ss
    with np.errstate(all='ignore'):
        if paired:
            return np.asarray(ss.ttest_rel(X, Y, axis=1).statistic, dtype=float)
        return np.asarray(ss.ttest_ind(X, Y, axis=1, equal_var=True).statistic, dtype=float)


def tail_stat(t, tail):
    return np.abs(t) if tail == 'both' else (-t if tail == 'left' else t)


def comps_of(n, E):
    """DFS components of the graph with edge list E -> list of (sorted node list, edge list) for components with >= 1 edge"""
    nb = {u: set() for u in range(n)}
    for (i, j) in E:
        nb[i].add(j); nb[j].add(i)
    seen, out = set(), []
    for s in range(n):
        if s in seen or not nb[s]:
            continue
        st, comp = [s], {s}
        while st:
            u = st.pop()
            for v in nb[u]:
                if v not in comp:
                    comp.add(v); st.append(v)
        seen |= comp
        out.append((sorted(comp), [e for e in E if e[0] in comp]))
    return out


def oracle(c, draws_log):
    """returns dict(E=suprathreshold edges, comps, null (list), near (bool), undefined (#nan cells), degenerate (list of edges))"""
    n, nx, ny = c['n'], c['nx'], c['ny']
    x = np.array(c['x'], dtype=float); y = np.array(c['y'], dtype=float)
    iu = np.triu_indices(n, 1)
    X = x[iu[0], iu[1], :]; Y = y[iu[0], iu[1], :]
    thr, tail, paired = c['thr'], c['tail'], c['paired']
    res = {'near': False, 'undefined': 0}

    def supra(Xp, Yp):
        """suprathreshold edges under (a) the statistic itself (scipy: +-inf for zero pooled variance with different means) and
        (b) the convention coded in bct's two-sample test (`denom == 0 -> t = 0`) -> (E, E_conv, t, has_inf)"""
        t0 = tstats(Xp, Yp, paired)
        t = tail_stat(t0, tail)
        fin = np.isfinite(t)
        if np.any(np.abs(t[fin] - thr) < NEAR):
            res['near'] = True
        res['undefined'] += int(np.isnan(t).sum())
        inf = np.isinf(t0) & (not paired)
        tc = np.where(inf, 0.0, t)
        with np.errstate(all='ignore'):
            E = [(int(iu[0][e]), int(iu[1][e])) for e in np.nonzero(t > thr)[0]]
            Ec = [(int(iu[0][e]), int(iu[1][e])) for e in np.nonzero(tc > thr)[0]]
        return E, Ec, t, bool(inf.any())
    E, Ec, t_obs, _ = supra(X, Y)
    res['E'] = E; res['E_conv'] = Ec
    res['nan_cells'] = [(int(iu[0][e]), int(iu[1][e])) for e in np.nonzero(np.isnan(t_obs))[0]]
    res['inf_cells'] = [(int(iu[0][e]), int(iu[1][e])) for e in np.nonzero(np.isinf(t_obs))[0]]
    null, null_conv, null_inf = [], [], []
    D = np.hstack((X, Y))
    for ent in draws_log:
        if paired:
            sg = np.sign(0.5 - np.array(ent, dtype=float) / 9007199254740992.0)
            Xp, Yp = X * sg[None, :], Y * sg[None, :]
        else:
            p = np.array(ent)
            Dp = D[:, p]
            Xp, Yp = Dp[:, :nx], Dp[:, nx:]
        Ep, Epc, _, hasinf = supra(Xp, Yp)
        null.append(max([len(es) for (_, es) in comps_of(n, Ep)] + [0]))
        null_conv.append(max([len(es) for (_, es) in comps_of(n, Epc)] + [0]))
        null_inf.append(hasinf)
    res['null'] = null; res['null_conv'] = null_conv; res['null_inf'] = null_inf
    return res



# ------------------------------------------------------------------ exact rational oracle (flavours judged without any tolerance)

def _fr_mean(v):
    return sum(v, Fraction(0)) / len(v)


def exact_edge(xs, ys, thr, tail, paired):
    """xs, ys: lists of Fraction. Returns (exceeds, exceeds_conv, undefined, infinite, tie):
    exceeds      – the t statistic of the property (zero variance: +-inf for a non-zero mean difference, undefined for 0/0) > thr
    exceeds_conv – the same with bct's coded two-sample convention `denom == 0 -> t = 0`"""
    def tn(d):
        return abs(d) if tail == 'both' else (-d if tail == 'left' else d)

    def gt_sqrt(num, V):        # num / sqrt(V) > thr, V > 0
        if thr >= 0:
            return num > 0 and num * num > thr * thr * V
        return num >= 0 or num * num < thr * thr * V

    def eq_sqrt(num, V):        # num / sqrt(V) == thr, V > 0 (an exact tie: not suprathreshold, but one float rounding away from it)
        return num * num == thr * thr * V and ((num > 0) == (thr > 0)) and ((num == 0) == (thr == 0))
    if paired:
        d = [a - b for a, b in zip(xs, ys)]
        nn = len(d); md = _fr_mean(d)
        ss = sum((a * a for a in d), Fraction(0)) - sum(d, Fraction(0)) ** 2 / nn
        if ss == 0:
            return (tn(md) > 0), (tn(md) > 0), md == 0, md != 0, False
        r = gt_sqrt(tn(md), ss / (nn * (nn - 1)))
        return r, r, False, False, eq_sqrt(tn(md), ss / (nn * (nn - 1)))
    n1, n2 = len(xs), len(ys)
    mx, my = _fr_mean(xs), _fr_mean(ys)
    V = (sum(((a - mx) ** 2 for a in xs), Fraction(0)) + sum(((b - my) ** 2 for b in ys), Fraction(0))) / (n1 + n2 - 2) * (Fraction(1, n1) + Fraction(1, n2))
    if V == 0:
        return (tn(mx - my) > 0), (0 > thr), mx == my, mx != my, False
    r = gt_sqrt(tn(mx - my), V)
    return r, r, False, False, eq_sqrt(tn(mx - my), V)


_VAR_FIXED = None


def variance_fixed():
    """does the bct under test already compute the variances robustly (np.ptp guard / two-pass paired sum of squares)?  Read from the source,
    so that `float_cancel` emulates the formula that is really there (after the repair no cell is an artefact and the correspondence resumes)"""
    global _VAR_FIXED
    if _VAR_FIXED is None:
        import inspect
        src = inspect.getsource(import_bct().nbs_bct)
        _VAR_FIXED = ('np.ptp(x)' in src, 'np.ptp(d)' in src)
    return _VAR_FIXED


def float_cancel(xs, ys, paired, exact_zero):
    """does the float formula of bct lose the variance of this edge?  two-sample: exact pooled variance 0 but float denom != 0;
    paired: the float sum of squares differs from the exact value (sign, zero, or > 1e-9 relative)"""
    fix2, fixp = variance_fixed()
    xf = np.array([float(a) for a in xs]); yf = np.array([float(b) for b in ys])
    with np.errstate(all='ignore'):
        if not paired:
            n1, n2 = len(xf), len(yf)
            vx = np.var(xf, ddof=1) if (np.ptp(xf) or not fix2) else 0.0
            vy = np.var(yf, ddof=1) if (np.ptp(yf) or not fix2) else 0.0
            s = np.sqrt(((n1 - 1) * vx + (n2 - 1) * vy) / (n1 + n2 - 2))
            return bool(exact_zero and s * np.sqrt(1 / n1 + 1 / n2) != 0)
        d = xf - yf
        if fixp:
            ssf = float(np.sum((d - np.mean(d)) ** 2)) if np.ptp(d) else 0.0
        else:
            ssf = float(np.sum(d ** 2) - np.sum(d) ** 2 / len(d))
    de = [a - b for a, b in zip(xs, ys)]
    sse = sum((a * a for a in de), Fraction(0)) - sum(de, Fraction(0)) ** 2 / len(de)
    if sse == 0:
        return ssf != 0
    return (not np.isfinite(ssf)) or ssf <= 0 or abs(ssf - float(sse)) > 1e-9 * float(sse)


def oracle_exact(c, draws_log):
    n, nx, ny = c['n'], c['nx'], c['ny']
    E0 = np.full((n, n), int(c.get('exp') or 0)) + (np.array(c['cexp']) if c.get('cexp') is not None else 0)
    cells = [(i, j) for i in range(n) for j in range(i + 1, n)]
    XF = [[Fraction(int(v)) * Fraction(2) ** int(E0[i, j]) for v in c['x'][i][j]] for (i, j) in cells]
    YF = [[Fraction(int(v)) * Fraction(2) ** int(E0[i, j]) for v in c['y'][i][j]] for (i, j) in cells]
    thr = Fraction(c['thr']); tail, paired = c['tail'], c['paired']
    res = {'near': False, 'undefined': 0, 'exact': True}

    def supra(Xp, Yp):
        E, Ec, nan, inf, can, tie = [], [], [], [], [], []
        for e, cell in enumerate(cells):
            a, b, und, isinf, istie = exact_edge(Xp[e], Yp[e], thr, tail, paired)
            if istie and thr != 0:
                tie.append(cell)
            if a:
                E.append(cell)
            if b:
                Ec.append(cell)
            if und:
                nan.append(cell)
            if isinf:
                inf.append(cell)
            if float_cancel(Xp[e], Yp[e], paired, und or isinf):
                can.append(cell)
        res['undefined'] += len(nan)
        return E, Ec, nan, inf, can, tie
    E, Ec, nan, inf, can, tie = supra(XF, YF)
    res.update(E=E, E_conv=Ec, nan_cells=nan, inf_cells=inf if not paired else [], cancel_cells=can, tie_cells=tie)
    null, null_conv, null_inf, null_can, null_tie = [], [], [], [], []
    for ent in draws_log:
        if paired:
            sg = [Fraction(1) if u < 4503599627370496 else (Fraction(0) if u == 4503599627370496 else Fraction(-1)) for u in ent]
            Xp = [[a * g for a, g in zip(r, sg)] for r in XF]; Yp = [[a * g for a, g in zip(r, sg)] for r in YF]
        else:
            Xp, Yp = [], []
            for rx, ry in zip(XF, YF):
                d = [(rx + ry)[q] for q in ent]
                Xp.append(d[:nx]); Yp.append(d[nx:])
        Ep, Epc, _, infp, canp, tiep = supra(Xp, Yp)
        null_tie.append(bool(tiep))
        null.append(max([len(es) for (_, es) in comps_of(n, Ep)] + [0]))
        null_conv.append(max([len(es) for (_, es) in comps_of(n, Epc)] + [0]))
        null_inf.append(bool(infp) and not paired); null_can.append(bool(canp))
    res.update(null=null, null_conv=null_conv, null_inf=null_inf, null_cancel=null_can, null_tie=null_tie)
    return res


def split_log(log, paired, nx):
    """group the Recorder log into one entry per permutation"""
    if not paired:
        return [e[1] for e in log if e[0] == 'p']
    us = [e[1] for e in log if e[0] == 'u']
    return [us[i:i + nx] for i in range(0, len(us), nx)]


def run_case(c):
    bct = import_bct()
    n, nx, ny = c['n'], c['nx'], c['ny']
    E = np.full((n, n), int(c.get('exp') or 0)) + (np.array(c['cexp']) if c.get('cexp') is not None else 0)
    S = np.ldexp(1.0, E)[:, :, None]            # exact powers of two: the scaled data are exact floats
    x = np.array(c['x'], dtype=float) * S; y = np.array(c['y'], dtype=float) * S
    dt = c.get('dtype', 'float64')
    if dt != 'float64' or c.get('order', 'C') != 'C':      # integer-valued data: every cast below is exact
        x = np.array(x.astype(dt), order=c.get('order', 'C')); y = np.array(y.astype(dt), order=c.get('order', 'C'))
        assert np.array_equal(x.astype(float), np.array(c['x'], dtype=float)) and np.array_equal(y.astype(float), np.array(c['y'], dtype=float))
    thr, tail, paired, k = c['thr'], c['tail'], c['paired'], c['k']
    out = {'fails': [], 'status': None, 'line': None, 'expected': None, 'skipped': False, 'ncomp': 0, 'undefined': 0, 'sym': 0, 'maxnodes': 0, 'cancel_cells': 0, 'tie_cells': 0}
    F = out['fails']
    rec = Recorder(c['seed'])
    x0, y0 = x.copy(), y.copy()
    st, v = call(bct.nbs_bct, x, y, thr, k=k, tail=tail, paired=paired, seed=rec, t=30.0)
    if st == 'timeout':      # a single wall-clock hit on a loaded machine is not a verdict: once more, fresh recorder, 10x budget
        rec = Recorder(c['seed'])
        st, v = call(bct.nbs_bct, x, y, thr, k=k, tail=tail, paired=paired, seed=rec, t=300.0)
    out['status'] = st
    if st == 'timeout':      # nbs_bct is a bounded loop: no return within 30 s, nor within 300 s on the retry, on <= 6 nodes / k <= 50 is a failure
        F.append(('returns-within-budget', {'budget_s': 300.0}, {'degenerate_two_sample': False, 'degenerate_two_sample_null': False, 'float_cancellation': False, 'exact_tie_nonzero_thr': False}))
        return out
    line = 'nbs n=%d nx=%d ny=%d x=%s y=%s thr=%s tail=%s paired=%d k=%d draws=%s' % (
        n, nx, ny, mat_str(c['x']), mat_str(c['y']), frac_str(thr), tail, int(paired), k, ','.join(str(d) for d in rec.flat()) or '-')
    if c.get('exp'):
        line += ' exp=%d' % c['exp']
    if c.get('cexp') is not None:
        line += ' cexp=' + mat_str(c['cexp'])
    logs = split_log(rec.log, paired, nx)
    orc = oracle_exact(c, logs) if c.get('exact') else oracle(c, logs)
    out['undefined'] = orc['undefined']
    if orc['near']:
        out['skipped'] = True
        return out
    out['line'] = line if n <= 16 else None      # the Lean model replays cases up to 16 nodes; larger ones are judged by the oracle only
    # Known defect (known_findings.d/C19.json): in the two-sample test an edge that is constant within each group with different group
    # means has t = +-inf, bct's `denom == 0 -> 0` gives 0.  A failure is attributed to it only if the real output equals what the
    # oracle predicts under exactly that convention (E_conv / null_conv) and differs from the true one only through +-inf cells.
    E_true, E_conv = orc['E'], orc['E_conv']
    obs_degenerate = (not paired) and set(E_true) != set(E_conv)
    NO = {'degenerate_two_sample': False, 'degenerate_two_sample_null': False, 'float_cancellation': False, 'exact_tie_nonzero_thr': False}
    # Second known defect: the float variance formulas lose a zero / tiny variance (non-dyadic constants, one-pass paired sum of squares).
    # `cancel` = the cells where bct's formula provably differs from the exact value (float_cancel); a failure is attributed only if it is
    # confined to those cells (or, for null values, to relabellings that contain such a cell).
    cancel = set(tuple(e) for e in orc.get('cancel_cells', []))
    out['cancel_cells'] = len(cancel)
    # Third known defect: a statistic that EQUALS a non-zero threshold exactly is not suprathreshold, but the float statistic can land one
    # rounding above it (x=[3,6,6], y=[4,1,3], thr 1.75: float t = 1.7500000000000002).  `ties` = cells with exact t == thr != 0.
    ties = set(tuple(e) for e in orc.get('tie_cells', []))
    out['tie_cells'] = len(ties)
    if cancel or any(orc.get('null_cancel', [])) or ties or any(orc.get('null_tie', [])):
        out['line'] = None      # some float variance is an artefact (observed data or a relabelling): the exact model is not expected to agree; judged by the exact oracle only
        out['nocorr'] = True
    if thr < 0 and orc['nan_cells']:
        # 0/0 statistic with a negative threshold: the statistic is undefined, no claim on those cells (bct uses 0 / nan)
        out['status'] = 'noclaim'
        out['expected'] = expected_line(st, v, k) if st != 'exc' else 'error=' + exc_kind(v)
        return out
    if st == 'exc':
        kind = exc_kind(v)
        out['expected'] = 'error=' + kind
        if kind == 'BCTParamError' and 'Unsuitable threshold' in v and not E_true:
            return out                                    # documented rejection: no suprathreshold edge
        known = obs_degenerate and kind == 'BCTParamError' and 'Unsuitable threshold' in v and not E_conv
        known2 = (not known) and kind == 'BCTParamError' and 'Unsuitable threshold' in v and bool(cancel) and set(E_conv) <= cancel
        F.append(('raises', {'exception': v, 'oracle_edges': E_true, 'inf_cells': orc['inf_cells'], 'cancellation_cells': sorted(cancel)},
                  dict(NO, degenerate_two_sample=bool(known), float_cancellation=bool(known2))))      # (a tie can only ADD an edge, never cause this rejection)
        if known2:
            out['line'] = None          # the exact model cannot agree with a float artefact
        return out
    pvals, adj, null = v
    pvals = np.asarray(pvals, dtype=float); adj = np.asarray(adj, dtype=float); null = np.asarray(null, dtype=float)
    if not (np.all(np.isfinite(pvals)) and np.all(np.isfinite(adj)) and np.all(np.isfinite(null)) and np.all(adj == np.round(adj)) and np.all(null == np.round(null))):
        # never format a non-finite / fractional output (int() would raise in the worker): it is a violation in its own right
        F.append(('finite-integer-output', {'pvals': str(pvals)[:200], 'adj': str(adj)[:300], 'null': str(null)[:200]}, dict(NO)))
        out['line'] = None
        return out
    out['expected'] = expected_line(st, v, k)
    # ---- support
    def smat(E):
        S = np.zeros((n, n), dtype=bool)
        for (i, j) in E:
            S[i, j] = S[j, i] = True
        return S
    E_use = E_true
    if adj.shape != (n, n) or not np.array_equal(adj != 0, smat(E_true)):
        known = obs_degenerate and adj.shape == (n, n) and np.array_equal(adj != 0, smat(E_conv))
        marked = [(i, j) for i in range(n) for j in range(i + 1, n) if adj.shape == (n, n) and adj[i, j] != 0]
        known2 = (not known) and adj.shape == (n, n) and np.array_equal(adj, adj.T) and bool(cancel) and (set(marked) ^ set(E_conv)) <= cancel
        known3 = (not known) and (not known2) and adj.shape == (n, n) and np.array_equal(adj, adj.T) and bool(ties) \
            and (set(marked) ^ set(E_conv)) <= ties and set(E_conv) <= set(marked)          # only tie cells, and only ADDED
        F.append(('support', {'adj': adj.tolist(), 'oracle_edges': E_true, 'inf_cells': orc['inf_cells'], 'cancellation_cells': sorted(cancel), 'exact_tie_cells': sorted(ties)},
                  dict(NO, degenerate_two_sample=bool(known), float_cancellation=bool(known2), exact_tie_nonzero_thr=bool(known3))))
        if not (known or known2 or known3):
            return out
        E_use = E_conv if known else marked   # go on: labels, p-values, null and the symmetries are still judged, relative to the marked support
        if known2:
            out['line'] = None
    cond = dict(NO)
    orc['comps'] = comps_of(n, E_use)
    if not np.array_equal(adj, adj.T):
        F.append(('adj-symmetric', {'adj': adj.tolist()}, cond))
    # ---- labels up to renaming
    comps = orc['comps']
    out['ncomp'] = len(comps)
    out['maxnodes'] = max([len(cc[0]) for cc in comps] + [0])
    labs = []
    ok = True
    for nodes, es in comps:
        ls = {adj[i, j] for (i, j) in es}
        if len(ls) != 1:
            ok = False
        labs.append(sorted(ls)[0])
    if not ok or len(set(labs)) != len(labs) or sorted(labs) != list(range(1, len(comps) + 1)):
        F.append(('labels', {'adj': adj.tolist(), 'oracle_components': [cc[0] for cc in comps]}, cond))
        return out
    # ---- p-values from the returned null
    if pvals.shape != (len(comps),) or null.shape != (k,):
        F.append(('pvals-shape', {'pvals': pvals.tolist(), 'components': len(comps), 'null_len': int(null.size), 'k': k}, cond))
        return out
    for (nodes, es), lab in zip(comps, labs):
        size = int((adj == lab).sum()) // 2
        want = float(np.sum(null >= size)) / k
        if size != len(es) or pvals[int(lab) - 1] != want:
            F.append(('pvals', {'label': int(lab), 'size': size, 'pval': float(pvals[int(lab) - 1]), 'expected': want, 'null': null.tolist()}, cond))
            break
    # ---- null values = largest component under each recorded relabelling
    if len(logs) != k or null.shape != (k,):
        F.append(('null', {'null': null.tolist(), 'permutations_recorded': len(logs)}, cond))
    else:
        on = np.array(orc['null'], dtype=float); oc = np.array(orc['null_conv'], dtype=float)
        bad = np.nonzero(null != on)[0]
        if len(bad):
            # attributed to the known defect only if every deviating value is exactly the `denom == 0 -> 0` value of a relabelling that has a +-inf cell
            known = (not paired) and all(orc['null_inf'][u] and null[u] == oc[u] for u in bad)
            nc = orc.get('null_cancel', [False] * k)
            known2 = (not known) and all(nc[u] or (orc['null_inf'][u] and null[u] == oc[u]) for u in bad)
            nt = orc.get('null_tie', [False] * k)
            known3 = (not known) and (not known2) and all(nt[u] and null[u] >= oc[u] for u in bad)     # a tie can only enlarge a component
            F.append(('null', {'null': null.tolist(), 'oracle_null': orc['null'], 'oracle_null_denom0_convention': orc['null_conv'],
                               'deviating_permutations': [int(u) for u in bad]},
                      dict(NO, degenerate_two_sample_null=bool(known), float_cancellation=bool(known2), exact_tie_nonzero_thr=bool(known3))))
            if known2:
                out['line'] = None
    if not (np.array_equal(x, x0) and np.array_equal(y, y0)):
        F.append(('input-modified', {}, cond))
    # ---- symmetries of the observed components (k small: only adj is compared)
    def canon_adj(a):
        a = np.asarray(a); m = {}
        outa = np.zeros_like(a)
        for i in range(n):
            for j in range(n):
                if a[i, j] != 0:
                    outa[i, j] = m.setdefault(a[i, j], len(m) + 1)
        return outa
    base = canon_adj(adj)
    st2, v2 = call(bct.nbs_bct, y0.copy(), x0.copy(), thr, k=3, tail=SWAP[tail], paired=paired, seed=Recorder(1), t=30.0, retry=10)
    out['sym'] += 1
    def sym_cond(st_, v_):
        # a symmetry failure is attributed to the float-cancellation / exact-tie defects only if the two supports differ inside those cells
        if not cancel and not ties:
            return cond
        if st_ == 'exc' and 'Unsuitable threshold' in str(v_):
            diff = set((i, j) for i in range(n) for j in range(i + 1, n) if adj[i, j] != 0)
        elif st_ == 'ok':
            a2 = np.asarray(v_[1]); diff = set((i, j) for i in range(n) for j in range(i + 1, n) if (adj[i, j] != 0) != (a2[i, j] != 0))
        else:
            return cond
        return dict(cond, float_cancellation=bool(diff) and bool(cancel) and diff <= cancel, exact_tie_nonzero_thr=bool(diff) and bool(ties) and not (bool(cancel) and diff <= cancel) and diff <= ties)
    if st2 != 'ok' or not np.array_equal(canon_adj(v2[1]), base):
        F.append(('group-swap', {'tail': tail, 'swapped_tail': SWAP[tail], 'adj': adj.tolist(), 'adj_swapped': v2[1].tolist() if st2 == 'ok' else str(v2)}, sym_cond(st2, v2)))
    prs = np.random.RandomState(c['seed'] % 65521)
    px = prs.permutation(nx); py = px if paired else prs.permutation(ny)
    st3, v3 = call(bct.nbs_bct, x0[:, :, px].copy(), y0[:, :, py].copy(), thr, k=3, tail=tail, paired=paired, seed=Recorder(2), t=30.0, retry=10)
    out['sym'] += 1
    if st3 != 'ok' or not np.array_equal(canon_adj(v3[1]), base):
        F.append(('subject-reorder', {'px': px.tolist(), 'py': py.tolist(), 'adj': adj.tolist(), 'adj_reordered': v3[1].tolist() if st3 == 'ok' else str(v3)}, sym_cond(st3, v3)))
    return out



# ------------------------------------------------------------------ history / object-reuse probes

def gen_probes(rs, tier):
    P = []
    for t in range(48 if tier != 'thorough' else 400):
        paired = (t % 3 == 2)
        n = int(rs.randint(4, 7)); nx = int(rs.randint(3, 7)); ny = nx if paired else nx + int(rs.randint(1, 3))
        x, y, eff = gen_data(rs, n, nx, ny, paired, ('plain', 'const')[t % 2])
        P.append({'probe': ('edit-subject', 'edit-returned', 'other-size-between')[t % 3], 'n': n, 'nx': nx, 'ny': ny,
                  'x': x.astype(int).tolist(), 'y': y.astype(int).tolist(), 'thr': float(np.round(rs.uniform(0.8, 2.2), 4)),
                  'tail': TAILS[int(rs.randint(3))], 'paired': paired, 'k': int(rs.randint(8, 16)), 'seed': int(rs.randint(2 ** 31 - 1)),
                  'eff': [list(e) for e in eff]})
    return P


def run_probe(pc):
    """nbs_bct is a function of (x, y, thresh, k, tail, paired, seed): same stacks twice, one subject's matrix edited in place in between"""
    import copy
    bct = import_bct()
    x = np.array(pc['x'], dtype=float); y = np.array(pc['y'], dtype=float); n = pc['n']
    prs = np.random.RandomState(pc['seed'] % 65521)
    kw = dict(k=pc['k'], tail=pc['tail'], paired=pc['paired'])
    out = {'probe': pc['probe'], 'fail': None, 'ran': 0}

    def fn(a, b, seed=None):
        return tuple(np.asarray(z).copy() for z in bct.nbs_bct(a, b, pc['thr'], seed=seed, **kw))

    def mutate(args):      # one subject's matrix gets a strong symmetric effect on one more connection (both stacks stay symmetric)
        a = args[int(prs.randint(2))]
        s_ = int(prs.randint(a.shape[2])); i = int(prs.randint(n)); j = (i + 1 + int(prs.randint(n - 1))) % n
        a[i, j, s_] += 9; a[j, i, s_] += 9
        if pc['paired']:       # keep the pairing meaningful: nothing else to do, shapes unchanged
            pass
    if pc['probe'] == 'edit-subject':
        res = reuse_probe(fn, [x, y], mutate, t=60.0, seed=int(pc['seed'] % 100000))
        out['ran'] = 1
        if res is not None:
            out['fail'] = res
    elif pc['probe'] == 'edit-returned':
        sd = int(pc['seed'] % 100000)
        s1, r1 = call(bct.nbs_bct, x, y, pc['thr'], seed=sd, t=60.0, **kw)
        if s1 == 'ok':
            want = copy.deepcopy(r1)
            for a in r1:
                a *= -2.0
            s2, r2 = call(bct.nbs_bct, x, y, pc['thr'], seed=sd, t=60.0, **kw)
            out['ran'] = 1
            if s2 != 'ok' or not same_result(r2, want, 0.0) or not (np.array_equal(x, np.array(pc['x'], dtype=float)) and np.array_equal(y, np.array(pc['y'], dtype=float))):
                out['fail'] = {'first': str(want)[:300], 'second_after_editing_returned_arrays': str(r2)[:300]}
    else:                      # a call on stacks of another size / tail between two identical calls
        sd = int(pc['seed'] % 100000)
        s1, r1 = call(bct.nbs_bct, x.copy(), y.copy(), pc['thr'], seed=sd, t=60.0, **kw)
        want = copy.deepcopy(r1)
        m2 = n + 1
        x2 = prs.randint(0, 9, size=(m2, m2, pc['nx'])).astype(float); y2 = prs.randint(0, 9, size=(m2, m2, pc['ny'])).astype(float) + 3
        for a_ in (x2, y2):
            for s_ in range(a_.shape[2]):
                a_[:, :, s_] = np.triu(a_[:, :, s_], 1) + np.triu(a_[:, :, s_], 1).T
        call(bct.nbs_bct, x2, y2, 0.5, k=5, tail=SWAP[pc['tail']], paired=pc['paired'], seed=sd + 1, t=60.0)
        call(bct.nbs_bct, y.copy(), x.copy(), pc['thr'], k=5, tail=pc['tail'], paired=pc['paired'], seed=sd + 2, t=60.0)
        s2, r2 = call(bct.nbs_bct, x.copy(), y.copy(), pc['thr'], seed=sd, t=60.0, **kw)
        out['ran'] = 1
        if s1 != s2 or (s1 == 'ok' and not same_result(r2, want, 0.0)) or (s1 == 'exc' and exc_kind(r1) != exc_kind(r2)):
            out['fail'] = {'first': str(want)[:300], 'after_other_calls': str(r2)[:300]}
    return out


def run_any(c):
    return run_probe(c) if 'probe' in c else run_case(c)


def expected_line(st, v, k):
    pvals, adj, null = v
    adj = np.asarray(adj); n = len(adj)
    if not (np.all(np.isfinite(np.asarray(pvals, dtype=float))) and np.all(np.isfinite(np.asarray(adj, dtype=float))) and np.all(np.isfinite(np.asarray(null, dtype=float)))
            and np.all(np.asarray(adj, dtype=float) == np.round(np.asarray(adj, dtype=float)))):
        return 'non-finite-or-fractional-output'       # never equal to a model line: a correspondence break, not a crash
    C = len(pvals)
    sizes = [int((adj == c + 1).sum()) // 2 for c in range(C)]
    hits = [int(round(float(p) * k)) for p in pvals]
    exact = all(float(p) == h / k for p, h in zip(pvals, hits))
    return 'adj=%s sizes=%s hits=%s k=%d null=%s left=0%s' % (
        mat_str(adj), ','.join(map(str, sizes)) or '-', ','.join(map(str, hits)) or '-', k, ','.join(str(int(z)) for z in null) or '-',
        '' if exact else ' (pvals not exactly hits/k)')


def malformed_stream(rs):
    """calls outside the quantifier: only the documented rejection is compared"""
    bct = import_bct()
    items = []
    n, nx, ny = 4, 4, 5
    x, y, _ = gen_data(rs, n, nx, ny, False, 'plain')

    def line(x, y, nx, ny, thr, tail, paired, k, draws='-'):
        return 'nbs n=%d nx=%d ny=%d x=%s y=%s thr=%s tail=%s paired=%d k=%d draws=%s' % (n, nx, ny, mat_str(x), mat_str(y), frac_str(thr), tail, paired, k, draws)

    def py(*a, **kw):
        st, v = call(bct.nbs_bct, *a, t=30, **kw)
        return 'error=' + exc_kind(v) if st == 'exc' else 'py:' + st
    items.append((line(x, y, nx, ny, 2.0, 'up', 0, 5), py(x, y, 2.0, k=5, tail='up', seed=1)))
    items.append((line(x, y, nx, ny, 2.0, 'both', 1, 5), py(x, y, 2.0, k=5, tail='both', paired=True, seed=1)))
    items.append((line(x, y, nx, ny, 1000.0, 'both', 0, 5), py(x, y, 1000.0, k=5, tail='both', seed=1)))
    rec = Recorder(3)
    items.append((line(x, y, nx, ny, 0.01, 'both', 0, 0), py(x, y, 0.01, k=0, tail='both', seed=rec)))
    for bad in ['nbs n=4', 'nbs n=4 nx=2 ny=2 x=1,2 y=1,2 thr=1 tail=both paired=0 k=1 draws=-', 'foo', '']:
        items.append((bad, 'error=protocol'))
    # a permutation draw that is not a permutation index
    items.append((line(x, y, nx, ny, 0.01, 'both', 0, 1, ','.join(['99'] * 9)), 'error=bad-draw'))
    items.append((line(x, y, nx, ny, 0.01, 'both', 0, 2, ','.join(str(i) for i in range(9))), 'error=out-of-draws'))
    return items


def drive(lines):
    """run the Lean driver on chunks in parallel (one interpreter process per chunk)"""
    if not lines:
        return []
    nchunk = min(8, max(1, len(lines) // 8))
    chunks = [lines[i::nchunk] for i in range(nchunk)]
    with ThreadPoolExecutor(nchunk) as ex:
        outs = list(ex.map(lambda ch: run_driver('Nbs', ch, timeout=2400), chunks))
    res = [None] * len(lines)
    for ci, o in enumerate(outs):
        for t, r in enumerate(o):
            res[ci + t * nchunk] = r
    return res


def main():
    ck = Check(PID)
    ck.cov['rule'] = ('cases = (x stack, y stack, threshold, tail, paired, k, seed). Scipy-oracle families: N = 4..6 nodes, integer-valued symmetric stacks, group sizes 3..7 '
                      '(unequal unless paired), effect clusters of either sign, constant edges, k = 20..50, thresholds mostly 1..2.8 plus small / huge / negative ones, passed as '
                      'float64 / float32 / int64 / int32 / int16 / uint8 / uint16 / uint32 in C or Fortran order; equal small groups (3+3, 4+4, 5+5, k = 40..80); chains / spanning trees of '
                      'strong effects with n = 6..68 (up to 2278 connections); the same data in exact dyadic units (x 2^-30, 2^-40, 2^-60, 2^20, single cells at 2^-35 / 2^-70). '
                      'Exact-rational-oracle families (no tolerance, no skip): non-dyadic constant connections (0.1, 0.3, 0.7) two-sample and paired, data offset by ~1e8, thr = 0 with exact ties, '
                      'more than 64 connections (n = 12..24) with constant connections and unequal groups, thr := an exactly attained dyadic statistic. The case list is shuffled before it is '
                      'split over the workers; history / object-reuse probes. non-trivial = distinct case in which nbs_bct returned and the oracle finds at least one component; '
                      'scipy-oracle cases with an attained statistic within 1e-6 of the threshold are skipped, counted, and capped at 2 %')
    ck.assumptions += ['scipy-oracle families: data are integer valued (times an exact power of two), so exact and float statistics differ by far less than the 1e-6 threshold margin; '
                       'exact-oracle families are decided in rational arithmetic on the exact values of the floats',
                       'group sizes >= 2 per group (>= 3 in most families); the statistic of a connection that is constant over all subjects of both groups (0/0) does not exceed any threshold >= 0; '
                       'with a negative threshold and such a connection no claim is made (status noclaim)',
                       'every recorded permutation / sign flip is replayed by the oracle; the Lean model replays cases with n <= 16 that contain no float artefact / exact-tie cell']
    # T-gen: nbs_bct source-pinned, its callee get_components interpreted (translate/cores.py)
    ck.cov['cores'] = cores.generate(families=['nbs', 'comp'])
    for p_ in ck.cov['cores']['problems']:
        ck.corr_break('core extractor (translate/cores.py)', p_)
    ok = ck.lean_gate(['BctVerif.Props.C19'], extra_modules=['BctVerif.Model.Nbs'])
    ck.lean_gate([], gen_modules=['BctVerif.Gen.CoresNbs', 'BctVerif.Gen.CoresComp'])
    if ck.tier == 'thorough' and ok:
        ck.leanchecker(['BctVerif.Props.C19', 'BctVerif.Model.Nbs'])
    if ck.replay:
        cases = [json.load(open(ck.replay))['case']['case']]
    else:
        cases = gen_cases(ck.rs, ck.tier) + gen_probes(ck.rs, ck.tier)
        # interleave: no worker sees the cases grouped by family, size, tail or test (state carried across calls must not line up with the order)
        cases = [cases[i] for i in ck.rs.permutation(len(cases))]
    results = pmap(run_any, cases)
    lines, meta = [], []
    for c, r in zip(cases, results):
        if 'probe' in c:
            ck.count('probe:' + c['probe'], r['ran'])
            ck.case(nontrivial_key=digest(c) if r['ran'] else None)
            if r['fail'] is not None:
                ck.violation('nbs_bct', 'result-depends-on-history', {'case': c, 'info': r['fail']}, {'degenerate_two_sample': False, 'degenerate_two_sample_null': False, 'float_cancellation': False, 'exact_tie_nonzero_thr': False})
            continue
        ck.count('status:' + str(r['status'])); ck.count('n=%d' % c['n']); ck.count('tail:' + c['tail']); ck.count('paired' if c['paired'] else 'two-sample')
        ck.count('flavour:' + c['flavour']); ck.count('dtype:%s/%s' % (c.get('dtype', 'float64'), c.get('order', 'C'))); ck.count('scale:' + c.get('scale', 'unit')); ck.count('symmetry_calls', r['sym']); ck.count('undefined_t_cells(0/0)', r['undefined'])
        if r['skipped']:
            ck.count('skipped_near_threshold')
        if r.get('cancel_cells'):
            ck.count('cases_with_float_cancellation_cells')
        if r.get('tie_cells'):
            ck.count('cases_with_exact_tie_cells(t == thr != 0)')
        if r.get('nocorr'):
            ck.count('correspondence_skipped(float artefact or exact tie t == thr: judged by the exact oracle only)')
        nontriv = r['status'] == 'ok' and r['ncomp'] > 0
        ck.case(sample={k_: c[k_] for k_ in ('n', 'nx', 'ny', 'thr', 'tail', 'paired', 'k', 'seed', 'flavour', 'scale', 'exp')} | {'components': r['ncomp'], 'x[:,:,0]': np.array(c['x'])[:, :, 0].tolist()} if nontriv else None,
                nontrivial_key=digest([c['x'], c['y'], c['thr'], c['tail'], c['paired'], c['k'], c['seed'], c.get('exp'), c.get('cexp')]) if nontriv else None)
        ck.count('components=%d' % min(r['ncomp'], 3))
        if c['flavour'] == 'chain':
            ck.count('chain:n=%d:largest-component-nodes=%d' % (c['n'], r['maxnodes']))
        for pred, info, cond in r['fails']:
            ck.violation('nbs_bct', pred, {'case': c, 'info': info}, cond)
        if r['line'] is not None and r['expected'] is not None:
            lines.append(r['line']); meta.append((c, r['expected']))
    if not ck.replay and ck.dist.get('skipped_near_threshold', 0) > max(3, len(cases) // 50):
        ck.corr_break('too many cases skipped as near-threshold (cap 2 %)', {'skipped': ck.dist.get('skipped_near_threshold'), 'cases': len(cases)})
    if not ck.replay and not ck.dist.get('status:ok'):
        ck.corr_break('nbs_bct never returned normally in this run', {'statuses': {k_: v_ for k_, v_ in ck.dist.items() if k_.startswith('status:')}})
    if ok:
        try:
            mal = [] if ck.replay else malformed_stream(ck.rs)
            outs = drive(lines + [m[0] if m[0] else 'x' for m in mal])
            nd = 0
            for (c, exp), o in zip(meta, outs):
                if o != exp:
                    nd += 1
                    if nd <= 5:
                        ck.corr_break('Nbs model vs bct.nbs_bct', {'case': {k_: c[k_] for k_ in c if k_ not in ()}, 'model': o[:400], 'impl': exp[:400]})
            for (ln, want), o in zip(mal, outs[len(lines):]):
                ck.count('malformed_cases')
                if o != want:
                    nd += 1
                    ck.corr_break('Nbs model, malformed stream', {'line': ln[:300], 'model': o[:200], 'expected': want})
            ck.cov['traces_validated_against_impl'] = len(outs) - nd
            ck.count('correspondence_cases', len(outs)); ck.count('correspondence_disagreements', nd)
        except DriverError as e:
            ck.corr_break('Nbs driver', str(e))
    ck.finish()


if __name__ == '__main__':
    main()
