"""C15 — k-core and s-core outputs are the maximal subnetworks meeting the degree bound.

Lean: BctVerif.Props.C15 (theorems about the executable model BctVerif.Model.Core).
Correspondence: Main/Core.lean vs bct.kcore_bu / kcore_bd / score_wu / kcoreness_centrality_bu / _bd.
Search: subset-enumeration oracle (n <= 6: the union of all node sets of minimum internal degree >= k,
checked to qualify itself) and an independent one-node-at-a-time peeling beyond.
"""
import sys
from fractions import Fraction as Fr
from common import *  # noqa
sys.path.insert(0, os.path.join(VERIF, 'translate')); import cores  # noqa: E402

PID = 'C15'
T_CALL = 3.0
import multiprocessing as _mp
_CONFIRMED = _mp.Value('i', 0)     # confirmed (twice timed-out) calls of this run, shared with the forked pool workers
GIVE_UP_AFTER = 4


def wcall(f, *a, **k):
    """watchdog call whose timeout is a verdict: a timeout is re-tried once with 10x the budget (common.call retry=10) so that
    a single wall-clock stall of a loaded machine cannot become a break; once GIVE_UP_AFTER calls have timed out twice the
    verdict is settled and the remaining calls of the run are not started (keeps a hanging tree from costing 33 s per call)."""
    if _CONFIRMED.value >= GIVE_UP_AFTER:
        return ('timeout', None)
    r = call(f, *a, t=T_CALL, retry=10, **k)
    if r[0] == 'timeout':
        with _CONFIRMED.get_lock():
            _CONFIRMED.value += 1
    return r

# ------------------------------------------------------------------ oracles (no numpy matrix peeling here)


def wt_fun(kind, A):
    """contribution of node w to the degree of node v (exact: int or Fraction)"""
    n = len(A)
    if kind == 'bu':
        return [[1 if A[w][v] != 0 else 0 for v in range(n)] for w in range(n)]
    if kind == 'bd':
        return [[(1 if A[w][v] != 0 else 0) + (1 if A[v][w] != 0 else 0) for v in range(n)] for w in range(n)]
    return [[Fr(A[w][v]) for v in range(n)] for w in range(n)]


def subset_cores(W, ks):
    """for every k in ks: the largest node set (as a bitmask) in which every node keeps degree >= k inside the
    set, by enumeration of all subsets; also checks that the union of qualifying sets qualifies (else None)."""
    n = len(W)
    mins = [None] * (1 << n)
    for S in range(1, 1 << n):
        mem = [v for v in range(n) if S >> v & 1]
        mins[S] = min(sum(W[w][v] for w in mem) for v in mem)
    out = {}
    for k in ks:
        U = 0
        for S in range(1, 1 << n):
            if mins[S] >= k:
                U |= S
        if U and mins[U] < k:
            out[k] = None       # cannot happen for non-negative weights; reported as oracle failure
        else:
            out[k] = U
    return out


def seq_peel_core(W, k):
    """independent peeling: remove ONE node of internal degree < k at a time (any, also isolated ones)"""
    n = len(W)
    alive = set(range(n))
    deg = [sum(W[w][v] for w in alive) for v in range(n)]
    stack = [v for v in alive if deg[v] < k]
    while stack:
        v = stack.pop()
        if v not in alive:
            continue
        alive.discard(v)
        for u in alive:
            if W[v][u] != 0:
                deg[u] -= W[v][u]
                if deg[u] < k:
                    stack.append(u)
    m = 0
    for v in alive:
        m |= 1 << v
    return m


def oracle_cores(kind, A, ks):
    W = wt_fun(kind, A)
    if len(A) <= 6:
        return subset_cores(W, ks)
    return {k: seq_peel_core(W, k) for k in ks}


def restrict(A, mask):
    n = len(A)
    return [[A[i][j] if (mask >> i & 1) and (mask >> j & 1) else 0 for j in range(n)] for i in range(n)]


def bits(mask, n):
    return [v for v in range(n) if mask >> v & 1]


# ------------------------------------------------------------------ canonical text shared with the Lean driver

def ints(xs):
    return ','.join(str(int(x)) for x in xs) if len(xs) else '-'


def groups(gs):
    return ';'.join(','.join(str(int(x)) for x in g) for g in gs) if len(gs) else '-'


def fr(x):
    f = Fr(x)
    return '%d/%d' % (f.numerator, f.denominator)


def flat(A):
    return [x for r in A for x in r]


# ------------------------------------------------------------------ representation axis

def represent(A, rep, base=float):
    """the same matrix values handed to bct in another in-memory representation"""
    M = np.array(A, dtype=base).reshape(len(A), len(A))      # (n = 0: a 0x0 matrix)
    if rep in (None, 'float64'):
        return M
    if rep == 'int64':
        return M.astype(np.int64)
    if rep in ('uint8', 'int32'):
        R = M.astype(getattr(np, rep))
        assert np.array_equal(R.astype(float), M), 'representation must keep the values'
        return R
    if rep == 'bool':
        return M != 0
    if rep == 'float32':
        return M.astype(np.float32)
    if rep == 'fortran':
        return np.asfortranarray(M)
    if rep == 'tview':                 # a transposed view of the transposed copy: same values, non-contiguous strides
        return M.T.copy().T
    if rep == 'strided':               # every second row/column of a larger buffer
        B = np.zeros((2 * len(A), 2 * len(A)), dtype=base)
        B[::2, ::2] = M
        return B[::2, ::2]
    raise ValueError(rep)


def float_subset_cores(Af, ss):
    """decimal weights: the documented semantics "strength at least s inside the set", evaluated without NumPy reductions
    (audit 3: the oracle must not itself be ndarray.sum).  For every node subset S the strength of v inside S is computed
      (f) as a left-to-right sum of Python floats over the members of S in index order (IEEE doubles; what a fresh re-sum
          of the zeroed matrix does, since adding the exact zeros of peeled rows changes nothing), and
      (q) exactly, as a sum of Fractions of the same float weights.
    Returns (cores by (f), cores by (q), attained (f)-strengths); a set qualifies for s iff its minimum strength >= s and
    the core is the union of the qualifying sets (None if that union does not qualify).  Where (f) and (q) give different
    cores the case is sensitive to one-ulp effects and the verdict rests on (f) alone (counted by the caller)."""
    import math
    W = [[float(x) for x in row] for row in np.asarray(Af).tolist()]
    exact = all(math.isfinite(x) for r in W for x in r)          # inf weights: float semantics only ((q) is undefined)
    Wq = [[Fr(x) for x in row] for row in W] if exact else None
    n = len(W)
    minsf = [None] * (1 << n); minsq = [None] * (1 << n)
    attained = set()
    for S in range(1, 1 << n):
        mem = bits(S, n)
        lo_f = None; lo_q = None
        for v in mem:
            acc = 0.0; accq = Fr(0)
            for w in mem:
                acc = acc + W[w][v]
                if exact:
                    accq += Wq[w][v]
            attained.add(acc)
            lo_f = acc if lo_f is None or acc < lo_f else lo_f
            lo_q = accq if lo_q is None or accq < lo_q else lo_q
        minsf[S] = lo_f; minsq[S] = lo_q
    outf, outq = {}, {}
    for s_ in ss:
        todo = [(minsf, outf, s_)] + ([(minsq, outq, Fr(s_))] if exact and math.isfinite(s_) else [])
        for mins, out, thr in todo:
            U = 0
            for S in range(1, 1 << n):
                if mins[S] >= thr:
                    U |= S
            out[s_] = None if (U and mins[U] < thr) else U
    return outf, outq, sorted(attained)


# ------------------------------------------------------------------ history / object-reuse probes (round 3)

PROBE_TARGETS = ('kcore_bu', 'kcore_bd', 'kcoreness_centrality_bu', 'kcoreness_centrality_bd', 'score_wu')


def run_probe(job, bct, out, viol):
    """One reuse probe = common.reuse_probe(target, (A, k)) where `mutate` (i) optionally calls another routine of the
    property ("warm") on the SAME array object — values unchanged —, (ii) optionally edits in place the core that this call
    returned, (iii) optionally lesions / re-weights the matrix in place (symmetrically: stays in the domain).  The second call
    of the target on the same object must equal the call on fresh copies."""
    rs = np.random.RandomState(job['pseed'])
    target, warm, edit = job['probe']
    wu = target == 'score_wu'
    A = np.array([[float(Fr(x)) for x in row] for row in job['A']])
    n = len(A)
    par = float(Fr(job['k'])) if wu else int(job['k'])
    par2 = float(Fr(job['k2'])) if (wu or warm == 'score_wu') else int(job['k2'])
    fn = getattr(bct, target)
    args = [A] if target.startswith('kcoreness') else [A, par]
    log = []

    def mutate(a):
        M = a[0]
        ret = None
        if warm != 'none':
            wf = getattr(bct, warm)
            ret = call(wf, M, t=T_CALL) if warm.startswith('kcoreness') else call(wf, M, par2, t=T_CALL)
            log.append('%s(A%s) on the same object' % (warm, '' if warm.startswith('kcoreness') else ', %r' % par2))
        if edit in ('core', 'core+lesion') and ret is not None and ret[0] == 'ok' and isinstance(ret[1], tuple) and isinstance(ret[1][0], np.ndarray) and ret[1][0].ndim == 2:
            core = ret[1][0]
            how = rs.randint(3)
            if how == 0:
                call(bct.binarize, core, copy=False, t=T_CALL); log.append('binarize(returned core, copy=False)')
            elif how == 1:
                core *= 4; log.append('returned core *= 4')
            else:
                core[:] = 0; log.append('returned core[:] = 0')
        if edit in ('lesion', 'core+lesion'):
            for _ in range(int(rs.randint(1, 3))):
                i, j = [int(x) for x in rs.choice(n, size=2, replace=False)]
                if wu:
                    v = 0.0 if (M[i, j] and rs.rand() < .5) else float(rs.randint(1, 9)) / 4
                else:
                    v = 0.0 if M[i, j] else 1.0
                M[i, j] = M[j, i] = v
                log.append('A[%d,%d] = A[%d,%d] = %r in place' % (i, j, j, i, v))

    d = reuse_probe(fn, args, mutate, t=T_CALL)
    out['evals'] += 1
    out['status']['probe'] = out['status'].get('probe', 0) + 1
    if d is not None:
        d['between_the_two_calls'] = log
        d['matrix_at_second_call'] = A.tolist()
        viol(target, 'result-depends-on-history', d, 'second call on the same array object = call on fresh copies')
    else:
        out['nontrivial'].append(digest(['probe', job['probe'], job['A'], job['k'], job['pseed']]))
    return out


def gen_probes(rs, m):
    jobs = []
    combos = []
    bins = ('kcore_bu', 'kcore_bd', 'kcoreness_centrality_bu', 'kcoreness_centrality_bd')
    for t_ in bins:
        for w in ('none',) + bins:
            for e in (('none', 'lesion') if w != 'none' else ('lesion',)):
                if not (w == t_ and e == 'none'):
                    combos.append((t_, w, e))
        combos.append((t_, 'kcore_bu', 'core+lesion'))
    for e in ('lesion', 'core', 'core+lesion', 'none'):
        combos.append(('score_wu', 'score_wu', e))
    combos.append(('score_wu', 'none', 'lesion'))
    # the pairs that share degrees / sweeps get extra weight
    heavy = [c for c in combos if c[0] == 'score_wu' or {c[0], c[1]} <= {'kcore_bu', 'kcore_bd', 'kcoreness_centrality_bd', 'kcoreness_centrality_bu'} and c[1] != 'none' and c[0][-2:] != c[1][-2:]]
    for q in range(m):
        c = combos[q % len(combos)] if q % 2 == 0 else heavy[(q // 2) % len(heavy)]
        n = int(rs.randint(5, 10))
        if c[0] == 'score_wu':
            A = rand_und(rs, n, rs.choice([.5, .7, .9]), tuple(str(Fr(k, 4)) for k in range(1, 9)))
            Aq = [[Fr(x) for x in r] for r in A]
            strs = sorted({sum(Aq[w][v] for w in range(n)) for v in range(n)} - {0}) or [Fr(1)]
            s2 = strs[int(rs.randint(len(strs)))] + rs.choice([0, Fr(1, 8), Fr(-1, 8), Fr(1, 2)])
            s2 = max(s2, Fr(1, 4))
            s1 = s2 - rs.choice([0, Fr(1, 4), Fr(1, 2), Fr(1)])          # the earlier call of the sweep uses s1 <= s2
            s1 = max(s1, Fr(1, 8))
            jobs.append({'kind': 'probe', 'probe': list(c), 'A': [[str(x) for x in r] for r in A], 'k': str(s2), 'k2': str(s1), 'ks': [],
                         'pseed': int(rs.randint(1 << 30))})
        else:
            A = rand_und(rs, n, rs.choice([.3, .5, .7]))
            if rs.rand() < .3:                       # a ring plus chords: undirected degree 2..3, in+out degree 4..6
                A = [[0] * n for _ in range(n)]
                for i in range(n):
                    A[i][(i + 1) % n] = A[(i + 1) % n][i] = 1
            dmax = max(sum(1 for x in r if x) for r in A)
            k = int(rs.randint(1, 2 * dmax + 2))
            k2 = str(Fr(int(rs.randint(1, 5)), 2)) if c[1] == 'score_wu' else int(rs.randint(1, 2 * dmax + 2))
            jobs.append({'kind': 'probe', 'probe': list(c), 'A': A, 'k': k, 'k2': k2, 'ks': [], 'pseed': int(rs.randint(1 << 30))})
    return jobs

# ------------------------------------------------------------------ one job = one matrix, all its k / s

def run_job(job):
    """returns dict(viol=[(func, predicate, detail, cond)], lines=[(lean line, expected, func)], stats)"""
    bct = import_bct()
    kind, A, ks = job['kind'], job['A'], job['ks']
    n = len(A)
    enc = lambda x: int(x)
    if job.get('encode') == 'rank':
        # special values (inf, 1e-300, denormals, -0.0, negative): they travel as strings; the Int model sees the signed rank of
        # each distinct non-zero value — the k-core routines may only depend on zero / non-zero ("connection" = non-zero entry)
        A = [[float(x) for x in r] for r in A]
        vals = sorted({abs(x) for x in flat(A) if x != 0})
        rk = {v: i + 1 for i, v in enumerate(vals)}
        enc = lambda x: 0 if x == 0 else (rk[abs(float(x))] if x > 0 else -rk[abs(float(x))])
    elif job.get('encode') == 'binary':
        A = [[float(x) for x in r] for r in A]       # positive special weights, sent to the model as 0/1 (kcoreness: only x != 0 and x > 0 matter)
        enc = lambda x: int(x != 0)
    out = {'viol': [], 'lines': [], 'n': n, 'kind': kind, 'status': {}, 'nontrivial': [], 'evals': 0, 'timeouts': []}
    malformed = job.get('malformed', False)

    def st(s):
        out['status'][s] = out['status'].get(s, 0) + 1

    def viol(func, pred, obs, exp, cond=None, **extra):
        c = dict(job); c.update(extra)
        out['viol'].append((func, pred, {'case': c, 'observed': obs, 'expected': exp}, cond or {}))

    if kind == 'probe':
        return run_probe(job, bct, out, viol)

    if kind in ('bu', 'bd'):
        func = 'kcore_' + kind
        f = getattr(bct, func)
        Af = represent(A, job.get('rep'))
        cores = None if malformed else oracle_cores(kind, A, ks)
        prev = None
        for k in ks:
            A_in = Af.copy()
            r = wcall(f, A_in, k, True)
            r2 = wcall(f, Af.copy(), k) if r[0] != 'timeout' else r
            out['evals'] += 1
            st(r[0])
            if r[0] == 'timeout' or r2[0] == 'timeout':
                out['timeouts'].append('%s k=%d' % (func, k)); break     # the model always terminates: reported by main()
            if r[0] == 'exc' or r2[0] == 'exc':
                viol(func, 'raises', r[1] if r[0] == 'exc' else r2[1], None, k=k)
                continue
            M, kn, order, level = r[1]
            Ml = [[float(x) for x in row] for row in np.asarray(M)]
            order = [[int(x) for x in g] for g in order]
            level = [[float(x) for x in g] for g in level]
            special = job.get('encode') == 'rank'
            okM = special or all(float(x) == int(x) for x in flat(Ml))
            exp_line = 'M=%s kn=%d order=%s level=%s' % ((','.join(str(enc(x)) for x in flat(Ml)) if okM else str(Ml)) if n else '', int(kn), groups(order), groups(level))
            if job.get('nolean'):
                pass
            elif all(float(x) == int(x) for g in level for x in g) and okM:
                out['lines'].append(('%s n=%d A=%s k=%d' % (func, n, ','.join(str(enc(x)) for x in flat(A)) or '-', k), exp_line, func))
            else:
                viol(func, 'integral-output', exp_line, None, k=k)
            if not (np.array_equal(r2[1][0], M) and int(r2[1][1]) == int(kn)):
                viol(func, 'peel-flag-consistent', [np.asarray(r2[1][0]).tolist(), int(r2[1][1])], [Ml, int(kn)], k=k)
            if malformed:
                continue
            C = cores[k]
            if C is None:
                viol(func, 'oracle-union-qualifies', None, None, k=k); continue
            if k == 0:
                # every node set qualifies: nothing may be peeled; kn is by the code's convention the number of non-isolated nodes
                W0 = wt_fun(kind, A)
                nz = sum(1 for v in range(n) if sum(W0[w][v] for w in range(n)) > 0)
                if Ml != [[float(x) for x in row] for row in A] or order or int(kn) != nz:
                    viol(func, 'k0-identity', {'M': Ml, 'kn': int(kn), 'order': order}, {'M': A, 'kn': nz, 'order': []}, k=k)
            if k >= 1:
                sup = 0
                for v in range(n):
                    if any(Ml[v][j] != 0 or Ml[j][v] != 0 for j in range(n)):
                        sup |= 1 << v
                if sup != C:
                    viol(func, 'core-set', bits(sup, n), bits(C, n), k=k)
                if Ml != [[float(x) for x in row] for row in restrict(A, C)]:
                    viol(func, 'restricted-matrix', Ml, restrict(A, C), k=k)
                if int(kn) != bin(C).count('1'):
                    viol(func, 'size', int(kn), bin(C).count('1'), k=k)
                if prev is not None and prev[0] >= 1 and (sup & ~prev[1]):
                    viol(func, 'nested', {'k': k, 'core': bits(sup, n)}, {'k': prev[0], 'core': bits(prev[1], n)}, k=k)
                prev = (k, sup)
                # peel order / level
                W = wt_fun(kind, A)
                fl = [v for g in order for v in g]
                bad = None
                if len(set(fl)) != len(fl):
                    bad = 'node listed twice'
                elif any(C >> v & 1 for v in fl):
                    bad = 'core node listed'
                elif any(len(g) == 0 for g in order):
                    bad = 'empty group'
                elif [list(map(float, l)) for l in level] != [[float(i + 1)] * len(g) for i, g in enumerate(order)]:
                    bad = 'levels are not 1,2,.. repeated per group'
                else:
                    listed = set(fl)
                    removed_before = set()
                    for g in order:   # a group = exactly the nodes with 0 < degree < k once the earlier groups are gone
                        rest = [w for w in range(n) if w not in removed_before]
                        want = [v for v in rest if 0 < sum(W[w][v] for w in rest) < k]
                        if want != g:
                            bad = 'group %s is not the set of nodes with 0<deg<k at that round (%s)' % (g, want); break
                        removed_before |= set(g)
                    if bad is None:
                        for v in range(n):
                            if not (C >> v & 1) and v not in listed and any(W[w][v] != 0 for w in range(n) if w not in listed):
                                bad = 'node %d outside the core, not listed, still has an unlisted neighbour' % v; break
                if bad:
                    viol(func, 'peel-once', {'order': order, 'level': level, 'why': bad}, {'core': bits(C, n)}, k=k)
                if order:
                    out['nontrivial'].append(digest([func, A, k]))
        return out

    if kind == 'wu-dec':
        # decimal (non-dyadic) weights k/10: float effects are part of the observable behaviour, so this family is judged by the
        # float subset-enumeration oracle only (the exact-rational Lean model cannot see one-ulp effects)
        func = 'score_wu'
        Af = np.array([[float(x) for x in r] for r in A], dtype=float).reshape(n, n)
        _, _, attained = float_subset_cores(Af, [])
        ss = set()
        for v in attained:
            if v > 0:
                ss.update((v, float(np.nextafter(v, np.inf)), float(np.nextafter(v, -np.inf))))
        ss = sorted(x for x in ss if x > 0)          # (nextafter below the smallest denormal is 0.0: s <= 0 is the k0-identity convention)
        if job.get('max_s') and len(ss) > job['max_s']:
            rs_ = np.random.RandomState(job['max_s'] + len(ss))
            ss = [ss[i] for i in sorted(rs_.choice(len(ss), size=job['max_s'], replace=False).tolist())]
        cores, cores_exact, _ = float_subset_cores(Af, ss)
        full = [sum(1 for x in col if x != 0) for col in zip(*Af.tolist())]       # non-negative weights: positive strength iff some non-zero entry
        for s_ in ss:
            r = wcall(bct.score_wu, Af.copy(), s_)
            out['evals'] += 1
            st(r[0])
            if r[0] == 'timeout':
                out['timeouts'].append('%s s=%r' % (func, s_)); break
            if r[0] == 'exc':
                viol(func, 'raises', r[1], None, s=repr(s_)); continue
            M, sn = np.asarray(r[1][0]), int(r[1][1])
            C = cores[s_]
            if C is None:
                viol(func, 'oracle-union-qualifies', None, None, s=repr(s_)); continue
            sup = 0
            for v in range(n):
                if M[v].any() or M[:, v].any():
                    sup |= 1 << v
            want = np.array(restrict(Af.tolist(), C))
            if sup != C:
                viol(func, 'core-set', bits(sup, n), bits(C, n), s=repr(s_), weights='decimal')
            if not np.array_equal(M, want):
                viol(func, 'restricted-matrix', M.tolist(), want.tolist(), s=repr(s_), weights='decimal')
            if sn != bin(C).count('1'):
                viol(func, 'size', sn, bin(C).count('1'), s=repr(s_), weights='decimal')
            if cores_exact.get(s_, C) != C:
                out['dec_ulp'] = out.get('dec_ulp', 0) + 1        # exact-rational semantics would give another core: verdict rests on (f)
            mem = bits(C, n)
            Wl = Af.tolist()
            tie = False
            for v in mem:
                acc = 0.0
                for w in mem:
                    acc = acc + Wl[w][v]
                tie = tie or acc == s_
            if mem and C != sum(1 << v for v in range(n) if full[v] > 0) and tie:
                out['nontrivial'].append(digest(['score_wu-dec-tie', A, s_]))     # earlier peeling and an exact tie inside the core
                out['dec_ties'] = out.get('dec_ties', 0) + 1
        return out

    if kind == 'wu':
        func = 'score_wu'
        Af = represent([[float(Fr(x)) for x in row] for row in A], job.get('rep'))
        Aq = [[Fr(x) for x in row] for row in A]
        ss = [Fr(s) for s in ks]
        cores = oracle_cores('wu', Aq, ss)
        prev = None
        for s in ss:
            r = wcall(bct.score_wu, Af.copy(), float(s))
            out['evals'] += 1
            st(r[0])
            if r[0] == 'timeout':
                out['timeouts'].append('%s s=%s' % (func, s)); break
            if r[0] == 'exc':
                viol(func, 'raises', r[1], None, s=str(s)); continue
            M, sn = r[1]
            Mq = [[Fr(float(x)) for x in row] for row in np.asarray(M)]
            if not job.get('nolean'):
                out['lines'].append(('score_wu n=%d A=%s s=%s' % (n, ','.join(fr(x) for x in flat(Aq)) or '-', fr(s)),
                                     'M=%s kn=%d' % (','.join(fr(x) for x in flat(Mq)), int(sn)), func))
            C = cores[s]
            if C is None:
                viol(func, 'oracle-union-qualifies', None, None, s=str(s)); continue
            if s <= 0:
                nz = sum(1 for v in range(n) if sum(Aq[w][v] for w in range(n)) > 0)
                if Mq != Aq or int(sn) != nz:
                    viol(func, 'k0-identity', {'kn': int(sn)}, {'M': 'input', 'kn': nz}, s=str(s))
            if s > 0:
                sup = 0
                for v in range(n):
                    if any(Mq[v][j] != 0 or Mq[j][v] != 0 for j in range(n)):
                        sup |= 1 << v
                if sup != C:
                    viol(func, 'core-set', bits(sup, n), bits(C, n), s=str(s))
                if Mq != restrict(Aq, C):
                    viol(func, 'restricted-matrix', [[str(x) for x in r_] for r_ in Mq], [[str(x) for x in r_] for r_ in restrict(Aq, C)], s=str(s))
                if int(sn) != bin(C).count('1'):
                    viol(func, 'size', int(sn), bin(C).count('1'), s=str(s))
                if prev is not None and (sup & ~prev[1]):
                    viol(func, 'nested', {'s': str(s), 'core': bits(sup, n)}, {'s': str(prev[0]), 'core': bits(prev[1], n)}, s=str(s))
                prev = (s, sup)
                if sup != (1 << n) - 1:
                    out['nontrivial'].append(digest([func, A, str(s)]))
        return out

    # k-coreness centrality
    base = kind[2:]                       # 'bu' / 'bd'
    func = 'kcoreness_centrality_' + base
    Af = represent(A, job.get('rep'))
    r = wcall(getattr(bct, func), Af.copy())
    out['evals'] += 1
    st(r[0])
    if r[0] == 'timeout':
        out['timeouts'].append(func); return out
    if r[0] == 'exc':
        viol(func, 'raises', r[1], None); return out
    cor, kn = [int(x) for x in r[1][0]], [int(x) for x in r[1][1]]
    if not job.get('nolean'):
        out['lines'].append(('kcoreness_%s n=%d A=%s' % (base, n, ','.join(str(enc(x)) for x in flat(A)) or '-'), 'coreness=%s kn=%s' % (ints(cor), ints(kn)), func))
    if malformed:
        return out
    kmax = 2 * n + 1
    cores = oracle_cores(base, A, list(range(1, kmax + 1)))
    true_c = [max([0] + [k for k in range(1, kmax + 1) if cores[k] >> v & 1]) for v in range(n)]
    if true_c and max(true_c) >= 2:
        out['nontrivial'].append(digest([func, A]))
    if cor != true_c:
        viol(func, 'coreness-max', cor, true_c)
    nk = n if base == 'bu' else max(2 * n - 1, 0)     # bu: k = 0..N-1; bd (in+out degree): k = 0..2N-2
    want_kn = [bin(cores[k]).count('1') for k in range(1, nk)]
    if len(kn) != nk or kn[1:] != want_kn:
        viol(func, 'core-sizes', kn, ['(k=0 not judged)'] + want_kn)
    return out


# ------------------------------------------------------------------ generators

def und_from_bits(n, code, vals=(1,)):
    A = [[0] * n for _ in range(n)]
    b = len(vals) + 1
    for i in range(n):
        for j in range(i + 1, n):
            d = code % b; code //= b
            if d:
                A[i][j] = A[j][i] = vals[d - 1]
    return A


def dir_from_bits(n, code):
    A = [[0] * n for _ in range(n)]
    for i in range(n):
        for j in range(n):
            if i != j:
                A[i][j] = code & 1; code >>= 1
    return A


def rand_und(rs, n, p, vals=(1,)):
    A = [[0] * n for _ in range(n)]
    for i in range(n):
        for j in range(i + 1, n):
            if rs.rand() < p:
                A[i][j] = A[j][i] = vals[rs.randint(len(vals))]
    return A


def rand_dir(rs, n, p):
    return [[int(i != j and rs.rand() < p) for j in range(n)] for i in range(n)]


def pick(rs, N, m):
    return range(N) if m >= N else sorted(rs.choice(N, size=m, replace=False).tolist())


def s_grid(Aq):
    """a grid of thresholds containing every strength a node can have inside a node set the peeling can reach,
    each also shifted by +-1/8, plus one value above all of them"""
    n = len(Aq)
    vals = set()
    if n <= 5:
        for S in range(1, 1 << n):
            mem = bits(S, n)
            for v in mem:
                vals.add(sum(Aq[w][v] for w in mem))
    else:
        W = Aq
        frontier = {sum(W[w][v] for w in range(n)) for v in range(n)}
        for _ in range(2):
            new = set()
            for s in frontier:
                if s > 0:
                    mem = bits(seq_peel_core(W, s), n)
                    new |= {sum(W[w][v] for w in mem) for v in mem}
                    mem = bits(seq_peel_core(W, s + Fr(1, 8)), n)
                    new |= {sum(W[w][v] for w in mem) for v in mem}
            vals |= frontier; frontier = new - vals
        vals |= frontier
    vals = {v for v in vals if v > 0}
    out = set()
    for v in vals:
        out |= {v, v + Fr(1, 8), v - Fr(1, 8)}
    out.add(max(vals or {Fr(1)}) + 1)
    return [Fr(-1, 2), Fr(0)] + sorted(x for x in out if x > 0)


def gen_jobs(rs, tier):
    th = tier == 'thorough'
    jobs = []
    # --- kcore_bu: all undirected n<=5 x all k (slice of n=5 in quick)
    for n in range(1, 6):
        N = 1 << (n * (n - 1) // 2)
        for code in pick(rs, N, N if (th or n <= 4) else 700):
            jobs.append({'kind': 'bu', 'A': und_from_bits(n, code), 'ks': list(range(0, n + 1))})
    for _ in range(1200 if th else 80):
        n = 6
        jobs.append({'kind': 'bu', 'A': rand_und(rs, n, rs.choice([.3, .5, .7, .9])), 'ks': list(range(0, n + 1))})
    for _ in range(1000 if th else 60):
        n = int(rs.randint(7, 13))
        jobs.append({'kind': 'bu', 'A': rand_und(rs, n, rs.choice([.2, .35, .5, .7])), 'ks': list(range(1, n + 1, 1 if n < 9 else 2))})
    # --- kcore_bd: all directed n<=4 x all k
    for n in range(1, 5):
        N = 1 << (n * (n - 1))
        for code in pick(rs, N, N if (th or n <= 3) else 1200):
            jobs.append({'kind': 'bd', 'A': dir_from_bits(n, code), 'ks': list(range(0, 2 * (n - 1) + 2))})
    for _ in range(1000 if th else 60):
        n = int(rs.randint(5, 7))
        jobs.append({'kind': 'bd', 'A': rand_dir(rs, n, rs.choice([.2, .4, .6, .85])), 'ks': list(range(0, 2 * n))})
    for _ in range(800 if th else 40):
        n = int(rs.randint(7, 11))
        jobs.append({'kind': 'bd', 'A': rand_dir(rs, n, rs.choice([.15, .3, .5, .7])), 'ks': list(range(1, 2 * n, 2 if n > 8 else 1))})
    # --- score_wu: dyadic weights, s on a grid containing every attained strength
    small_vals = ('1/2', '1', '3/2')
    for n in (2, 3, 4):
        N = 4 ** (n * (n - 1) // 2)
        for code in pick(rs, N, N if (th or n <= 3) else 500):
            A = und_from_bits(n, code, small_vals)
            jobs.append({'kind': 'wu', 'A': [[str(x) for x in r] for r in A], 'ks': [str(s) for s in s_grid([[Fr(x) for x in r] for r in A])]})
    wv = tuple(str(Fr(k, 4)) for k in range(1, 9))
    for _ in range(1000 if th else 60):
        n = int(rs.randint(5, 9))
        A = rand_und(rs, n, rs.choice([.3, .5, .8]), wv)
        grid = s_grid([[Fr(x) for x in r] for r in A])
        if len(grid) > 24:
            grid = grid[:2] + [grid[i] for i in sorted((2 + rs.choice(len(grid) - 2, size=22, replace=False)).tolist())]
        jobs.append({'kind': 'wu', 'A': [[str(x) for x in r] for r in A], 'ks': [str(s) for s in grid]})
    # --- n = 0 (bct returns the empty matrix / empty vectors and size 0; the model mirrors it)
    jobs += [{'kind': 'bu', 'A': [], 'ks': [0, 1, 2]}, {'kind': 'bd', 'A': [], 'ks': [0, 1, 3]}, {'kind': 'wu', 'A': [], 'ks': ['-1/2', '0', '1']},
             {'kind': 'c-bu', 'A': [], 'ks': []}, {'kind': 'c-bd', 'A': [], 'ks': []}]
    # --- score_wu, integer weights 1..3 in integer / float32 storage and other layouts (every job carries a representation)
    reps_int = ['int64', 'int32', 'uint8', 'float32', 'fortran', 'tview', 'strided']
    for q in range(600 if th else 70):
        n = int(rs.randint(3, 8))
        A = rand_und(rs, n, rs.choice([.4, .6, .9]), ('1', '2', '3') if q % 5 else ('1',))
        grid = s_grid([[Fr(x) for x in r] for r in A])
        if len(grid) > 16:
            grid = grid[:2] + [grid[i] for i in sorted((2 + rs.choice(len(grid) - 2, size=14, replace=False)).tolist())]
        rep = reps_int[q % len(reps_int)] if q % 5 else 'bool'          # 0/1 weights: also as a bool matrix
        jobs.append({'kind': 'wu', 'A': [[str(x) for x in r] for r in A], 'ks': [str(s) for s in grid], 'rep': rep})
    # --- score_wu, decimal weights k/10 (floats): Python oracle only, s on the float strengths of every node subset and their neighbours
    dec = [k / 10 for k in range(1, 10)]
    for _ in range(1500 if th else 110):
        n = int(rs.randint(4, 7))
        A = rand_und(rs, n, rs.choice([.5, .7, .9]), dec)
        jobs.append({'kind': 'wu-dec', 'A': A, 'ks': [], 'max_s': None if n <= 5 else 150})
    # --- k-coreness
    for n in range(1, 6):
        N = 1 << (n * (n - 1) // 2)
        for code in pick(rs, N, N if (th or n <= 4) else 600):
            jobs.append({'kind': 'c-bu', 'A': und_from_bits(n, code), 'ks': []})
    for _ in range(1500 if th else 60):
        n = int(rs.randint(6, 12))
        jobs.append({'kind': 'c-bu', 'A': rand_und(rs, n, rs.choice([.2, .4, .6, .9])), 'ks': []})
    for n in range(1, 5):
        N = 1 << (n * (n - 1))
        for code in pick(rs, N, N if (th or n <= 3) else 1200):
            jobs.append({'kind': 'c-bd', 'A': dir_from_bits(n, code), 'ks': []})
    for _ in range(1500 if th else 60):
        n = int(rs.randint(5, 9))
        jobs.append({'kind': 'c-bd', 'A': rand_dir(rs, n, rs.choice([.15, .3, .5])), 'ks': []})
    # --- special-value weights ("connection" = non-zero entry): +-inf, 1e-8, 1e-300, denormals, huge, negative, -0.0 (= no edge)
    SPECIAL = ['inf', '-inf', '1e-08', '9e-09', '-1e-09', '1e-300', '5e-324', '-5e-324', '1e+308', '-3.0', '2.5']
    SPECPOS = ['inf', '1e-08', '9e-09', '1e-300', '5e-324', '1e+308', '2.5', '0.1']
    def special_weights(A, pool, directed=False):
        n_ = len(A)
        B = [['0.0'] * n_ for _ in range(n_)]
        for i in range(n_):
            for j in range(n_):
                if i == j or (not directed and j < i):
                    continue
                if A[i][j]:
                    w = pool[int(rs.randint(len(pool)))] if rs.rand() < .7 else '1.0'
                elif rs.rand() < .15:
                    w = '-0.0'
                else:
                    continue
                B[i][j] = w
                if not directed:
                    B[j][i] = w
        return B
    for q in range(900 if th else 120):
        n = int(rs.randint(3, 9))
        if q % 2 == 0:
            A = rand_und(rs, n, rs.choice([.4, .6, .9]))
            jobs.append({'kind': 'bu', 'A': special_weights(A, SPECIAL), 'ks': list(range(0, n + 1)), 'encode': 'rank'})
            if q % 4 == 0:
                jobs.append({'kind': 'c-bu', 'A': special_weights(A, SPECPOS), 'ks': [], 'encode': 'binary'})
        else:
            A = rand_dir(rs, n, rs.choice([.3, .5, .8]))
            jobs.append({'kind': 'bd', 'A': special_weights(A, SPECIAL, True), 'ks': list(range(0, 2 * n)), 'encode': 'rank'})
            if q % 4 == 1:
                jobs.append({'kind': 'c-bd', 'A': special_weights(A, SPECPOS, True), 'ks': [], 'encode': 'binary'})
    for q in range(400 if th else 50):          # score_wu: non-negative special weights, float oracle (s = every attained float strength +- 1 ulp)
        n = int(rs.randint(3, 7))
        A = rand_und(rs, n, rs.choice([.5, .8]))
        jobs.append({'kind': 'wu-dec', 'A': special_weights(A, SPECPOS), 'ks': [], 'max_s': 60})
    # --- size axis (also in quick): n just above powers of two, long chains (n/2 peeling rounds), degrees >= 256
    def ring_chords(n_, c):
        A = [[0] * n_ for _ in range(n_)]
        for i in range(n_):
            for d in range(1, c + 1):
                A[i][(i + d) % n_] = A[(i + d) % n_][i] = 1
        return A
    for n in (33, 34, 40, 65, 100, 129, 257):
        A = [[int(abs(i - j) == 1) for j in range(n)] for i in range(n)]                 # chain: k=2 peels it in n/2 rounds
        jobs.append({'kind': 'bu', 'A': A, 'ks': [1, 2], 'nolean': n > 130})
        if n <= 130:
            A = rand_und(rs, n, rs.choice([.1, .3]))
            dm = max(sum(r) for r in A)
            jobs.append({'kind': 'bu', 'A': A, 'ks': sorted({1, 2, dm // 3, dm // 2, dm, dm + 1})})
            A = rand_dir(rs, n, rs.choice([.08, .25]))
            dm = max(sum(A[v]) + sum(r[v] for r in A) for v in range(n))
            jobs.append({'kind': 'bd', 'A': A, 'ks': sorted({1, 3, dm // 3, dm // 2, dm, dm + 1})})
        if n in (33, 40, 65):
            jobs.append({'kind': 'c-bu', 'A': ring_chords(n, 3), 'ks': []})
            jobs.append({'kind': 'c-bd', 'A': rand_dir(rs, n, .2), 'ks': []})
    K = [[int(i != j) for j in range(257)] for i in range(257)]                          # K257: undirected degree 256
    jobs.append({'kind': 'bu', 'A': K, 'ks': [1, 128, 255, 256, 257], 'nolean': True})
    K = [[int(i != j) for j in range(129)] for i in range(129)]                          # complete digraph on 129 nodes: in+out degree 256
    jobs.append({'kind': 'bd', 'A': K, 'ks': [1, 200, 255, 256, 257]})
    D = [[int(i != j and ((i < 140 and j < 140) or rs.rand() < .03)) for j in range(170)] for i in range(170)]   # 140-node dense core, in+out ~ 280
    jobs.append({'kind': 'bd', 'A': D, 'ks': [10, 70, 200, 270, 285], 'nolean': True})
    jobs.append({'kind': 'c-bd', 'A': [[int(i != j and ((i < 135 and j < 135) or rs.rand() < .05)) for j in range(150)] for i in range(150)], 'ks': [], 'nolean': True})
    Wd = [[('%g' % (((i * 7 + j * 3) % 4 + 1) / 4)) if i != j else '0' for j in range(300)] for i in range(300)]
    Wd = [[Wd[min(i, j)][max(i, j)] if i != j else '0' for j in range(300)] for i in range(300)]                 # dense weighted n=300, strengths > 256
    jobs.append({'kind': 'wu', 'A': Wd, 'ks': ['1', '150', '186', '187', '200', '400'], 'nolean': True})
    # --- representation axis: the same values as int64 / bool / float32 matrices, Fortran order, transposed and strided views
    reps_bin = ['int64', 'int32', 'uint8', 'bool', 'float32', 'fortran', 'tview', 'strided']
    reps_wu = ['fortran', 'tview', 'strided', 'float32']
    extra = []
    for j in jobs:
        if j.get('malformed') or j.get('rep') or j.get('encode') or len(j['A']) > 130 or j['kind'] in ('wu-dec', 'probe') or rs.rand() > (.25 if th else .12):
            continue
        if j['kind'] == 'wu':
            rep = reps_wu[rs.randint(len(reps_wu))]
        else:
            rep = reps_bin[rs.randint(len(reps_bin))]
        e = dict(j); e['rep'] = rep
        extra.append(e)
    jobs += extra
    # --- history / object-reuse probes
    jobs += gen_probes(rs, 900 if th else 150)
    # --- malformed stream (no claim; correspondence only): asymmetric / weighted / self-loops into the undirected routines
    for _ in range(60 if th else 20):
        n = int(rs.randint(2, 7))
        A = [[int(rs.randint(0, 4)) if rs.rand() < .5 else 0 for _ in range(n)] for _ in range(n)]
        jobs.append({'kind': 'bu', 'A': A, 'ks': list(range(0, n + 2)), 'malformed': True})
        jobs.append({'kind': 'bd', 'A': A, 'ks': list(range(0, n + 2)), 'malformed': True})
        jobs.append({'kind': 'c-bu', 'A': [[int(x != 0) for x in r] for r in A], 'ks': [], 'malformed': True})
    return jobs



def run_driver_par(main, lines, k=8):
    """common.run_driver on k interleaved chunks in parallel (the driver is single-threaded; large-n lines dominate)"""
    from concurrent.futures import ThreadPoolExecutor
    if len(lines) < 4 * k:
        return run_driver(main, lines)
    chunks = [lines[i::k] for i in range(k)]
    with ThreadPoolExecutor(k) as ex:
        outs = list(ex.map(lambda c: run_driver(main, c), chunks))
    res = [None] * len(lines)
    for i, o in enumerate(outs):
        res[i::k] = o
    return res


def main():
    ck = Check(PID)
    ck.cov['rule'] = ('jobs = one matrix x all its k (s): every undirected graph n<=5 x k=0..n and every directed graph n<=4 x k=0..2n-1 '
                      '(thorough; n=5 / n=4 sliced in quick), random n=6 (subset oracle) and n=7..12 (independent sequential peeling); '
                      'score_wu on every n<=4 graph with weights {1/2,1,3/2} and random n=5..8 with weights k/4, s on a grid containing every '
                      'attainable internal strength and its +-1/8 neighbours; score_wu with decimal weights k/10 (floats, n=4..6) and s = every float strength '
                      'W[ix_(S,S)].sum(0)[v] of every node subset and its two float neighbours (Python float oracle only); a fraction of all jobs again as '
                      'int64 / bool / float32 matrices, Fortran order, transposed and strided views; kcoreness on the same families; non-trivial = distinct '
                      '(routine, matrix, k) in which at least one peeling round removed a node (kcore), the s-core is a proper subset '
                      '(score), some node has coreness >= 2 (kcoreness)')
    ck.assumptions += ['k >= 1 / s > 0 for the maximality predicates; for k = 0 / s <= 0 the judged statement is: input returned unchanged, nothing peeled, kn = number of non-isolated nodes (theorems kcore_bu_zero, kcore_bd_zero, score_wu_nonpos)',
                       'undirected routines are judged on symmetric input; for the correspondence with the exact-rational Lean model the weights of score_wu are non-negative dyadic rationals (float sums exact)',
                       'decimal-weight score_wu cases are judged against the documented semantics evaluated in floats (fresh re-sum of the submatrix, C order, n <= 6) and are NOT compared with the Lean model, which cannot see one-ulp effects',
                       'kn[0] of kcoreness_centrality_* (code convention: number of non-isolated nodes) is compared with the model but not judged']
    # T-gen: re-extract the core update steps from /repo's current source (translate/cores.py); the generated
    # obligations say the extracted IR is the reference program whose interpreter is proved equal to the model
    ck.cov['cores'] = cores.generate(families=['peel'])
    for p_ in ck.cov['cores']['problems']:
        ck.corr_break('core extractor (translate/cores.py)', p_)
    ok = ck.lean_gate(['BctVerif.Props.C15'], extra_modules=['BctVerif.Model.Core'])
    ck.lean_gate([], gen_modules=['BctVerif.Gen.CoresPeel'])
    if ck.tier == 'thorough' and ok:
        ck.leanchecker(['BctVerif.Props.C15', 'BctVerif.Model.Core'])
    if ck.replay:
        c = json.load(open(ck.replay))['case']['case']
        jobs = [{'kind': c['kind'], 'A': c['A'], 'ks': c['ks'], 'malformed': c.get('malformed', False), 'rep': c.get('rep'), 'max_s': c.get('max_s'),
                 'probe': c.get('probe'), 'k': c.get('k'), 'k2': c.get('k2'), 'pseed': c.get('pseed')}]
    else:
        jobs = gen_jobs(ck.rs, ck.tier)
        # history across calls: never group by routine or size — every worker sees routines, options and sizes interleaved
        jobs = [jobs[i] for i in ck.rs.permutation(len(jobs))]
    results = pmap(run_job, jobs)
    lines, exps, funcs = [], [], []
    ntimeouts = 0
    for job, r in zip(jobs, results):
        ck.count('jobs:' + job['kind'] + (':malformed' if job.get('malformed') else ''))
        if job['kind'] == 'probe':
            ck.count('probe:%s after %s, edit=%s' % tuple(job['probe']))
        if job.get('rep'):
            ck.count('rep:' + job['rep'])
        if r.get('dec_ties'):
            ck.count('decimal_exact_ties_after_peeling', r['dec_ties'])
        if r.get('dec_ulp'):
            ck.count('decimal_cases_where_exact_and_float_semantics_differ', r['dec_ulp'])
        ck.count('n=%d' % r['n'])
        for s, c in r['status'].items():
            ck.count('status:' + s, c)
        ck.merge_counts(evaluations=r['evals'], keys=r['nontrivial'],
                        samples=[{'kind': job['kind'], 'A': job['A'], 'ks': job['ks'][:8]}] if r['nontrivial'] and r['n'] <= 12 and not job.get('encode') and job['kind'] != 'wu-dec' else [])
        for func, pred, detail, cond in r['viol']:
            ck.violation(func, pred, detail, cond)
        for t in r['timeouts']:
            ntimeouts += 1
            if ntimeouts <= 3:   # the model provably terminates (fuel n suffices), so a hang is a divergence from the model
                ck.corr_break('bct routine timed out twice (%.0f s, then %.0f s) although the Core model terminates' % (T_CALL, 10 * T_CALL), {'job': job, 'call': t})
        for ln, ex, fn in r['lines']:
            lines.append(ln); exps.append(ex); funcs.append(fn)
    if ok:
        try:
            outs = run_driver_par('Core', lines)
            nd = 0
            for ln, o, ex, fn in zip(lines, outs, exps, funcs):
                if o != ex:
                    nd += 1
                    if nd <= 5:
                        ck.corr_break('Core model vs bct.' + fn, {'line': ln, 'model': o[:400], 'impl': ex[:400]})
            ck.cov['traces_validated_against_impl'] = len(outs) - nd
            ck.count('correspondence_cases', len(outs)); ck.count('correspondence_disagreements', nd)
        except DriverError as e:
            ck.corr_break('Core driver', str(e))
    ck.finish()


if __name__ == '__main__':
    main()
