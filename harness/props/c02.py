"""C02 — community detectors return a valid partition (labels exactly 1..k) and its true modularity."""
import sys
from common import *  # noqa
import mod_common as mc

PID = 'C02'


def main():
    ck = Check(PID)
    mc.run_check(ck, mc.C02_PREDS)


if __name__ == '__main__':
    main()
