"""C14 — partition-consuming functions depend on the partition, not on the label values."""
import sys, math
from fractions import Fraction as Fr
from common import *  # noqa
sys.path.insert(0, os.path.join(VERIF, 'translate')); import cores  # noqa: E402

PID = 'C14'
TOL = 1e-12
MODEL = 'BctVerif.Model.Partition'


# ------------------------------------------------------------------ inputs

def set_partitions(n):
    """restricted growth strings (labels 0..k-1 in order of first occurrence)"""
    def rec(pre, mx):
        if len(pre) == n:
            yield tuple(pre); return
        for v in range(mx + 2):
            yield from rec(pre + [v], max(mx, v))
    if n == 0:
        return
    yield from rec([0], 0)


def relabellings(c, rs):
    """injective renamings of the restricted-growth labels c (0..k-1): name -> integer label list"""
    k = max(c) + 1
    perm = rs.permutation(k)
    sparse = rs.choice(np.arange(-60, 400), size=k, replace=False)
    if k > 1 and all(sparse[i] < sparse[i + 1] for i in range(k - 1)):
        sparse = sparse[::-1]
    big = [10 ** 12 + 7919 * int(perm[i]) for i in range(k)]
    return [('identity', [x + 1 for x in c]),
            ('reversal', [k - x for x in c]),
            ('plus100', [x + 101 for x in c]),
            ('zero-based', list(c)),
            ('sparse', [int(sparse[x]) for x in c]),
            ('large', [big[x] for x in c]),
            ('shuffled', [int(perm[x]) + 1 for x in c]),
            ('float-half', [float(perm[x]) * 1.5 - 0.25 for x in c])]


def is_int_labels(lab):
    return all(float(x) == int(x) for x in lab)


def larr(lab):
    """labels as the array handed to bct: int64, or float64 for the float-valued relabelling"""
    return np.array(lab, dtype=np.int64) if is_int_labels(lab) else np.array(lab, dtype=float)


def exc_name(msg):
    """the exception's type name (finer than common.exc_kind, which folds unknown types into 'other')"""
    return msg.split(':', 1)[0].strip()


def tally(out, bname, st):
    """per-function outcome counters: every real call ends in exactly one of ok / exc / timeout"""
    key = 'outcome:%s:%s' % (bname, 'ok' if st == 'ok' else st)
    out['dist'][key] = out['dist'].get(key, 0) + 1


def ranks(lab):
    u = sorted(set(lab))
    return [u.index(x) + 1 for x in lab]


def gen_mats(rs, n, dens=None):
    """kind -> matrix as list of lists of Fractions (empty diagonal); dens overrides the per-kind densities (sparse large cases)"""
    def und(M):
        for i in range(n):
            M[i][i] = Fr(0)
            for j in range(i):
                M[i][j] = M[j][i]
        return M
    def draw(vals, d0):
        d = d0 if dens is None else dens
        mask = rs.rand(n, n) < d
        v = rs.choice(vals, size=(n, n))
        return [[Fr(int(v[i, j])) if mask[i, j] else Fr(0) for j in range(n)] for i in range(n)]
    m = {}
    m['bu'] = und(draw([1], .6))
    m['wu'] = und(draw([1, 2, 3, 4, 5], .7))
    wd = draw([1, 2, 3, 4, 5], .6)
    for i in range(n):
        wd[i][i] = Fr(0)
    m['wd'] = wd
    m['su'] = und(draw([-4, -3, -2, -1, 1, 2, 3, 4], .75))
    sq = und(draw([-6, -5, -3, -2, -1, 1, 2, 3, 5, 7], .75))
    m['sq'] = [[x / 8 for x in r] for r in sq]
    return m


# large near-singleton partitions (>= 128 modules): data lives in a module global filled before the worker pool forks
LARGE = {}


def large_partition(rs, n, k):
    """restricted-growth labels of a random partition of n nodes into exactly k modules"""
    lab = list(range(k)) + [int(x) for x in rs.randint(0, k, size=n - k)]
    lab = [lab[i] for i in rs.permutation(n)]
    return tuple(r - 1 for r in first_occ(lab))


def large_relabellings(c, rs):
    """identity, two order-changing renamings, an order-preserving one, and a sparse non-contiguous one"""
    k = max(c) + 1
    perm = rs.permutation(k)
    sparse = rs.choice(np.arange(-5000, 50000), size=k, replace=False)
    return [('identity', [x + 1 for x in c]), ('reversal', [k - x for x in c]), ('shuffled', [int(perm[x]) + 1 for x in c]),
            ('plus100', [x + 101 for x in c]), ('sparse', [int(sparse[x]) for x in c])]


def fmat(W):
    return np.array([[float(x) for x in r] for r in W], dtype=float)


def rat_str(x):
    x = Fr(x)
    return str(x.numerator) if x.denominator == 1 else '%d/%d' % (x.numerator, x.denominator)


def rmat_str(W):
    return ','.join(rat_str(x) for r in W for x in r)


def wdet(W):
    """matrix in a violation detail: row-major rationals for small n, 'i:j:w' triples of the nonzero cells for large sparse ones"""
    n = len(W)
    if n <= 10:
        return {'W': rmat_str(W)}
    return {'W_sparse': ';'.join('%d:%d:%s' % (i, j, rat_str(W[i][j])) for i in range(n) for j in range(n) if W[i][j] != 0)}


def ints_str(v):
    return ','.join(str(int(x)) for x in v) if len(v) else '-'


# the function variants: (id, bct name, matrix kind, kwargs, lean op + extra tokens)
def variants():
    V = []
    for kind, deg in (('wu', 'undirected'), ('wd', 'in'), ('wd', 'out'), ('su', 'undirected'), ('bu', 'undirected')):
        V.append(('participation_coef/%s/%s' % (kind, deg), 'participation_coef', kind, {'degree': deg}, 'pcoef', 'deg=' + deg))
    for kind in ('su', 'sq'):
        V.append(('participation_coef_sign/' + kind, 'participation_coef_sign', kind, {}, 'pcoef_sign', ''))
    V.append(('module_degree_zscore/wu/0', 'module_degree_zscore', 'wu', {'flag': 0}, 'zscore', 'flag=0'))
    for fl in (1, 2, 3):
        V.append(('module_degree_zscore/wd/%d' % fl, 'module_degree_zscore', 'wd', {'flag': fl}, 'zscore', 'flag=%d' % fl))
    for kind in ('su', 'sq'):
        V.append(('diversity_coef_sign/' + kind, 'diversity_coef_sign', kind, {}, 'diversity', ''))
    for kind in ('su', 'wu', 'sq'):
        V.append(('gateway_coef_sign/' + kind, 'gateway_coef_sign', kind, {}, 'gateway', ''))
    V.append(('gateway_coef_sign/wu/betweenness', 'gateway_coef_sign', 'wu', {'centrality_type': 'betweenness'}, None, ''))
    for kind, g in (('wu', Fr(1)), ('bu', Fr(1, 2)), ('wu', Fr(2))):
        V.append(('modularity_und/%s/%s' % (kind, g), 'modularity_und', kind, {'gamma': g}, 'q_und', 'gamma=' + rat_str(g)))
    for g in (Fr(1), Fr(3, 4)):
        V.append(('modularity_dir/wd/%s' % g, 'modularity_dir', 'wd', {'gamma': g}, 'q_dir', 'gamma=' + rat_str(g)))
    for qt in ('sta', 'pos', 'smp', 'gja', 'neg'):
        V.append(('modularity_und_sign/su/' + qt, 'modularity_und_sign', 'su', {'qtype': qt}, 'q_sign', 'qtype=' + qt))
    V.append(('modularity_und_sign/sq/sta', 'modularity_und_sign', 'sq', {'qtype': 'sta'}, 'q_sign', 'qtype=sta'))
    return V


# ------------------------------------------------------------------ canonical values

def canon(st, out, bname):
    """real output -> ('exc', kind) | ('val', [list of float lists])"""
    if st == 'timeout':
        return ('timeout',)
    if st == 'exc':
        return ('exc', exc_name(out))
    if bname in ('participation_coef', 'module_degree_zscore'):
        return ('val', [np.asarray(out, dtype=float).ravel().tolist()])
    if bname in ('participation_coef_sign', 'diversity_coef_sign', 'gateway_coef_sign'):
        return ('val', [np.asarray(out[0], dtype=float).ravel().tolist(), np.asarray(out[1], dtype=float).ravel().tolist()])
    if bname in ('modularity_und', 'modularity_dir', 'modularity_und_sign'):
        return ('val', [[float(out[1])]])
    raise ValueError(bname)


def fclose(a, b, tol=TOL):
    if isinstance(a, float) and math.isnan(a) or isinstance(b, float) and math.isnan(b):
        return (isinstance(a, float) and math.isnan(a)) and (isinstance(b, float) and math.isnan(b))
    if math.isinf(a) or math.isinf(b):
        return a == b
    return abs(a - b) <= tol * max(1.0, abs(a), abs(b))


def same(x, y, tol=TOL):
    if x[0] != y[0]:
        return False
    if x[0] != 'val':
        return x == y
    if len(x[1]) != len(y[1]):
        return False
    return all(len(p) == len(q) and all(fclose(float(s), float(t), tol) for s, t in zip(p, q)) for p, q in zip(x[1], y[1]))


# ------------------------------------------------------------------ independent oracles (label equality only, exact Fractions)

def modules_of(lab):
    d = {}
    for v, l in enumerate(lab):
        d.setdefault(l, []).append(v)
    return list(d.values())


def o_pcoef(W, lab):
    n = len(W); mods = modules_of(lab); P = []
    for u in range(n):
        ko = sum(W[u])
        P.append(Fr(0) if ko == 0 else 1 - sum(sum(W[u][v] for v in m) ** 2 for m in mods) / ko ** 2)
    return P


def pos(W):
    return [[x if x > 0 else Fr(0) for x in r] for r in W]


def neg(W):
    return [[-x if x < 0 else Fr(0) for x in r] for r in W]


def transpose(W):
    return [list(r) for r in zip(*W)]


def o_zingr(W, lab, flag):
    n = len(W)
    if flag == 2:
        W = transpose(W)
    elif flag == 3:
        T = transpose(W); W = [[W[i][j] + T[i][j] for j in range(n)] for i in range(n)]
    dev = [Fr(0)] * n; var = [Fr(0)] * n
    for m in modules_of(lab):
        koi = {u: sum(W[u][v] for v in m) for u in m}
        mean = sum(koi.values()) / len(m)
        vr = sum((koi[u] - mean) ** 2 for u in m) / len(m)
        for u in m:
            dev[u] = koi[u] - mean; var[u] = vr
    return dev, var


def z_from(dev, var):
    return [0.0 if v == 0 else float(d) / math.sqrt(float(v)) if v < 10 ** 300 else float('nan') for d, v in zip(dev, var)]


def o_pnm(W, lab):
    """per node the list of p over the modules (module order = first occurrence; only its multiset is label-free)"""
    mods = modules_of(lab); rows = []
    for u in range(len(W)):
        s = sum(W[u])
        rows.append([Fr(0) if s == 0 else sum(W[u][v] for v in m) / s for m in mods])
    return rows


def entropy_rows(rows, k):
    out = []
    for r in rows:
        h = -math.fsum(float(p) * math.log(float(p)) for p in r if p != 0)
        lk = math.log(k)
        out.append(float('nan') if lk == 0 else h / lk)
    return out


def o_qund(A, g, lab):
    n = len(A); k = [sum(A[i][j] for i in range(n)) for j in range(n)]; m = sum(k)
    if m == 0:
        return None
    return sum((A[i][j] - g * k[i] * k[j] / m) / m for i in range(n) for j in range(n) if lab[i] == lab[j])


def o_qdir(A, g, lab):
    n = len(A); ki = [sum(A[i][j] for i in range(n)) for j in range(n)]; ko = [sum(r) for r in A]; m = sum(ki)
    if m == 0:
        return None
    b = [[A[i][j] - g * ko[i] * ki[j] / m for j in range(n)] for i in range(n)]
    return sum((b[i][j] + b[j][i]) / (2 * m) for i in range(n) for j in range(n) if lab[i] == lab[j])


def o_qsign(W, lab, qt):
    n = len(W); W0 = pos(W); W1 = neg(W)
    s0 = sum(map(sum, W0)); s1 = sum(map(sum, W1))
    k0 = [sum(r) for r in W0]; k1 = [sum(r) for r in W1]
    inv = lambda x: Fr(0) if x == 0 else 1 / x
    d0 = {'smp': inv(s0), 'gja': inv(s0 + s1), 'sta': inv(s0), 'pos': inv(s0), 'neg': Fr(0)}[qt]
    d1 = {'smp': inv(s1), 'gja': inv(s0 + s1), 'sta': inv(s0 + s1), 'pos': Fr(0), 'neg': inv(s1)}[qt]
    if s0 == 0:
        s0 = 1; d0 = Fr(0)
    if s1 == 0:
        s1 = 1; d1 = Fr(0)
    q0 = sum(W0[i][j] - k0[i] * k0[j] / s0 for i in range(n) for j in range(n) if lab[i] == lab[j])
    q1 = sum(W1[i][j] - k1[i] * k1[j] / s1 for i in range(n) for j in range(n) if lab[i] == lab[j])
    return d0 * q0 - d1 * q1


def oracle(vid, bname, W, lab, kw):
    """exact value(s) the property's definition gives, in the same shape as the model output (or None)"""
    if bname == 'participation_coef':
        return {'P': o_pcoef(transpose(W) if kw['degree'] == 'in' else W, lab)}
    if bname == 'participation_coef_sign':
        return {'Ppos': o_pcoef(pos(W), lab), 'Pneg': o_pcoef(neg(W), lab)}
    if bname == 'module_degree_zscore':
        d, v = o_zingr(W, lab, kw['flag']); return {'dev': d, 'var': v}
    if bname == 'diversity_coef_sign':
        return {'pos': [sorted(r) for r in o_pnm(pos(W), lab)], 'neg': [sorted(r) for r in o_pnm(neg(W), lab)]}
    if bname == 'modularity_und':
        return {'q': o_qund(W, kw['gamma'], lab)}
    if bname == 'modularity_dir':
        return {'q': o_qdir(W, kw['gamma'], lab)}
    if bname == 'modularity_und_sign':
        return {'q': o_qsign(W, lab, kw['qtype'])}
    return None


def oracle_floats(bname, o, k):
    """oracle -> the float shape of canon()"""
    if bname == 'participation_coef':
        return ('val', [[float(x) for x in o['P']]])
    if bname == 'participation_coef_sign':
        return ('val', [[float(x) for x in o['Ppos']], [float(x) for x in o['Pneg']]])
    if bname == 'module_degree_zscore':
        return ('val', [z_from(o['dev'], o['var'])])
    if bname == 'diversity_coef_sign':
        return ('val', [entropy_rows(o['pos'], k), entropy_rows(o['neg'], k)])
    q = o['q']
    return ('val', [[float('nan') if q is None else float(q)]])


# ------------------------------------------------------------------ model output decoding

def pr(s):
    return [] if s in ('-', '') else [Fr(t) for t in s.split(',')]


def model_value(bname, line, n):
    """model result line -> (float shape like canon(), exact dict comparable with oracle())"""
    d = kv(line)
    if 'error' in d:
        return ('exc', d['error']), None
    if bname == 'participation_coef':
        P = pr(d['P']); return ('val', [[float(x) for x in P]]), {'P': P}
    if bname == 'participation_coef_sign':
        a, b = pr(d['Ppos']), pr(d['Pneg']); return ('val', [[float(x) for x in a], [float(x) for x in b]]), {'Ppos': a, 'Pneg': b}
    if bname == 'module_degree_zscore':
        dv, vr = pr(d['dev']), pr(d['var']); return ('val', [z_from(dv, vr)]), {'dev': dv, 'var': vr}
    if bname == 'diversity_coef_sign':
        k = int(d['k']); a, b = pr(d['pos']), pr(d['neg'])
        ra = [a[u * k:(u + 1) * k] for u in range(n)]; rb = [b[u * k:(u + 1) * k] for u in range(n)]
        return ('val', [entropy_rows(ra, k), entropy_rows(rb, k)]), {'pos': [sorted(r) for r in ra], 'neg': [sorted(r) for r in rb]}
    if bname == 'gateway_coef_sign':
        a, b = pr(d['Gpos']), pr(d['Gneg']); return ('val', [[float(x) for x in a], [float(x) for x in b]]), None
    q = d['q']
    return ('val', [[float('nan') if q == 'nan' else float(Fr(q))]]), {'q': None if q == 'nan' else Fr(q)}


# ------------------------------------------------------------------ as-coded model of gateway_coef_sign (scopes known finding D16)

def gateway_ascoded(W, lab, ctype, bct):
    """What centrality.py's gateway_coef_sign computes *as it is written* (Python port of gcoef in Model/Partition.lean: `kj[i] /= 2`
    with the module number used as member index, `cent[neighbs]` indexed by positions inside the module).  W: Fractions, any
    orderable labels.  -> canon()-shaped value.  D16 is accepted as a *known* finding only where bct agrees with this function;
    any other deviation of gateway_coef_sign is a new violation."""
    n = len(W)
    u = sorted(set(lab)); ci = [u.index(x) for x in lab]; k = len(u)
    mem = [[v for v in range(n) if ci[v] == i] for i in range(k)]

    def gcoef(Wp):
        s = [sum(r) for r in Wp]
        ks = [[0] * k for _ in range(n)]
        for x in range(n):
            for v in range(n):
                if Wp[x][v] != 0:
                    ks[x][ci[v]] += Wp[x][v]
        if ctype == 'degree':
            cent = s
        else:
            A = np.array([[float(x) for x in r] for r in Wp])
            cent = [float(x) for x in bct.betweenness_wei(bct.invert(A))]
        maxc = 0
        for i in range(k):
            cen = sum(cent[v] for v in mem[i])
            if cen > maxc:
                maxc = cen
        for i in range(k):
            if 1 < len(mem[i]) <= i:
                raise IndexError('as-coded: kj[i] with i >= module size')
        kjs = [0] * n
        for i in range(k):
            if len(mem[i]) > 1:
                tot = sum(sum(ks[x]) for x in mem[i])
                for t, x in enumerate(mem[i]):
                    kjs[x] = tot / 2 if t == i else tot
        out = []
        for x in range(n):
            if s[x] == 0 or maxc == 0:
                out.append(0.0); continue
            acc = 0
            for j in range(k):
                if ks[x][j] == 0:
                    continue
                cs = sum(cent[t] for t, y in enumerate(mem[j]) if Wp[y][x] > 0)
                ksm = 0 if kjs[x] == 0 else ks[x][j] / kjs[x]
                acc += ks[x][j] ** 2 / s[x] ** 2 * (1 - ksm * cs / maxc) ** 2
            out.append(float(1 - acc))
        return out
    W0 = [[Fr(0) if i == j else W[i][j] for j in range(n)] for i in range(n)]
    try:
        return ('val', [gcoef(pos(W0)), gcoef(neg(W0))])
    except IndexError:
        return ('exc', 'IndexError')


# ------------------------------------------------------------------ workers

def run_consumers(case):
    """case: n, rgs, mats{kind: W}, relabs[(name, labels)], model(bool). Evaluates every variant under every relabelling."""
    bct = import_bct()
    if 'large' in case:                      # large case: matrices / labels are in the forked global, the item names one variant
        case = dict(LARGE[case['large']], only=case['only'], model=False, model_lines=case.get('model_lines'))
    n, c = case['n'], case['rgs']
    k = max(c) + 1
    T = 5 if n <= 10 else 30
    out = {'viol': [], 'lean': [], 'evals': 0, 'keys': [], 'dist': {}, 'sample': None}
    ident_rank = ranks(case['relabs'][0][1])
    for vid, bname, kind, kw, op, extra in variants():
        if case.get('only') is not None and vid != case['only']:
            continue
        W = case['mats'][kind]; A = fmat(W)
        if n > 10:
            out['dist']['large_case_calls:' + bname] = out['dist'].get('large_case_calls:' + bname, 0) + len(case['relabs'])
        f = getattr(bct, bname)
        pykw = {a: (float(b) if isinstance(b, Fr) else b) for a, b in kw.items()}
        res = {}
        for name, lab in case['relabs']:
            A0 = A.copy(); la = larr(lab); la0 = la.copy()
            if bname in ('modularity_und', 'modularity_dir'):
                st, o = call(f, A, pykw['gamma'], la, t=T, retry=10)
            elif bname == 'modularity_und_sign':
                st, o = call(f, A, la, pykw['qtype'], t=T, retry=10)
            else:
                st, o = call(f, A, la, t=T, retry=10, **pykw)
            res[name] = canon(st, o, bname)
            out['evals'] += 1
            tally(out, bname, st)
            out['dist']['call:' + bname] = out['dist'].get('call:' + bname, 0) + 1
            if not np.array_equal(la, la0):
                out['viol'].append((bname, 'labels-modified', dict(wdet(W), n=n, labels=lab, variant=vid), {}))
            if (case['model'] or (case.get('model_lines') and name == case['model_lines'])) and op is not None and is_int_labels(lab):
                out['lean'].append(('%s n=%d W=%s c=%s %s' % (op, n, rmat_str(W), ints_str(lab), extra), bname, vid, name, lab, res[name], kind))
        base = res['identity']; gw_cache = {}
        if base[0] == 'timeout':
            out['dist']['timeouts'] = out['dist'].get('timeouts', 0) + 1
            continue
        # predicate 1: the result does not depend on the labels
        for name, lab in case['relabs'][1:]:
            if res[name][0] == 'timeout':
                out['dist']['timeouts_relabelled'] = out['dist'].get('timeouts_relabelled', 0) + 1
                continue
            if not same(base, res[name]):
                mono = ranks(lab) == ident_rank
                extra_cond = {}
                if bname == 'gateway_coef_sign':
                    ct = kw.get('centrality_type', 'degree')
                    if 'base_agrees' not in gw_cache:
                        gw_cache['base_agrees'] = same(gateway_ascoded(W, case['relabs'][0][1], ct, bct), base, 1e-9)
                    extra_cond = {'ascoded_model_agrees': gw_cache['base_agrees'] and same(gateway_ascoded(W, lab, ct, bct), res[name], 1e-9)}
                out['viol'].append((bname, 'label-invariance',
                                    dict(wdet(W), **{'n': n, 'kind': kind, 'variant': vid, 'kwargs': {a: str(b) for a, b in kw.items()},
                                     'labels': case['relabs'][0][1], 'relabelled': lab, 'relabelling': name,
                                     'result': base, 'result_relabelled': res[name]}),
                                    dict({'order_preserving': mono, 'multi_node_module': len(set(c)) < n}, **extra_cond)))
        # predicate 2: the result equals the definition evaluated with label *equality* only
        o = oracle(vid, bname, W, case['relabs'][0][1], kw)
        if o is not None and base[0] == 'val':
            if not same(base, oracle_floats(bname, o, k), 1e-9):
                out['viol'].append((bname, 'definition', {'n': n, **wdet(W), 'variant': vid, 'kind': kind, 'labels': case['relabs'][0][1],
                                                          'result': base, 'expected': oracle_floats(bname, o, k)}, {}))
        elif base[0] == 'exc':
            # a consumer raising on a valid partition is a violation by itself; for gateway_coef_sign the IndexError path of D16 is
            # a *known* one only where the as-coded model raises on the same input
            cnd = {'exception': base[1]}
            if bname == 'gateway_coef_sign':
                cnd['ascoded_model_agrees'] = same(gateway_ascoded(W, case['relabs'][0][1], kw.get('centrality_type', 'degree'), bct), base, 1e-9)
            out['viol'].append((bname, 'raises', {'n': n, **wdet(W), 'variant': vid, 'kind': kind, 'labels': case['relabs'][0][1], 'exception': base[1]}, cnd))
        nontriv = k >= 2 and base[0] == 'val' and any(x != 0 and not math.isnan(x) for p in base[1] for x in p)
        if nontriv:
            out['keys'].append(digest([vid, wdet(W), c]))
            if out['sample'] is None and n <= 10:
                out['sample'] = {'function': vid, 'n': n, 'W': rmat_str(W), 'partition': list(c), 'relabellings': [r[0] for r in case['relabs']],
                                 'result': base[1]}
    return out


def hist_entropy(cnts, n):
    return -math.fsum((x / n) * math.log(x / n) for x in cnts)


def pd_from_counts(nx, ny, nxy, n):
    """VIn, MIn from the table counts exactly as partition_distance computes them (guards n > 1 and Hx + Hy > 0)"""
    Hx, Hy, Hxy = hist_entropy(nx, n), hist_entropy(ny, n), hist_entropy(nxy, n)
    vin = (2 * Hxy - Hx - Hy) / math.log(n) if n > 1 else 0.0
    mn = 2 * (Hx + Hy - Hxy) / (Hx + Hy) if Hx + Hy > 0 else 1.0
    return vin, mn


def LOGS(n):
    """the doubles log 1 .. log n as exact rationals: the `L` at which the driver evaluates the model's `pdWith`"""
    return ','.join(rat_str(Fr(math.log(k))) for k in range(1, n + 1))


def counts(lx, ly):
    from collections import Counter
    return sorted(Counter(lx).values()), sorted(Counter(ly).values()), sorted(Counter(zip(lx, ly)).values())


def run_pd(case):
    """case: n, x (rgs), y (rgs), rx, ry (relabellings), model"""
    bct = import_bct()
    n, x, y = case['n'], case['x'], case['y']
    out = {'viol': [], 'lean': [], 'evals': 0, 'keys': [], 'dist': {}, 'sample': None}
    eq = x == y
    single = max(x) == 0 and max(y) == 0
    cond = {'single_module_both': single}
    lx, ly = case['rx'][0][1], case['ry'][0][1]

    def pd(a, b):
        st, o = call(bct.partition_distance, larr(a), larr(b), t=5, retry=10)
        out['evals'] += 1
        tally(out, 'partition_distance', st)
        if st == 'ok':
            return ('val', [[float(o[0]), float(o[1])]])
        return ('exc', exc_name(o)) if st == 'exc' else ('timeout',)
    base = pd(lx, ly)
    det = {'n': n, 'cx': lx, 'cy': ly, 'result': base}
    if base[0] == 'timeout':
        return out
    if base[0] == 'exc':
        out['viol'].append(('partition_distance', 'raises', det, cond)); return out
    vin, mn = base[1][0]
    sw = pd(ly, lx)
    if not same(base, sw):
        out['viol'].append(('partition_distance', 'symmetric', dict(det, swapped=sw), cond))
    R = len(case['rx'])
    for i in range(1, R):
        (na, a), (nb, b) = case['rx'][i], case['ry'][(i * 3 + 1) % R]
        r = pd(a, b)
        if r[0] == 'timeout':
            out['dist']['timeouts_relabelled'] = out['dist'].get('timeouts_relabelled', 0) + 1
            continue
        if not same(base, r):
            out['viol'].append(('partition_distance', 'label-invariance', dict(det, cx_relabelled=a, cy_relabelled=b, result_relabelled=r), cond))
        if case['model'] and is_int_labels(a) and is_int_labels(b):
            out['lean'].append(('pdist n=%d cx=%s cy=%s logs=%s' % (n, ints_str(a), ints_str(b), LOGS(n)), 'partition_distance', 'pdist', na + '/' + nb, (a, b), r, None))
    if case['model']:
        out['lean'].append(('pdist n=%d cx=%s cy=%s logs=%s' % (n, ints_str(lx), ints_str(ly), LOGS(n)), 'partition_distance', 'pdist', 'identity', (lx, ly), base, None))
    zero_one = (not math.isnan(vin)) and abs(vin) <= 1e-12 and (not math.isnan(mn)) and abs(mn - 1) <= 1e-12
    if eq != zero_one:
        out['viol'].append(('partition_distance', 'zero-iff-equal', dict(det, same_partition=eq), cond))
    if not (vin >= -1e-12 and vin <= 1 + 1e-12):
        out['viol'].append(('partition_distance', 'vin-range', det, cond))
    ex = pd_from_counts(*counts(lx, ly), n)
    if not same(base, ('val', [list(ex)])):
        out['viol'].append(('partition_distance', 'definition', dict(det, expected=ex), cond))
    if not eq and not single:
        out['keys'].append(digest(['pd', x, y]))
        out['sample'] = {'function': 'partition_distance', 'cx': lx, 'cy': ly, 'result': base[1]}
    return out


def blocks_set(ls):
    return sorted(sorted(int(v) for v in b) for b in ls)


def run_lists(case):
    """ci2ls / ls2ci: case n, rgs, relabs, perm seeds"""
    bct = import_bct()
    n, c = case['n'], case['rgs']
    out = {'viol': [], 'lean': [], 'evals': 0, 'keys': [], 'dist': {}, 'sample': None}
    truth = blocks_set(modules_of(c))
    for name, lab in case['relabs']:
        st, ls = call(bct.ci2ls, larr(lab), t=5, retry=10); out['evals'] += 1; tally(out, 'ci2ls', st)
        det = {'n': n, 'labels': lab, 'relabelling': name}
        if st != 'ok':
            out['viol'].append(('ci2ls', 'raises', dict(det, exception=str(ls)), {})); continue
        lsl = [[int(v) for v in b] for b in ls]
        if blocks_set(lsl) != truth:
            out['viol'].append(('ci2ls', 'blocks-are-the-modules', dict(det, ls=lsl), {}))
        exp_order = [sorted(b) for b in sorted(modules_of(lab), key=lambda b: lab[b[0]])]
        if is_int_labels(lab):
            if n <= 10:   # large cases are not sent to the interpreted Lean driver
                out['lean'].append(('ci2ls n=%d c=%s' % (n, ints_str(lab)), 'ci2ls', 'ci2ls', name, lab, ('val', lsl), exp_order))
        for z in (False, True):
            st2, ci = call(bct.ls2ci, lsl, z, t=5, retry=10); out['evals'] += 1; tally(out, 'ls2ci', st2)
            if st2 != 'ok':
                out['viol'].append(('ls2ci', 'raises', dict(det, ls=lsl, exception=str(ci)), {})); continue
            ci = [int(v) for v in ci]
            if modules_of(ci) != modules_of(lab) or len(ci) != n:
                out['viol'].append(('ls2ci', 'inverse-of-ci2ls', dict(det, ls=lsl, ci=ci, zeroindexed=z), {}))
            if ci != [r - (1 if z else 0) for r in ranks(lab)]:
                out['viol'].append(('ls2ci', 'contiguous-labels', dict(det, ls=lsl, ci=ci, zeroindexed=z), {}))
    # ls -> ci -> ls for blocks listed in arbitrary order with arbitrary member order
    rs = np.random.RandomState(case['seed'])
    for _ in range(2):
        bl = [list(b) for b in modules_of(c)]
        rs.shuffle(bl)
        bl = [[int(v) for v in rs.permutation(b)] for b in bl]
        for z in (False, True):
            st, ci = call(bct.ls2ci, bl, z, t=5, retry=10); out['evals'] += 1; tally(out, 'ls2ci', st)
            if st != 'ok':
                out['viol'].append(('ls2ci', 'raises', {'ls': bl, 'exception': str(ci)}, {})); continue
            ci = [int(v) for v in ci]
            if n <= 10:   # large cases are not sent to the interpreted Lean driver
                out['lean'].append(('ls2ci n=%d ls=%s z=%d' % (n, '|'.join(ints_str(b) for b in bl), 0 if z else 1), 'ls2ci', 'ls2ci', 'blocks', bl, ('val', ci), None))
            st, ls2 = call(bct.ci2ls, np.array(ci), t=5, retry=10); out['evals'] += 1; tally(out, 'ci2ls', st)
            if st != 'ok' or [[int(v) for v in b] for b in ls2] != [sorted(b) for b in bl]:
                out['viol'].append(('ci2ls', 'inverse-of-ls2ci', {'ls': bl, 'ci': ci, 'back': str(ls2)}, {}))
    if max(c) > 0:
        out['keys'].append(digest(['ls', c]))
    return out


def o_agreement(cols, n):
    return [[0 if i == j else sum(1 for col in cols if col[i] == col[j]) for j in range(n)] for i in range(n)]


def run_agreement(case):
    bct = import_bct()
    n = case['n']
    out = {'viol': [], 'lean': [], 'evals': 0, 'keys': [], 'dist': {}, 'sample': None}
    exp = o_agreement(case['cols'], n)
    res = {}
    for name, cols in (('identity', case['cols']), ('relabelled', case['cols2'])):
        ci = np.array(cols, dtype=np.int64).T
        st, D = call(bct.agreement, ci, t=5, retry=10); out['evals'] += 1; tally(out, 'agreement', st)
        det = {'n': n, 'ci_columns': cols}
        if st == 'exc' and NUMPY2_DUMMYVAR in D:
            # the unrepaired dummyvar (`np.sum(<generator>)`, TypeError under NumPy 2): the clause is unobservable.  Only this exact
            # message is tolerated; any other exception of agreement is a violation.
            out['dist']['agreement_unobservable_numpy2_dummyvar'] = out['dist'].get('agreement_unobservable_numpy2_dummyvar', 0) + 1
            res[name] = None
        elif st == 'exc':
            out['viol'].append(('agreement', 'raises', dict(det, exception=D), {'exception': exc_name(D)}))
            res[name] = None
        elif st == 'ok':
            res[name] = np.asarray(D).astype(float).tolist()
            if res[name] != [[float(v) for v in r] for r in exp]:
                out['viol'].append(('agreement', 'definition', dict(det, result=res[name], expected=exp), {}))
            out['dist']['agreement_judged'] = out['dist'].get('agreement_judged', 0) + 1
            # the buffered path (more partitions than `buffsz`) must give the same counts
            for bs in (1, 2):
                stb, Db = call(bct.agreement, ci, bs, t=5, retry=10); out['evals'] += 1; tally(out, 'agreement', stb)
                if stb == 'exc' or (stb == 'ok' and np.asarray(Db).astype(float).tolist() != res[name]):
                    out['viol'].append(('agreement', 'buffered-equals-unbuffered', dict(det, buffsz=bs, outcome=str(Db)[:300]), {'buffsz': bs}))
        if n <= 10:
            out['lean'].append(('agreement n=%d cs=%s' % (n, ';'.join(ints_str(c) for c in cols)), 'agreement', 'agreement', name, cols,
                                ('val', res.get(name)), exp))
    # agreement_weighted(ci [partitions x nodes], wts): D = sum_p wts[p]/sum(wts) * [same module]; diagonal not cleared
    wts = [Fr(1 + (3 * q) % 5) for q in range(len(case['cols']))]; tot = sum(wts)
    expw = [[sum(w / tot for col, w in zip(case['cols'], wts) if col[i] == col[j]) for j in range(n)] for i in range(n)]
    resw = {}
    for name, cols in (('identity', case['cols']), ('relabelled', case['cols2'])):
        st, D = call(bct.agreement_weighted, np.array(cols, dtype=np.int64), np.array([float(w) for w in wts]), t=5, retry=10)
        out['evals'] += 1; tally(out, 'agreement_weighted', st)
        if st == 'exc' and NUMPY2_DUMMYVAR in D:
            out['dist']['agreement_unobservable_numpy2_dummyvar'] = out['dist'].get('agreement_unobservable_numpy2_dummyvar', 0) + 1
        elif st == 'exc':
            out['viol'].append(('agreement_weighted', 'raises', {'n': n, 'ci_rows': cols, 'wts': [str(w) for w in wts], 'exception': D}, {'exception': exc_name(D)}))
        elif st == 'ok':
            resw[name] = np.asarray(D, dtype=float)
            if not np.allclose(resw[name], np.array([[float(x) for x in r] for r in expw]), rtol=0, atol=1e-12):
                # as written, `dummyvar(ci[i, :].reshape(1, n))` reads one partition of n nodes as n partitions of one node, so every
                # entry is n * sum(w)/sum(w) = n: the finding is accepted only for exactly that constant matrix
                const_n = bool(resw[name].shape == (n, n) and np.allclose(resw[name], float(n), rtol=0, atol=1e-9))
                out['viol'].append(('agreement_weighted', 'definition', {'n': n, 'ci_rows': cols, 'wts': [str(w) for w in wts], 'result': resw[name].tolist(),
                                                                         'expected': [[float(x) for x in r] for r in expw]}, {'result_is_constant_n': const_n}))
        if n <= 10:
            out['lean'].append(('agreement_w n=%d cs=%s wts=%s' % (n, ';'.join(ints_str(c) for c in cols), ','.join(rat_str(w) for w in wts)),
                                'agreement_weighted', 'agreement_w', name, cols, ('val', None), expw))
    if len(resw) == 2 and not np.allclose(resw['identity'], resw['relabelled'], rtol=0, atol=1e-12):
        out['viol'].append(('agreement_weighted', 'label-invariance', {'n': n, 'ci_rows': case['cols'], 'relabelled': case['cols2']}, {}))
    if res.get('identity') is not None and res.get('relabelled') is not None and res['identity'] != res['relabelled']:
        out['viol'].append(('agreement', 'label-invariance', {'n': n, 'ci_columns': case['cols'], 'relabelled': case['cols2']}, {}))
    out['keys'].append(digest(['agr', case['cols']]))
    return out


# ------------------------------------------------------------------ object reuse / call history (round 3)

def reuse_targets(bct):
    """name -> (matrix kind or None, fn(A, ci) on the shared argument objects).  Results are reduced to the label-free part."""
    T = {}
    for deg, kind in (('undirected', 'wu'), ('in', 'wd'), ('out', 'wd')):
        T['participation_coef/' + deg] = (kind, lambda A, ci, d=deg: bct.participation_coef(A, ci, d))
    T['participation_coef_sign'] = ('su', lambda A, ci: bct.participation_coef_sign(A, ci))
    for fl in (0, 1, 2, 3):
        T['module_degree_zscore/%d' % fl] = ('wd' if fl else 'wu', lambda A, ci, f=fl: bct.module_degree_zscore(A, ci, f))
    T['diversity_coef_sign'] = ('su', lambda A, ci: bct.diversity_coef_sign(A, ci))
    T['gateway_coef_sign'] = ('su', lambda A, ci: bct.gateway_coef_sign(A, ci))
    T['modularity_und'] = ('wu', lambda A, ci: bct.modularity_und(A, 1, ci)[1])
    T['modularity_dir'] = ('wd', lambda A, ci: bct.modularity_dir(A, 1, ci)[1])
    for qt in ('sta', 'gja'):
        T['modularity_und_sign/' + qt] = ('su', lambda A, ci, q=qt: bct.modularity_und_sign(A, ci, q)[1])
    T['ci2ls'] = (None, lambda A, ci: bct.ci2ls(ci))
    T['ls2ci(ci2ls)'] = (None, lambda A, ci: bct.ls2ci(bct.ci2ls(ci)))
    # pairs of routines sharing the argument objects: g runs between / before f on the same arrays
    T['partition_distance(ci, ci2) after ci2ls(ci)'] = (None, None)          # handled below (two label vectors)
    T['partition_distance'] = (None, None)
    T['partition_distance(ci2, ci) after partition_distance(ci, ci2)'] = (None, None)
    T['participation_coef after module_degree_zscore'] = ('wu', lambda A, ci: (bct.module_degree_zscore(A, ci), bct.participation_coef(A, ci))[1])
    T['modularity_und_sign after participation_coef_sign'] = ('su', lambda A, ci: (bct.participation_coef_sign(A, ci), bct.modularity_und_sign(A, ci)[1])[1])
    return T


def run_reuse(case):
    """case: n, mats, labels (list), labels2, target, mutation, seed.  common.reuse_probe: call, mutate the SAME objects in place,
    call again, compare with the call on fresh copies.  Mutations: move one node to another module, swap two labels, edit W."""
    bct = import_bct()
    rs = np.random.RandomState(case['seed'])
    n = case['n']; name = case['target']; mut = case['mutation']
    out = {'viol': [], 'lean': [], 'evals': 0, 'keys': [], 'dist': {}, 'sample': None}
    T = reuse_targets(bct)
    kind, fn = T[name]
    lab = np.array(case['labels'], dtype=np.int64); lab2 = np.array(case['labels2'], dtype=np.int64)
    A = fmat(case['mats'][kind]) if kind else np.zeros((n, n))
    und = kind in ('wu', 'su', 'bu')

    def mutate_labels(v):
        vals = sorted(set(v.tolist()))
        if mut == 'move-node' or mut == 'edit-W':      # label-only targets: 'edit-W' degenerates to moving a node
            i = int(rs.randint(n)); others = [x for x in vals if x != v[i]] or [max(vals) + 1]
            v[i] = others[int(rs.randint(len(others)))]
        elif mut == 'swap-labels' and len(vals) >= 2:
            a, b = (int(x) for x in rs.choice(vals, 2, replace=False))
            ia, ib = v == a, v == b
            v[ia] = b; v[ib] = a
            j = int(rs.randint(n)); v[j] = a            # and one node changes module, so that the partition itself changes too
        elif mut == 'make-equal':
            v[:] = lab2

    def mutate(args):
        if mut == 'edit-W' and kind:
            i, j = (int(x) for x in rs.choice(n, 2, replace=False)) if n >= 2 else (0, 0)
            w = float(rs.randint(1, 6)) * (-1.0 if kind == 'su' and rs.rand() < .5 else 1.0)
            args[0][i, j] = w
            if und:
                args[0][j, i] = w
        else:
            mutate_labels(args[-2] if name.startswith('partition_distance') else args[-1])
    if name.startswith('partition_distance'):
        f = ((lambda cx, cy: (bct.ci2ls(cx), bct.partition_distance(cx, cy))[1]) if 'after ci2ls' in name else
             (lambda cx, cy: (bct.partition_distance(cx, cy), bct.partition_distance(cy, cx))[1]) if 'after partition' in name else
             (lambda cx, cy: bct.partition_distance(cx, cy)))
        args = [lab, lab2]
    else:
        f = fn; args = [A, lab]
    before = [a.copy() for a in args]
    d = reuse_probe(f, args, mutate, t=5)
    out['evals'] += 3
    out['dist']['reuse_probe:' + name.split('/')[0].split(' ')[0]] = 1
    if d is not None:
        out['viol'].append((name.split('/')[0].split('(')[0].split(' ')[0], 'result-depends-on-history',
                            {'n': n, 'target': name, 'mutation': mut, 'first_call_args': [b.tolist() for b in before],
                             'second_call_args': [a.tolist() for a in args], 'probe': d}, {'mutation': mut}))
    if any(not np.array_equal(a, b) for a, b in zip(args, before)):
        out['keys'].append(digest(['reuse', name, mut, case['labels'], case['seed']]))
    return out


def run_sequence(case):
    """f, then other routines / other options on the SAME array objects (equal n), then f again: the two results of f must be
    identical and the shared arguments untouched (state carried between calls: caches keyed by size, warn-once flags, templates)."""
    bct = import_bct()
    n = case['n']
    out = {'viol': [], 'lean': [], 'evals': 0, 'keys': [], 'dist': {}, 'sample': None}
    T = {k: v for k, v in reuse_targets(bct).items() if v[1] is not None}
    rs = np.random.RandomState(case['seed'])
    names = sorted(T)
    lab = np.array(case['labels'], dtype=np.int64); lab2 = np.array(case['labels2'], dtype=np.int64)
    mats = {k: fmat(W) for k, W in case['mats'].items()}
    order = [names[i] for i in rs.permutation(len(names))][:6]
    first = order[0]
    def run(nm, ci):
        kind, fn = T[nm]
        return call(fn, mats[kind] if kind else np.zeros((n, n)), ci, t=5, retry=10)
    snap = {k: v.copy() for k, v in mats.items()}
    r1 = run(first, lab); p1 = call(bct.partition_distance, lab, lab2, t=5, retry=10)
    for nm in order[1:]:
        run(nm, lab2 if rs.rand() < .5 else lab); out['evals'] += 1
    r2 = run(first, lab); p2 = call(bct.partition_distance, lab, lab2, t=5, retry=10)
    out['evals'] += 4
    out['dist']['sequence_cases'] = 1
    for (a, b, who) in ((r1, r2, first), (p1, p2, 'partition_distance')):
        if 'timeout' in (a[0], b[0]):
            continue
        if a[0] != b[0] or (a[0] == 'ok' and not same_result(a[1], b[1], 0.0)):
            out['viol'].append((who.split('/')[0].split('(')[0].split(' ')[0], 'result-depends-on-history',
                                {'n': n, 'sequence': order + [first], 'labels': case['labels'], 'labels2': case['labels2'],
                                 'first': str(a[1])[:300], 'again': str(b[1])[:300]}, {'mutation': 'sequence'}))
    if any(not np.array_equal(mats[k], snap[k]) for k in mats) or lab.tolist() != case['labels']:
        out['viol'].append((first.split('/')[0], 'labels-modified', {'n': n, 'sequence': order}, {}))
    out['keys'].append(digest(['seq', order, case['labels']]))
    return out


# ------------------------------------------------------------------ representation axis for the participation coefficients (audit 3)

PDTYPES = ('bool', 'uint8', 'int32', 'int64', 'float32', 'float64-F', 'int64-big')


def run_dtype(case):
    """case: n, W (integer-valued Fractions, signed), labels, seed.  participation_coef / participation_coef_sign on the same VALUES stored
    as bool / uint8 / int32 / int64 / float32 / Fortran-ordered float64 / int64 with weights ~4e9, judged by the exact definition
    P_i = 1 - sum_m (k_im / k_i)^2 on the stored values, and a column-vector `ci` (the docstring's "Nx1") as an unjudged probe."""
    bct = import_bct()
    n = case['n']; lab = case['labels']; la = np.array(lab, dtype=np.int64)
    out = {'viol': [], 'lean': [], 'evals': 0, 'keys': [], 'dist': {}, 'sample': None}
    Wi = [[int(x) for x in r] for r in case['W']]
    for dt in PDTYPES:
        if dt == 'bool':
            V = [[1 if x else 0 for x in r] for r in Wi]; A = np.array(V, dtype=bool)
        elif dt == 'uint8':
            V = [[abs(x) for x in r] for r in Wi]; A = np.array(V, dtype=np.uint8)
        elif dt == 'int64-big':
            V = [[x * 1000000000 for x in r] for r in Wi]; A = np.array(V, dtype=np.int64)
        elif dt == 'float64-F':
            V = Wi; A = np.asfortranarray(np.array(V, dtype=float))
        else:
            V = Wi; A = np.array(V, dtype=dt)
        F = [[Fr(x) for x in r] for r in V]
        # does an int64 square of a module strength overflow?  (that is the mechanism of the recorded defect)
        def overflows(M):
            return any(sum(M[u][v] for v in range(n) if lab[v] == l) ** 2 >= 2 ** 63 or sum(M[u]) ** 2 >= 2 ** 63 for u in range(n) for l in set(lab))
        for fname, f, ex in (('participation_coef', lambda: bct.participation_coef(A, la), lambda: [o_pcoef(F, lab)]),
                             ('participation_coef_sign', lambda: bct.participation_coef_sign(A, la), lambda: [o_pcoef(pos(F), lab), o_pcoef(neg(F), lab)])):
            A0 = A.copy()
            st, o = call(f, t=5, retry=10); out['evals'] += 1; tally(out, fname, st)
            out['dist']['dtype_axis:' + dt] = out['dist'].get('dtype_axis:' + dt, 0) + 1
            got = canon(st, o, fname)
            want = ('val', [[float(x) for x in p] for p in ex()])
            det = {'n': n, 'W_values': [[int(x) for x in r] for r in V], 'dtype': dt, 'labels': lab, 'result': got, 'expected': want}
            ovf = dt.startswith('int64') and (overflows(pos(F)) or overflows(neg(F)) or overflows(F))
            cond = {'dtype': dt, 'square_overflows_int64': ovf}
            if got[0] == 'timeout':
                continue
            if not np.array_equal(A, A0):
                out['viol'].append((fname, 'input-modified', det, cond))
            if got[0] == 'exc':
                out['viol'].append((fname, 'raises', det, dict(cond, exception=got[1])))
            elif not same(got, want, 1e-9):
                out['viol'].append((fname, 'definition', det, cond))
            else:
                out['keys'].append(digest(['dtype', fname, dt, case['W'], lab]))
    # column-vector labels: NumPy >= 2 gives return_inverse the input's shape, so every consumer but partition_distance raises
    # loudly (ValueError / IndexError / TypeError) on an (N,1) `ci`; counted, not judged (documented in notes/C14.md)
    st, o = call(bct.participation_coef_sign, fmat([[Fr(x) for x in r] for r in Wi]), la.reshape(-1, 1), t=5, retry=10)
    out['dist']['column_vector_labels:' + ('ok' if st == 'ok' else exc_name(o) if st == 'exc' else st)] = 1
    return out


# ------------------------------------------------------------------ main

def compare_model(ck, items, outs):
    """items: (line, bname, vid, relabel name, labels, python canon value, aux) ; outs: model result lines"""
    nd = 0; nv = 0
    for it, o in zip(items, outs):
        line, bname, vid, name, lab, pyv, aux = it
        bad = None
        try:
            if bname == 'partition_distance':
                d = kv(o); n = len(lab[0])
                nx, ny, nxy = ([int(t) for t in d[key].split(',')] for key in ('nx', 'ny', 'nxy'))
                ex = counts(*lab)
                if (sorted(nx), sorted(ny), sorted(nxy)) != ex:
                    bad = 'model counts %s differ from the contingency table %s' % ((nx, ny, nxy), ex)
                elif pyv[0] == 'val' and not same(pyv, ('val', [list(pd_from_counts(nx, ny, nxy, n))])):
                    bad = 'VIn/MIn from the model table %s vs bct %s' % (pd_from_counts(nx, ny, nxy, n), pyv)
                elif 'vin' not in d or 'min' not in d:
                    bad = 'model did not evaluate pdWith on its table: %s' % o[:200]
                else:
                    # the model's own formula (pdWith, proved equal to VIn/MIn over the reals by pd_of_table), evaluated
                    # in exact rationals at the double logarithms, on the model's own table
                    mv = ('val', [[float(Fr(d['vin'])), float(Fr(d['min']))]])
                    ck.count('pdWith_evaluations')
                    if pyv[0] == 'val' and not same(pyv, mv):
                        bad = 'model pdWith(table) = %s vs bct %s' % (mv, pyv)
                    elif not same(mv, ('val', [list(pd_from_counts(nx, ny, nxy, n))])):
                        bad = 'model pdWith(table) = %s vs the Python formula on the same table %s' % (mv, pd_from_counts(nx, ny, nxy, n))
            elif bname == 'ci2ls':
                got = [[int(t) for t in b.split(',')] for b in kv(o)['ls'].split('|')]
                if got != pyv[1] or got != aux:
                    bad = 'model %s bct %s expected %s' % (got, pyv[1], aux)
            elif bname == 'ls2ci':
                d = kv(o)
                got = [int(t) for t in d['ci'].split(',')] if 'ci' in d else d
                if got != pyv[1]:
                    bad = 'model %s bct %s' % (got, pyv[1])
            elif bname == 'agreement_weighted':
                n = len(lab[0]); got = [Fr(t) for t in kv(o)['D'].split(',')]
                got = [got[i * n:(i + 1) * n] for i in range(n)]
                if got != aux:
                    bad = 'model %s definition %s' % (got, aux)
                ck.count('agreement_weighted_model_vs_definition')
            elif bname == 'agreement':
                n = len(lab[0]); got = [int(t) for t in kv(o)['D'].split(',')]
                got = [got[i * n:(i + 1) * n] for i in range(n)]
                if got != aux:
                    bad = 'model %s definition %s' % (got, aux)
                elif pyv[1] is not None and [[float(v) for v in r] for r in got] != pyv[1]:
                    bad = 'model %s bct %s' % (got, pyv[1])
                elif pyv[1] is None:
                    ck.count('agreement_unobservable')
            else:
                n = len(lab)
                mv, exact = model_value(bname, o, n)
                if pyv[0] == 'timeout':
                    ck.count('model_lines_skipped_timeout')
                    continue
                if not same(mv, pyv, 1e-9):
                    bad = 'model %s bct %s' % (mv, pyv)
                elif exact is not None:
                    W = aux_W[0](line)
                    oex = oracle(vid, bname, W, lab, VKW[vid])
                    if oex != exact:
                        bad = 'model exact value %s differs from the definition %s' % (exact, oex)
        except Exception as e:  # undecodable model line = protocol problem, never agreement
            bad = 'undecodable model output %r (%s)' % (o[:200], e)
        if bad:
            nd += 1
            if nd <= 5:
                ck.corr_break('Partition model vs bct.%s' % bname, {'line': line[:600], 'relabelling': name, 'why': bad[:600]})
        else:
            nv += 1
    return nv, nd


def parse_W_from_line(line):
    d = kv(line); n = int(d['n']); xs = [Fr(t) for t in d['W'].split(',')]
    return [xs[i * n:(i + 1) * n] for i in range(n)]


aux_W = [parse_W_from_line]
VKW = {v[0]: v[3] for v in variants()}

PROBE_NOTE = 'object-reuse probes (common.reuse_probe) and f-g-f sequences on shared argument objects'
MODEL_AT_32 = {'participation_coef/wu/undirected': 'identity', 'participation_coef_sign/su': 'shuffled', 'module_degree_zscore/wu/0': 'reversal',
               'diversity_coef_sign/su': 'identity', 'modularity_und_sign/su/sta': 'shuffled', 'modularity_und/wu/1': 'sparse'}
NUMPY2_DUMMYVAR = 'Calling np.sum(generator) is deprecated'
ZERO_NODE = []
ROUTINES = ['participation_coef', 'participation_coef_sign', 'module_degree_zscore', 'diversity_coef_sign', 'gateway_coef_sign',
            'modularity_und', 'modularity_dir', 'modularity_und_sign', 'partition_distance', 'ci2ls', 'ls2ci', 'agreement', 'agreement_weighted']

MALFORMED = ['pcoef n=3 W=1,2 c=1,2,3 deg=undirected', 'pcoef n=2 W=0,1,1,0 c=1,2 deg=sideways', 'frobnicate n=2 c=1,2',
             'relabel n=3 c=1,2', 'q_und n=2 W=0,1,1,0 c=1,2 gamma=1/0', 'zscore n=2 W=0,1,1,0 c=1,2 flag=7',
             'pdist n=2 cx=1,2 cy=1', 'pdist n=2 cx=1,2 cy=1,1 logs=0', 'pdist n=2 cx=1,2 cy=1,1 logs=0,0', 'pdist n=2 cx=1,2 cy=1,1 logs=0,x', 'q_sign n=2 W=0,1,1,0 c=1,2 qtype=foo', 'ls2ci n=2 ls=0,1 z=5', 'relabel c=1,2']


def main():
    ck = Check(PID)
    ck.cov['rule'] = ('cases = (function variant, matrix, set partition, relabelling): every set partition of n<=6 nodes (restricted growth strings; '
                      'quick tier: all for n<=4 and a seeded slice of n=5,6) x 8 injective relabellings (identity, reversal, +100, zero-based, sparse '
                      'incl. negative, ~1e12, shuffled, float-valued [Python predicates only]) x matrices binary/weighted/directed/signed/dyadic x 29 variants of the nine consumers; '
                      'partition_distance on (all / sampled) ordered pairs of partitions incl. equal pairs; ci2ls/ls2ci round trips; agreement columns. '
                      'non-trivial = distinct (variant, matrix, partition) with >=2 modules whose real result has a nonzero finite entry; for '
                      'partition_distance distinct unequal pairs not both single-module')
    ck.assumptions += ['the Lean model takes integer labels; the float-valued relabelling and gateway_coef_sign(centrality_type="betweenness") are judged by the Python predicates only',
                       'watchdog timeouts and exceptions are bounded per routine (liveness break), not merely counted',
                       'matrices have an empty diagonal; exact comparisons use integer or dyadic weights',
                       'entropy-valued outputs (diversity_coef_sign, partition_distance) are compared at 1e-12 after recomputing log in Python from the model\'s exact rational ingredients']
    ck.trusted = TRUSTED_DEFAULT + ['Python float log/sqrt applied to the model\'s exact ingredients for z-score, diversity and partition_distance']
    # T-gen source pins (translate/cores.py): rename-tolerant normalised bodies of the routines this check covers that have no interpreted tie
    ck.cov['cores'] = cores.generate(families=['pinpart', 'pinmod', 'modq'])
    for p_ in ck.cov['cores']['problems']:
        ck.corr_break('core extractor (translate/cores.py)', p_)
    ok = ck.lean_gate(['BctVerif.Props.C14'], extra_modules=[MODEL])
    ck.lean_gate([], gen_modules=['BctVerif.Gen.CoresPinPart', 'BctVerif.Gen.CoresPinMod', 'BctVerif.Gen.CoresMod'])
    if ck.tier == 'thorough' and ok:
        ck.leanchecker(['BctVerif.Props.C14', MODEL])
    rs = ck.rs
    quick = ck.tier == 'quick'
    # ---- cases
    cons, pds, lists, agrs = [], [], [], []
    if ck.replay and 'case' not in json.load(open(ck.replay)):
        ck.replay = None          # a `no_longer_checks` (proof / correspondence break) replay names no input: re-run everything
    if ck.replay:
        rp = json.load(open(ck.replay))
        d = rp['case']
        if rp.get('predicate') == 'result-depends-on-history':
            pass                  # object-reuse probe: rebuilt below
        elif rp['function'] == 'partition_distance':
            pds.append({'n': d['n'], 'x': tuple(r - 1 for r in first_occ(d['cx'])), 'y': tuple(r - 1 for r in first_occ(d['cy'])),
                        'rx': relabellings([r - 1 for r in first_occ(d['cx'])], rs), 'ry': relabellings([r - 1 for r in first_occ(d['cy'])], rs), 'model': True})
        elif ('W' in d or 'W_sparse' in d) and 'labels' in d:
            n = d['n']
            if 'W' in d:
                xs = [Fr(t) for t in d['W'].split(',')]; W = [xs[i * n:(i + 1) * n] for i in range(n)]
            else:
                W = [[Fr(0)] * n for _ in range(n)]
                for t in filter(None, d['W_sparse'].split(';')):
                    i, j, w = t.split(':'); W[int(i)][int(j)] = Fr(w)
            c = tuple(r - 1 for r in first_occ(d['labels']))
            mats = gen_mats(rs, n, dens=None if n <= 10 else .02)
            for kname in mats:
                if d.get('kind') in (None, kname):
                    mats[kname] = W
            cons.append({'n': n, 'rgs': c, 'mats': mats, 'relabs': relabellings(c, rs) if n <= 10 else large_relabellings(c, rs),
                         'model': n <= 10, 'only': d.get('variant') if n > 10 else None})
    else:
        for n in range(1, 7):
            parts = list(set_partitions(n))
            if quick and n >= 5:
                idx = rs.choice(len(parts), size=26 if n == 5 else 34, replace=False)
                chosen = [parts[i] for i in sorted(idx)]
            else:
                chosen = parts
            nm = 1 if quick else (3 if n <= 5 else 2)
            matsets = [gen_mats(rs, n) for _ in range(nm)]
            for c in chosen:
                rel = relabellings(c, rs)
                for mi, mats in enumerate(matsets):
                    cons.append({'n': n, 'rgs': c, 'mats': mats, 'relabs': rel, 'model': True})
                lists.append({'n': n, 'rgs': c, 'relabs': rel, 'seed': int(rs.randint(2 ** 31))})
            # partition_distance pairs
            if n <= 4 or (not quick and n <= 5):
                pairs = [(x, y) for x in parts for y in parts]
            else:
                m = 260 if quick else 6000
                pairs = [(parts[rs.randint(len(parts))], parts[rs.randint(len(parts))]) for _ in range(m)] + [(x, x) for x in chosen]
            if not quick and n == 6:
                pairs = [(x, y) for x in parts for y in parts if rs.rand() < .35] + [(x, x) for x in parts]
            for x, y in pairs:
                pds.append({'n': n, 'x': x, 'y': y, 'rx': relabellings(x, rs), 'ry': relabellings(y, rs), 'model': quick or rs.rand() < .25})
            for _ in range(4 if quick else 20):
                M = int(rs.randint(1, 5))
                cols = [list(parts[rs.randint(len(parts))]) for _ in range(M)]
                cols2 = [relabellings(col, rs)[int(rs.randint(1, 7))][1] for col in cols]
                agrs.append({'n': n, 'cols': [[v + 1 for v in col] for col in cols], 'cols2': cols2})
    # ---- large near-singleton partitions: >= 128 modules (label arithmetic in narrow integer types, np.max(ci)-sized loops).
    # Python predicates only (definition + label invariance): the interpreted Lean driver needs O(n^2 k) rational operations per
    # line and would take minutes at n = 300, so these cases are not sent to the model.
    if not ck.replay:
        # size axis (round 4: block-wise fast paths with wrong bounds, narrow integer types): number of communities just below / at /
        # above 32, 64, 128 for EVERY routine, in the quick tier with n <= 150; the bulk (n up to 300) in the thorough tier
        shapes = [(40, 31), (44, 32), (48, 33), (90, 64), (96, 65), (150, 130)] if quick else \
                 [(40, 31), (44, 32), (48, 33), (33, 33), (90, 64), (96, 65), (70, 65), (130, 128), (131, 129), (150, 128), (150, 130),
                  (170, 150), (200, 199), (230, 200), (260, 130), (300, 270), (300, 256), (300, 257)]
        for li, (n, k) in enumerate(shapes):
            c = large_partition(rs, n, k)
            LARGE[li] = {'n': n, 'rgs': c, 'mats': gen_mats(rs, n, dens=min(.5, 6.0 / n)), 'relabs': large_relabellings(c, rs)}
            for v in variants():
                if v[1] == 'gateway_coef_sign' and (n > 150 or 'betweenness' in v[0]):
                    continue                  # gateway's Python double loop over nodes x modules: kept to the n <= 140 shapes
                ml = None
                if k == 32 and v[0] in MODEL_AT_32:
                    ml = MODEL_AT_32[v[0]]          # a few lines of the 32-community shape also go to the Lean driver (~4 s each)
                cons.append({'large': li, 'only': v[0], 'model_lines': ml})
            rel = LARGE[li]['relabs']
            lists.append({'n': n, 'rgs': c, 'relabs': rel, 'seed': int(rs.randint(2 ** 31))})
            c2 = large_partition(rs, n, int(rs.randint(max(2, k // 2), k + 1)))
            # nested partitions, both orders: a coarsening of c (pairs of modules merged), all singletons, the one-community partition
            coarse = tuple(r - 1 for r in first_occ([x // 2 for x in c]))
            coarser = tuple(r - 1 for r in first_occ([x // 5 for x in c]))
            single = tuple(range(n)); one = tuple([0] * n)
            pairs = [(c, c), (c, c2), (c2, c), (c, coarse), (coarse, c), (coarse, coarser), (coarser, coarse), (single, c), (c, single),
                     (c, one), (one, c), (single, one), (one, single), (single, single), (one, one), (coarse, coarse)]
            for x, y in pairs:
                pds.append({'n': n, 'x': x, 'y': y, 'rx': large_relabellings(x, rs), 'ry': large_relabellings(y, rs), 'model': False})
            ck.count('nested_partition_pairs', 12)
            agrs.append({'n': n, 'cols': [[v + 1 for v in c], [v + 1 for v in c2]],
                         'cols2': [large_relabellings(c, rs)[2][1], large_relabellings(c2, rs)[1][1]]})
        ck.count('large_partition_shapes', len(shapes))
    # ---- round 3: object reuse / call history probes
    reuse, seqs = [], []
    if not ck.replay:
        tnames = sorted(reuse_targets(import_bct()))
        nprobe = 90 if quick else 700
        for q in range(nprobe):
            n = int(rs.randint(4, 9)); parts_n = None
            c1 = [int(x) for x in rs.randint(1, int(rs.randint(2, n)) + 1, size=n)]
            c2 = [int(x) for x in rs.randint(1, int(rs.randint(2, n)) + 1, size=n)]
            nm = tnames[q % len(tnames)]
            muts = ['move-node', 'swap-labels', 'edit-W'] + (['make-equal'] if nm.startswith('partition_distance') else [])
            reuse.append({'n': n, 'mats': gen_mats(rs, n), 'labels': c1, 'labels2': c2, 'target': nm,
                          'mutation': muts[(q // len(tnames)) % len(muts)], 'seed': int(rs.randint(2 ** 31))})
        for q in range(12 if quick else 120):
            n = int(rs.randint(4, 9))
            seqs.append({'n': n, 'mats': gen_mats(rs, n), 'labels': [int(x) for x in rs.randint(1, 4, size=n)],
                         'labels2': [int(x) for x in rs.randint(1, 4, size=n)], 'seed': int(rs.randint(2 ** 31))})
    elif json.load(open(ck.replay)).get('predicate') == 'result-depends-on-history':
        d = json.load(open(ck.replay))['case']
        if 'target' in d:
            a = d['first_call_args']
            n = d['n']; mats = gen_mats(rs, n)
            for sd in range(40):
                reuse.append({'n': n, 'mats': mats, 'labels': a[-2] if d['target'].startswith('partition_distance') else a[-1],
                              'labels2': a[-1], 'target': d['target'], 'mutation': d['mutation'], 'seed': sd})
    dts = []
    if not ck.replay:
        for q in range(10 if quick else 80):
            n = int(rs.randint(3, 8))
            M = rs.randint(-4, 5, size=(n, n)); M = np.triu(M, 1); M = M + M.T
            dts.append({'n': n, 'W': M.tolist(), 'labels': [int(x) for x in rs.randint(1, 4, size=n)], 'seed': q})
    ck.count('dtype_axis_cases', len(dts))
    ck.count('reuse_probes', len(reuse)); ck.count('sequence_cases', len(seqs))
    ck.count('consumer_cases', len(cons)); ck.count('partition_distance_pairs', len(pds)); ck.count('list_cases', len(lists)); ck.count('agreement_cases', len(agrs))
    results = []
    # workers interleave routines, sizes and options: every case list is shuffled (hidden state carried between calls must show)
    for fn, cs in ((run_consumers, cons), (run_pd, pds), (run_lists, lists), (run_agreement, agrs), (run_reuse, reuse), (run_sequence, seqs), (run_dtype, dts)):
        cs = [cs[i] for i in rs.permutation(len(cs))]
        results += pmap(fn, cs)
    items = []
    for r in results:
        ck.merge_counts(r['evals'], r['keys'], r['dist'], [r['sample']] if r['sample'] else [])
        for func, pred, det, cond in r['viol']:
            ck.violation(func, pred, det, cond)
        items += r['lean']
    # ---- liveness bound: a watchdog timeout or an exception is never a pass by itself.  Every routine must return normally
    # on some call, time out on at most max(2, 1 %) of its calls, and raise only where a predicate judged it (gateway's known
    # IndexError must stay the minority outcome).  `agreement` is exempt from "returns normally" only while D18 is listed.
    # agreement / agreement_weighted may never return normally only while the unrepaired dummyvar is what stops them (exact message seen)
    d18_open = ck.dist.get('agreement_unobservable_numpy2_dummyvar', 0) > 0
    if d18_open:
        print('NOTE property=C14: agreement / agreement_weighted are unobservable on this tree: dummyvar raises TypeError (np.sum(<generator>) under NumPy 2); '
              'their clauses are judged as soon as the one-token repair sum(<generator>) is in /repo')
        ck.assumptions.append('agreement clause unobservable on this tree (unrepaired dummyvar, exact NumPy-2 TypeError message detected)')
        ck.never_ok_exempt = {'agreement', 'agreement_weighted'}      # common.Check's own never-returns-normally rule: exempt only while D18 is listed
    for fn in ROUTINES:
        okc, exc, to = (ck.dist.get('outcome:%s:%s' % (fn, o), 0) for o in ('ok', 'exc', 'timeout'))
        tot = okc + exc + to
        if tot == 0:
            if not ck.replay:
                ck.breaks.append({'kind': 'liveness', 'function': fn, 'what': 'routine was never called by this run'})
            continue
        if okc == 0 and not (fn in ('agreement', 'agreement_weighted') and d18_open):
            ck.breaks.append({'kind': 'liveness', 'function': fn, 'what': 'no call returned normally', 'ok': okc, 'exceptions': exc, 'timeouts': to})
        if to > max(2, tot // 100):
            ck.breaks.append({'kind': 'liveness', 'function': fn, 'what': 'too many watchdog timeouts', 'ok': okc, 'exceptions': exc, 'timeouts': to})
        if fn == 'gateway_coef_sign' and exc > okc:
            ck.breaks.append({'kind': 'liveness', 'function': fn, 'what': 'raises on most calls', 'ok': okc, 'exceptions': exc, 'timeouts': to})
    # ---- zero nodes: the routines that take np.max of the canonical labels raise ValueError, the model driver mirrors it
    # (theorems about VIn/MIn carry 0 < n); modularity_und/_dir return q = 0.0
    if not ck.replay:
        bct0 = import_bct()
        E0 = np.zeros((0, 0)); c0 = np.array([], dtype=np.int64)
        for op, fn0, line in (('participation_coef', lambda: bct0.participation_coef(E0, c0), 'pcoef n=0 W=- c=- deg=undirected'),
                              ('participation_coef_sign', lambda: bct0.participation_coef_sign(E0, c0), 'pcoef_sign n=0 W=- c=-'),
                              ('module_degree_zscore', lambda: bct0.module_degree_zscore(E0, c0), 'zscore n=0 W=- c=- flag=0'),
                              ('diversity_coef_sign', lambda: bct0.diversity_coef_sign(E0, c0), 'diversity n=0 W=- c=-'),
                              ('gateway_coef_sign', lambda: bct0.gateway_coef_sign(E0, c0), 'gateway n=0 W=- c=-'),
                              ('modularity_und_sign', lambda: bct0.modularity_und_sign(E0, c0), 'q_sign n=0 W=- c=- qtype=sta'),
                              ('partition_distance', lambda: bct0.partition_distance(c0, c0), 'pdist n=0 cx=- cy=-'),
                              ('modularity_und', lambda: bct0.modularity_und(E0, 1, c0)[1], 'q_und n=0 W=- c=- gamma=1'),
                              ('modularity_dir', lambda: bct0.modularity_dir(E0, 1, c0)[1], 'q_dir n=0 W=- c=- gamma=1')):
            st, o = call(fn0, t=5, retry=10)
            exp = 'error=' + exc_name(o) if st == 'exc' else ('q=%s' % rat_str(Fr(float(o))) if st == 'ok' and np.ndim(o) == 0 else 'value')
            ZERO_NODE.append((line, op, exp))
            ck.count('zero_node_cases')
    # ---- D16 witness replayed on the real code on every run (Props/C14.lean proves the model's non-invariance on the same input)
    bct = import_bct()
    Ww = np.array([[0, 1, 2, 0], [1, 0, 0, 3], [2, 0, 0, 1], [0, 3, 1, 0.]])
    a = canon(*call(bct.gateway_coef_sign, Ww, np.array([1, 2, 2, 2])), 'gateway_coef_sign')
    b = canon(*call(bct.gateway_coef_sign, Ww, np.array([2, 1, 1, 1])), 'gateway_coef_sign')
    e = canon(*call(bct.gateway_coef_sign, Ww, np.array([3, 3, 2, 1])), 'gateway_coef_sign')
    ck.count('D16_witness_differs', int(not same(a, b))); ck.count('D16_witness_indexerror', int(e == ('exc', 'IndexError')))
    if not same(a, b) or e[0] == 'exc':
        ck.violation('gateway_coef_sign', 'label-invariance',
                     {'n': 4, 'W': '0,1,2,0,1,0,0,3,2,0,0,1,0,3,1,0', 'labels': [1, 2, 2, 2], 'relabelled': [2, 1, 1, 1], 'result': a, 'result_relabelled': b,
                      'labels_3321': e},
                     {'order_preserving': False, 'multi_node_module': True,
                      'ascoded_model_agrees': all(same(gateway_ascoded([[Fr(x) for x in r] for r in Ww.tolist()], l, 'degree', bct), v, 1e-9)
                                                  for l, v in (([1, 2, 2, 2], a), ([2, 1, 1, 1], b), ([3, 3, 2, 1], e)))})
    # ---- correspondence
    if ok:
        try:
            lines = [it[0] for it in items]
            # the interpreted driver is single-threaded: run it on 6 slices in parallel (order preserved)
            from concurrent.futures import ThreadPoolExecutor
            allin = lines + MALFORMED + [z[0] for z in ZERO_NODE]
            heavy = [i for i, ln in enumerate(allin) if len(ln) > 3000]        # the 32-community lines: one driver process each
            light = [i for i in range(len(allin)) if len(allin[i]) <= 3000]
            nch = 6 if len(light) > 600 else 1
            sz = (len(light) + nch - 1) // nch
            groups = [light[i:i + sz] for i in range(0, len(light), sz)] + [[i] for i in heavy]
            with ThreadPoolExecutor(max(1, len(groups))) as ex:
                parts = list(ex.map(lambda g: run_driver('Partition', [allin[i] for i in g], timeout=1500), groups))
            outs = [None] * len(allin)
            for g, pt in zip(groups, parts):
                for i, o in zip(g, pt):
                    outs[i] = o
            ck.count('model_lines_at_32_communities', len(heavy))
            nv, nd = compare_model(ck, items, outs[:len(lines)])
            for (ln, op, exp), o in zip(ZERO_NODE, outs[len(lines) + len(MALFORMED):]):
                if o != exp:
                    nd += 1
                    ck.corr_break('Partition model vs bct.%s on zero nodes' % op, {'line': ln, 'model': o, 'impl': exp})
                else:
                    nv += 1
            for ln, o in zip(MALFORMED, outs[len(lines):len(lines) + len(MALFORMED)]):
                ck.count('malformed_lines')
                if o != 'error=protocol':
                    nd += 1
                    ck.corr_break('Partition driver accepted a malformed line', {'line': ln, 'model': o})
            ck.cov['traces_validated_against_impl'] = nv
            ck.count('correspondence_cases', len(lines)); ck.count('correspondence_disagreements', nd)
        except DriverError as e:
            ck.corr_break('Partition driver', str(e))
    ck.cov['exhaustive'] = (not quick)
    ck.finish()


def first_occ(lab):
    seen = {}
    return [seen.setdefault(x, len(seen) + 1) for x in lab]


if __name__ == '__main__':
    main()
