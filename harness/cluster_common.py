"""Shared by C09 (clustering / transitivity = triangle definitions) and C10 (weighted->binary, directed->undirected reductions):
exact `fractions.Fraction` matrices, independent triple-enumeration oracles, the bct call table, the line protocol of the
Lean `Cluster` model and the comparison of its canonical output with the real bct output.

A case is a dict {'kind': ..., 'R': [[str p/q]]} where R is the matrix of *cube roots* of the weights (W = R**3 entrywise,
so that cuberoot(W) is rational), or {'kind': ..., 'W': [[str]]} for matrices used as they are (0/1 or dyadic).
"""
import math
from concurrent.futures import ThreadPoolExecutor
from fractions import Fraction as F
import numpy as np
from common import *  # noqa

TOL = 1e-9

# ------------------------------------------------------------------ exact matrices


def fparse(M):
    return [[F(x) for x in row] for row in M]


def fstr(M):
    return [['%d/%d' % (x.numerator, x.denominator) if x.denominator != 1 else str(x.numerator) for x in row] for row in M]


def cube(R):
    return [[x ** 3 for x in row] for row in R]


def fl(M):
    return np.array([[float(x) for x in row] for row in M], dtype=float).reshape(len(M), len(M))


def enc(M):
    return ','.join('%d/%d' % (x.numerator, x.denominator) if x.denominator != 1 else str(x.numerator) for row in M for x in row)


def case_mats(case):
    """-> (W, R) exact; R is None when the case carries raw weights that need not be cubes"""
    if 'R' in case:
        R = fparse(case['R'])
        return cube(R), R
    return fparse(case['W']), None


def is_sym(W):
    n = len(W)
    return all(W[i][j] == W[j][i] for i in range(n) for j in range(n))


def is_bin(W):
    return all(x in (0, 1) for row in W for x in row)


def empty_diag(W):
    return all(W[i][i] == 0 for i in range(len(W)))


# ------------------------------------------------------------------ oracles: published definitions by enumeration of node triples
# (written over neighbour sets and distinct node triples, never as matrix products)

def link(W, i, j):
    return W[i][j] != 0 or W[j][i] != 0


def o_cc_und(W, R):
    """Onnela / Watts-Strogatz: sum over ordered pairs of distinct neighbours (a,b) of (w_ia w_ab w_bi)^(1/3), over k(k-1).
    On 0/1 input: fraction of neighbour pairs that are connected."""
    n = len(W); out = []
    for i in range(n):
        N = [j for j in range(n) if j != i and W[i][j] != 0]
        k = len(N)
        if k < 2:
            out.append(F(0)); continue
        t = sum((R[i][a] * R[a][b] * R[b][i] for a in N for b in N if a != b), F(0))
        out.append(t / (k * (k - 1)))
    return out


def o_fagiolo_node(W, R, i):
    """Fagiolo 2007: t_i = 1/2 sum_{j != k, both != i} s_ij s_jk s_ki with s = r + r^T;
    T_i = d_tot (d_tot - 1) - 2 d_bilateral."""
    n = len(W)
    oth = [j for j in range(n) if j != i]
    s = lambda x, y: R[x][y] + R[y][x]
    t = sum((s(i, j) * s(j, k) * s(k, i) for j in oth for k in oth if k != j), F(0)) / 2
    dtot = sum((W[i][j] != 0) + (W[j][i] != 0) for j in oth)
    dbi = sum(1 for j in oth if W[i][j] != 0 and W[j][i] != 0)
    return t, dtot * (dtot - 1) - 2 * dbi


def o_cc_dir(W, R):
    out = []
    for i in range(len(W)):
        t, T = o_fagiolo_node(W, R, i)
        out.append(F(0) if t == 0 else (None if T == 0 else t / T))
    return out


def o_trans_und(W, R):
    n = len(W); num = F(0); den = 0
    for i in range(n):
        N = [j for j in range(n) if j != i and W[i][j] != 0]
        num += sum((R[i][a] * R[a][b] * R[b][i] for a in N for b in N if a != b), F(0))
        den += len(N) * (len(N) - 1)
    return None if den == 0 else num / den


def o_trans_bu_count(A):
    """3 * (number of triangles) / (number of connected triples), by enumeration of unordered node triples"""
    n = len(A)
    tri = sum(1 for i, j, k in itertools.combinations(range(n), 3) if A[i][j] != 0 and A[j][k] != 0 and A[i][k] != 0)
    trip = sum(1 for c in range(n) for a, b in itertools.combinations([j for j in range(n) if j != c], 2) if A[c][a] != 0 and A[c][b] != 0)
    return None if trip == 0 else F(3 * tri, trip)


def o_trans_dir(W, R):
    num = F(0); den = 0
    for i in range(len(W)):
        t, T = o_fagiolo_node(W, R, i)
        num += t; den += T
    return None if den == 0 else num / den


def pos_part(W):
    n = len(W)
    return [[(W[i][j] if (W[i][j] > 0 and i != j) else F(0)) for j in range(n)] for i in range(n)]


def neg_part(W):
    n = len(W)
    return [[(-W[i][j] if (W[i][j] < 0 and i != j) else F(0)) for j in range(n)] for i in range(n)]


def o_zhang(P):
    """Zhang & Horvath: sum_{j != q} p_ij p_iq p_jq / sum_{j != q} p_ij p_iq"""
    n = len(P); out = []
    for i in range(n):
        prs = [(j, q) for j in range(n) for q in range(n) if j != q and j != i and q != i]
        c3 = sum((P[j][i] * P[i][q] * P[j][q] for j, q in prs), F(0))
        c2 = sum((P[j][i] * P[i][q] for j, q in prs), F(0))
        out.append(F(0) if c3 == 0 else (None if c2 == 0 else c3 / c2))
    return out


def o_costantini(W):
    n = len(W); out = []
    for i in range(n):
        prs = [(j, q) for j in range(n) for q in range(n) if j != q and j != i and q != i]
        c3 = sum((W[j][i] * W[i][q] * W[j][q] for j, q in prs), F(0))
        c2 = sum((abs(W[j][i] * W[i][q]) for j, q in prs), F(0))
        out.append(F(0) if c3 == 0 else (None if c2 == 0 else c3 / c2))
    return out


# ------------------------------------------------------------------ float oracles for generic (non perfect-cube) weights
# direct enumeration of distinct node triples; the intensity of a triangle is taken as (w1*w2*w3) ** (1/3) per triple
# (bct takes the cube root of every entry first and multiplies afterwards), plain Python floats

def cr(x):
    return 0.0 if x == 0 else math.copysign(abs(x) ** (1.0 / 3.0), x)


def fo_cc_und(W):
    n = len(W); out = []
    for i in range(n):
        N = [j for j in range(n) if j != i and W[i][j] != 0]
        k = len(N)
        if k < 2:
            out.append(0.0); continue
        t = math.fsum(cr(W[i][a] * W[a][b] * W[b][i]) for a in N for b in N if a != b)
        out.append(t / (k * (k - 1)))
    return out


def fo_fagiolo_node(W, i):
    n = len(W)
    oth = [j for j in range(n) if j != i]
    t = 0.5 * math.fsum(cr(a * b * c) for j in oth for k in oth if k != j
                        for a in (W[i][j], W[j][i]) for b in (W[j][k], W[k][j]) for c in (W[k][i], W[i][k]))
    dtot = sum((W[i][j] != 0) + (W[j][i] != 0) for j in oth)
    dbi = sum(1 for j in oth if W[i][j] != 0 and W[j][i] != 0)
    return t, dtot * (dtot - 1) - 2 * dbi


def fo_cc_dir(W):
    out = []
    for i in range(len(W)):
        t, T = fo_fagiolo_node(W, i)
        out.append(0.0 if t == 0 else (None if T == 0 else t / T))
    return out


def fo_trans_und(W):
    n = len(W); num = 0.0; den = 0
    for i in range(n):
        N = [j for j in range(n) if j != i and W[i][j] != 0]
        num += math.fsum(cr(W[i][a] * W[a][b] * W[b][i]) for a in N for b in N if a != b)
        den += len(N) * (len(N) - 1)
    return None if den == 0 else num / den


def fo_trans_dir(W):
    num = 0.0; den = 0
    for i in range(len(W)):
        t, T = fo_fagiolo_node(W, i)
        num += t; den += T
    return None if den == 0 else num / den


def fmat_float(W):
    return [[float(x) for x in row] for row in W]


def structural_zero(W, i, directed):
    """node i has fewer than two neighbours or lies on no triangle (links in either direction when directed)"""
    n = len(W)
    lk = (lambda a, b: link(W, a, b)) if directed else (lambda a, b: W[a][b] != 0)
    N = [j for j in range(n) if j != i and lk(i, j)]
    return not any(lk(a, b) for a in N for b in N if a != b)


# ------------------------------------------------------------------ bct call table
# name -> (bct attribute, kwargs, lean op, n outputs)

def bct_funcs(bct):
    return {
        'cc_bu': lambda W: bct.clustering_coef_bu(W),
        'cc_bd': lambda W: bct.clustering_coef_bd(W),
        'cc_wu': lambda W: bct.clustering_coef_wu(W),
        'cc_wd': lambda W: bct.clustering_coef_wd(W),
        'cc_sign_default': lambda W: bct.clustering_coef_wu_sign(W, 'default'),
        'cc_sign_zhang': lambda W: bct.clustering_coef_wu_sign(W, 'zhang'),
        'cc_sign_costantini': lambda W: bct.clustering_coef_wu_sign(W, 'costantini'),
        'trans_bu': lambda W: bct.transitivity_bu(W),
        'trans_bd': lambda W: bct.transitivity_bd(W),
        'trans_wu': lambda W: bct.transitivity_wu(W),
        'trans_wd': lambda W: bct.transitivity_wd(W),
        'degrees_und': lambda W: bct.degrees_und(W),
        'degrees_dir': lambda W: bct.degrees_dir(W),
        'strengths_und': lambda W: bct.strengths_und(W),
        'strengths_dir': lambda W: bct.strengths_dir(W),
    }


PUBLIC = {'cc_bu': 'clustering_coef_bu', 'cc_bd': 'clustering_coef_bd', 'cc_wu': 'clustering_coef_wu', 'cc_wd': 'clustering_coef_wd',
          'cc_sign_default': 'clustering_coef_wu_sign', 'cc_sign_zhang': 'clustering_coef_wu_sign', 'cc_sign_costantini': 'clustering_coef_wu_sign',
          'trans_bu': 'transitivity_bu', 'trans_bd': 'transitivity_bd', 'trans_wu': 'transitivity_wu', 'trans_wd': 'transitivity_wd',
          'degrees_und': 'degrees_und', 'degrees_dir': 'degrees_dir', 'strengths_und': 'strengths_und', 'strengths_dir': 'strengths_dir'}
# Lean result keys, in the order of the Python return value
KEYS = {'cc_sign_default': ['Cpos', 'Cneg'], 'cc_sign_zhang': ['Cpos', 'Cneg'], 'degrees_dir': ['id', 'od', 'deg'],
        'degrees_und': ['deg'], 'strengths_und': ['str'], 'strengths_dir': ['str'],
        'trans_bu': ['T'], 'trans_bd': ['T'], 'trans_wu': ['T'], 'trans_wd': ['T']}


def canon(out, name):
    """real output -> list (one per Lean key) of lists of floats; non-finite -> None"""
    ks = KEYS.get(name, ['C'])
    parts = list(out) if len(ks) > 1 else [out]
    res = []
    for p in parts:
        v = np.atleast_1d(np.asarray(p, dtype=float)).ravel().tolist()
        res.append([x if math.isfinite(x) else None for x in v])
    return res


def run_bct(bct, name, Wf, t=5.0, copy=True):
    """-> ('ok', canon) | ('exc', msg) | ('timeout', None); the argument is a private copy (copy=False: the caller built a
    fresh array in a specific dtype / memory layout, which a copy would normalise)"""
    st, out = call(bct_funcs(bct)[name], Wf.copy() if copy else Wf, t=t, retry=10)
    if st != 'ok':
        return st, out
    try:
        return 'ok', canon(out, name)
    except Exception as e:  # noqa
        return 'exc', 'canon: %s' % e


def lean_line(name, W):
    return '%s n=%d W=%s' % (name, len(W), enc(W))


def parse_model(line, name):
    """canonical Lean line -> list of lists of Fraction/None, or None for error= lines"""
    d = kv(line)
    if 'error' in d:
        return None
    res = []
    for k in KEYS.get(name, ['C']):
        if k not in d:
            return None
        res.append([] if d[k] == '-' else [None if x == 'nan' else F(x) for x in d[k].split(',')])
    return res


def same(py, ex, exact, tol=TOL):
    """py: float or None (non-finite); ex: Fraction or None"""
    if ex is None or py is None:
        return ex is None and py is None
    if exact:
        return py == float(ex)
    return abs(py - float(ex)) <= tol * max(1.0, abs(float(ex)))


def same_vec(pys, exs, exact, tol=TOL):
    return len(pys) == len(exs) and all(same(p, e, exact, tol) for p, e in zip(pys, exs))


# ------------------------------------------------------------------ representation axis: dtype and memory layout of the same network

DT_BIN = ['int64', 'bool', 'float32', 'uint8', 'int32', 'float64']     # 0/1 matrices
DT_W = ['float32', 'float64']                                          # weighted matrices
ORDERS = ['F', 'C', 'T', 'S']      # Fortran copy, C copy, transposed view of a C array, strided view into a larger array
WEIGHTED = {'cc_wu', 'cc_wd', 'trans_wu', 'trans_wd', 'cc_sign_default', 'cc_sign_zhang', 'cc_sign_costantini'}


def represent(Wf, dtype, order, negzero=False):
    """the same matrix, freshly built in the given dtype and memory layout; negzero (float dtypes): every other absent
    connection is stored as the IEEE negative zero -0.0 (numerically equal to 0: the network is unchanged)"""
    X = np.asarray(Wf).astype(dtype)
    n = len(X)
    if negzero and dtype.startswith('float'):
        z = np.argwhere(X == 0)
        for i, j in z[::2]:
            X[i, j] = -0.0
    if order == 'F':
        return np.asfortranarray(X)
    if order == 'T':
        return np.ascontiguousarray(X.T).T
    if order == 'S':
        big = np.zeros((2 * n, 2 * n), dtype=dtype)
        big[::2, ::2] = X
        return big[::2, ::2]
    return np.ascontiguousarray(X)


def rep_tol(dtype):
    return 1e-5 if dtype == 'float32' else TOL


def is_int_dtype(dtype):
    return dtype.startswith(('int', 'uint')) or dtype == 'bool'


def rejected_exc(dtype, msg):
    """visible rejections of a storage type, outside the routines' domain (DESIGN 2.5): routines that store np.inf into an
    integer array derived from the argument raise OverflowError; the weighted routines (np.sign / unary minus) raise a
    TypeError on bool arrays.  Counted, no claim — a *silent* wrong value is never excused."""
    if is_int_dtype(dtype) and msg.startswith('OverflowError') and 'infinity' in msg:
        return True
    return dtype == 'bool' and msg.startswith(('UFuncTypeError', 'TypeError'))


def add_reps(rs, cases, frac, binary_kinds, weighted_kinds):
    """append, for a fraction of the cases, a copy that is to be evaluated in another dtype / memory layout"""
    out = []; kb = kw = 0
    for c in cases:
        if rs.rand() >= frac:
            continue
        if c['kind'] in binary_kinds:
            dt = DT_BIN[kb % len(DT_BIN)]; od = ORDERS[(kb // len(DT_BIN)) % len(ORDERS)]; kb += 1
        elif c['kind'] in weighted_kinds:
            dt = DT_W[kw % len(DT_W)]; od = ORDERS[(kw // len(DT_W)) % len(ORDERS)]; kw += 1
            if dt == 'float64' and od == 'C':
                od = 'F'
        else:
            continue
        out.append(dict(c, rep={'dtype': dt, 'order': od, 'negzero': bool(dt.startswith('float') and (kb + kw) % 2 == 0)}, tag=c['tag'] + '+rep'))
    return out


def run_driver_par(main, lines, k=4):
    """run_driver on k chunks in parallel (each chunk is an independent `lean --run` process)"""
    if len(lines) < 200 * k:
        return run_driver(main, lines)
    step = (len(lines) + k - 1) // k
    chunks = [lines[a:a + step] for a in range(0, len(lines), step)]
    with ThreadPoolExecutor(len(chunks)) as ex:
        outs = list(ex.map(lambda c: run_driver(main, c), chunks))
    return [o for c in outs for o in c]


# ------------------------------------------------------------------ generators

def sym_from_upper(n, vals):
    M = [[F(0)] * n for _ in range(n)]
    it = iter(vals)
    for i in range(n):
        for j in range(i + 1, n):
            v = next(it); M[i][j] = v; M[j][i] = v
    return M


def dir_from_cells(n, vals):
    M = [[F(0)] * n for _ in range(n)]
    it = iter(vals)
    for i in range(n):
        for j in range(n):
            if i != j:
                M[i][j] = next(it)
    return M


def all_mats(n, directed, values):
    m = n * (n - 1) if directed else n * (n - 1) // 2
    for vals in itertools.product(values, repeat=m):
        yield dir_from_cells(n, vals) if directed else sym_from_upper(n, vals)


ROOTS = [F(p, q) for q in (1, 2, 3, 4, 5) for p in range(1, q + 1) if math.gcd(p, q) == 1]   # cube roots in (0,1]


GENERIC = sorted(set([F(k, 10) for k in range(1, 11)] + [F(k, 16) for k in range(1, 17)] + [F(k, 100) for k in (1, 5, 37, 99)]))   # non-cube weights in (0,1]


def rand_mat(rs, n, density, directed, roots, signed=False, isolate=0):
    """random root matrix; `isolate` nodes get no links"""
    m = n * (n - 1) if directed else n * (n - 1) // 2
    vals = []
    for _ in range(m):
        if rs.rand() < density:
            v = roots[rs.randint(len(roots))]
            if signed and rs.rand() < .5:
                v = -v
            vals.append(v)
        else:
            vals.append(F(0))
    M = dir_from_cells(n, vals) if directed else sym_from_upper(n, vals)
    for x in rs.permutation(n)[:isolate]:
        for j in range(n):
            M[x][j] = F(0); M[j][x] = F(0)
    return M


def structured(rs, n, directed):
    """triangle-free and extremal shapes: star, path, cycle, complete bipartite, complete, tree + one chord, empty"""
    out = []
    Z = lambda: [[F(0)] * n for _ in range(n)]

    def und(edges):
        M = Z()
        for a, b in edges:
            if a != b:
                M[a][b] = F(1); M[b][a] = F(1)
        return M
    out.append(('empty', Z()))
    out.append(('star', und([(0, j) for j in range(1, n)])))
    out.append(('path', und([(j, j + 1) for j in range(n - 1)])))
    out.append(('cycle', und([(j, (j + 1) % n) for j in range(n)])))
    h = n // 2
    out.append(('bipartite', und([(a, b) for a in range(h) for b in range(h, n)])))
    out.append(('complete', und([(a, b) for a in range(n) for b in range(a + 1, n)])))
    tree = [(j, int(rs.randint(j))) for j in range(1, n)]
    out.append(('tree', und(tree)))
    a, b = (int(x) for x in rs.permutation(n)[:2])
    out.append(('tree+chord', und(tree + [(a, b)])))
    if directed:
        res = []
        for tag, M in out:
            D = [row[:] for row in M]
            for i in range(n):
                for j in range(i + 1, n):
                    if D[i][j] != 0:
                        r = rs.rand()
                        if r < .4:
                            D[j][i] = F(0)
                        elif r < .8:
                            D[i][j] = F(0)
            res.append((tag + '-oriented', D))
        C = Z()
        for j in range(n):
            C[j][(j + 1) % n] = F(1)
        res.append(('dicycle', C))
        return res
    return out


# ------------------------------------------------------------------ replay files and machinery failures

def replay_cases(path):
    """cases named by a replay file: a violation replay carries the failing case; a `no-failing-input-found` replay carries the
    correspondence cases that no longer check (re-run those; none recorded -> empty list, the Lean gate alone is re-run)"""
    d = json.load(open(path))
    if isinstance(d.get('case'), dict) and 'case' in d['case']:
        return [d['case']['case']]
    out = []
    for b in d.get('no_longer_checks', []):
        det = b.get('detail') if isinstance(b, dict) else None
        if isinstance(det, dict) and isinstance(det.get('case'), dict):
            out.append(det['case'])
    return out


def guarded(main):
    """a traceback is a machinery failure (exit 2), never exit 1 without a VIOLATION line"""
    import traceback
    try:
        main()
    except SystemExit:
        raise
    except BaseException:   # noqa
        traceback.print_exc()
        sys.exit(2)


# ------------------------------------------------------------------ history / object-reuse probes (round 3)
# Stricter than common.reuse_probe: the reference value is computed on a fresh copy of the *intended* argument values
# (original matrix + the caller's edit), not on a copy of the argument object as the earlier calls left it — so a routine
# that overwrites its argument in a first call and therefore answers wrongly on the second call with the same object
# is reported here as well (the write itself is C13's subject; the wrong value is a failure of the value property).

def scribble(o):
    """the caller edits a returned array in place"""
    if isinstance(o, (tuple, list)):
        for x in o:
            scribble(x)
    elif isinstance(o, np.ndarray) and o.size and o.flags.writeable:
        try:
            o[...] = 99
        except Exception:   # noqa
            pass


def apply_edit(M, edit):
    if edit:
        i, j, v, sym = edit
        M[i, j] = v
        if sym:
            M[j, i] = v


def pick_edit(rs, Wf, sym, values):
    """an in-domain edit: lesion an existing connection or set / re-weight a cell (both directions when undirected)"""
    n = len(Wf)
    if n < 2:
        return None
    nz = [(i, j) for i in range(n) for j in range(n) if i != j and Wf[i, j] != 0]
    if nz and rs.rand() < .6:
        i, j = nz[int(rs.randint(len(nz)))]
        return (int(i), int(j), 0.0, sym)
    i, j = (int(x) for x in rs.permutation(n)[:2])
    return (i, j, float(values[int(rs.randint(len(values)))]), sym)


def _flat(o):
    if isinstance(o, (tuple, list)):
        return [y for x in o for y in _flat(x)]
    return [np.asarray(o, dtype=float)]


def seq_probe(funcs, Wf, edit, scrib, tol=TOL, t=5.0):
    """call funcs[:-1] on one array object A (optionally scribbling over what they return), apply `edit` to A in place,
    call funcs[-1] on the SAME object, and compare with funcs[-1] on a fresh array holding the intended values.
    -> None | dict describing the disagreement"""
    A = np.array(Wf, dtype=float)
    E = np.array(Wf, dtype=float)
    for f in funcs[:-1]:
        st, r = call(f, A, t=t, retry=10)
        if st == 'ok' and scrib:
            scribble(r)
    apply_edit(A, edit); apply_edit(E, edit)
    s2, r2 = call(funcs[-1], A, t=t, retry=10)
    s3, r3 = call(funcs[-1], E.copy(), t=t, retry=10)
    if 'timeout' in (s2, s3):
        return None
    if s2 != s3:
        return {'same_object': s2, 'fresh_copy': s3, 'detail': [str(r2)[:200], str(r3)[:200]]}
    if s2 == 'exc':
        return None if exc_kind(r2) == exc_kind(r3) else {'same_object': r2, 'fresh_copy': r3}
    a, b = _flat(r2), _flat(r3)
    if len(a) != len(b) or not all(x.shape == y.shape and np.allclose(x, y, rtol=0, atol=tol, equal_nan=True) for x, y in zip(a, b)):
        return {'same_object': [np.round(x, 12).tolist() for x in a], 'fresh_copy': [np.round(x, 12).tolist() for x in b],
                'argument_after_calls_equals_intended': bool(np.array_equal(A, E))}
    return None


def make_probes(rs, cases, seqs_by_kind, count):
    """probe tasks: every sequence x {no edit, edit} x {returned arrays left alone, scribbled}, matrices drawn from `cases`"""
    pool = {}
    for c in cases:
        if 'R' not in c and 'W' not in c:
            continue
        W, _ = case_mats(c)
        if len(W) >= 4 and 'rep' not in c:
            pool.setdefault(c['kind'], []).append(c)
    combos = [(k, seq, e, sc) for k, seqs in seqs_by_kind.items() if pool.get(k) for seq in seqs for e in (False, True) for sc in (False, True)]
    out = []
    rounds = max(1, -(-count // max(1, len(combos))))
    for r in range(rounds):
        order = rs.permutation(len(combos))
        for x in order:
            k, seq, e, sc = combos[int(x)]
            base = pool[k][int(rs.randint(len(pool[k])))]
            out.append({'kind': 'probe', 'base': base, 'seq': list(seq), 'edit': bool(e), 'scrib': bool(sc),
                        'pseed': int(rs.randint(2 ** 31)), 'tag': 'probe'})
            if len(out) >= count:
                return out
    return out


# ------------------------------------------------------------------ size / multiplicity axis (round 4)

SIZES = [12, 13, 16, 17, 32, 33, 64, 65, 100, 128, 129, 160, 256, 257]


def beads(stages, m, directed):
    """hub_0 - {m parallel nodes} - hub_1 - ... - hub_stages : m**stages equally short paths end to end"""
    n = stages + 1 + stages * m
    A = np.zeros((n, n)); nxt = stages + 1
    for st in range(stages):
        for _ in range(m):
            A[st, nxt] = 1; A[nxt, st + 1] = 1
            if not directed:
                A[nxt, st] = 1; A[st + 1, nxt] = 1
            nxt += 1
    return A


def lattice(k, directed):
    """k x k grid (directed: edges point right and down): binomially many equally short paths"""
    n = k * k; A = np.zeros((n, n))
    for r in range(k):
        for c in range(k):
            for rr, c2 in ((r, c + 1), (r + 1, c)):
                if rr < k and c2 < k:
                    A[r * k + c, rr * k + c2] = 1
                    if not directed:
                        A[rr * k + c2, r * k + c] = 1
    return A


def sparse01(rs, n, deg, directed, isolate=0):
    A = (rs.rand(n, n) < deg / max(1.0, n - 1.0)).astype(float)
    np.fill_diagonal(A, 0)
    if not directed:
        A = np.triu(A, 1); A = A + A.T
    for x in rs.permutation(n)[:isolate]:
        A[x, :] = 0; A[:, x] = 0
    return A
