"""Argument builders for *every* public function of the bct namespace (used by the dynamic parts of C05 and C13).

build(name, sig, kind, rs) -> (args: dict name -> value) or None when no builder exists for a required parameter.
`kind` selects the flavour of the matrix / label arguments:
  und     symmetric weighted float, empty diagonal           bin   symmetric binary float, empty diagonal
  dir     directed weighted float, empty diagonal            wdiag directed weighted float, NONZERO diagonal
  signed  symmetric signed float, NONZERO diagonal           int   symmetric binary int64, NONZERO diagonal
  bool    symmetric dtype=bool, empty diagonal               booldiag  symmetric dtype=bool, NONZERO diagonal
  disc    symmetric weighted float, two components (disconnected), empty diagonal
  naninf  symmetric weighted float with NaN and +inf entries (off and on the diagonal)
Parameter roles: distance-matrix parameters (`D`) of the kinds bool / booldiag / disc are distance matrices of a
disconnected graph (inf between the components, 0 on the diagonal); partition parameters get arbitrary labels.
flag_space(func) enumerates the boolean / small-enum keyword flags of a function from its signature defaults and the
choices quoted in its docstring.
Label vectors use arbitrary (non-contiguous, unordered) labels; for kind 'int' they are int64, otherwise float or int.
"""
import os, tempfile, inspect
import numpy as np

N = 6            # default number of nodes; `sized(n)` changes it for the size axis
DENS = None      # density override used by `sized`


class sized:
    """with sized(n): every builder produces n-node inputs (density lowered for large n so that costs stay bounded)"""
    def __init__(self, n):
        self.n = n

    def __enter__(self):
        global N, DENS
        self.old = (N, DENS)
        N, DENS = self.n, (None if self.n <= 12 else max(0.08, min(0.6, 10.0 / self.n)))

    def __exit__(self, *a):
        global N, DENS
        N, DENS = self.old

KINDS = ('und', 'bin', 'dir', 'wdiag', 'signed', 'int', 'bool', 'booldiag', 'disc', 'naninf')


SPECIAL_KINDS = ('empty', 'emptyint', 'emptybool', 'single', 'negzero', 'stoch', 'f32')


def special_mat(kind, rs, n):
    """empty / emptyint / emptybool: all-zero (edgeless) matrix; single: one node; negzero: binary float whose zeros are -0.0
    (max exactly 1.0); stoch: dyadic row-stochastic float matrix (every row sums to exactly 1.0); f32: float32 weights"""
    if kind == 'empty':
        return np.zeros((n, n))
    if kind == 'emptyint':
        return np.zeros((n, n), dtype=np.int64)
    if kind == 'emptybool':
        return np.zeros((n, n), dtype=bool)
    if kind == 'single':
        return np.zeros((1, 1))
    if kind == 'negzero':
        A = mat('bin', rs, n)
        A[A == 0] = -0.0
        return A
    if kind == 'stoch':
        A = np.zeros((n, n))
        for i in range(n):
            js = [(i + 1) % n, (i + 2) % n, (i + 3) % n] if n > 3 else [(i + 1) % n]
            for j, w in zip(js, (0.5, 0.25, 0.25) if len(js) == 3 else (1.0,)):
                A[i, j] += w
        return A
    if kind == 'f32':
        return mat('und', rs, n).astype(np.float32)
    raise KeyError(kind)


def prob_vector(kind, n):
    """weight-like vector arguments (falff, wts, C0): dyadic probabilities whose float sum is exactly 1.0, one-hot, in several dtypes"""
    v = np.zeros(n)
    if kind in ('stoch', 'und', 'negzero', 'wdiag'):
        w = [0.5, 0.25, 0.125, 0.125]
        v[:min(n, 4)] = w[:min(n, 4)]
        if n < 4:
            v[n - 1] += 1.0 - v.sum()
        return v
    if kind in ('bin', 'empty', 'single'):
        v[0] = 1.0
        return v
    if kind in ('int', 'emptyint'):
        v = np.zeros(n, dtype=np.int64)
        v[0] = 1
        return v
    if kind in ('bool', 'booldiag', 'emptybool'):
        v = np.zeros(n, dtype=bool)
        v[0] = True
        return v
    if kind == 'f32':
        p2 = 1 << (n.bit_length() - 1)
        v = np.zeros(n, dtype=np.float32)
        v[:p2] = np.float32(1.0 / p2)
        return v
    if kind == 'signed':
        p2 = 1 << (n.bit_length() - 1)
        v[:p2] = 1.0 / p2             # uniform over a power of two: sum exactly 1.0
        return v
    return None


def mat(kind, rs, n=None, dens=None):
    n = N if n is None else n
    dens = (DENS or 0.6) if dens is None else (dens if DENS is None else min(dens, DENS * 1.5))
    if kind in SPECIAL_KINDS:
        return special_mat(kind, rs, n)
    mask = rs.rand(n, n) < dens
    w = np.floor(rs.rand(n, n) * 9) + 1.0
    if kind == 'naninf':
        A = mat('und', rs, n, dens)
        A[0, 2] = A[2, 0] = np.nan
        A[1, 4] = A[4, 1] = np.inf
        A[3, 3] = np.nan
        A[5, 5] = np.inf
        return A
    if kind == 'disc':
        h = n // 2
        mask = np.triu(mask, 1)
        mask[:h, h:] = False
        for i in range(n - 1):
            if i != h - 1:
                mask[i, i + 1] = True
        mask = mask | mask.T
        w = np.triu(w, 1)
        return (w + w.T) * mask
    if kind in ('und', 'bin', 'signed', 'int', 'bool', 'booldiag'):
        mask = np.triu(mask, 1)
        # make sure the graph has a spanning path so that most measures are defined
        for i in range(n - 1):
            mask[i, i + 1] = True
        mask = mask | mask.T
        w = np.triu(w, 1)
        w = w + w.T
    else:
        for i in range(n):
            mask[i, (i + 1) % n] = True
        np.fill_diagonal(mask, False)
    if kind == 'bin':
        A = mask.astype(float)
    elif kind in ('bool', 'booldiag'):
        A = mask.astype(bool)
        if kind == 'booldiag':
            A[np.arange(n), np.arange(n)] = True
    elif kind == 'int':
        A = mask.astype(np.int64)
        A[np.arange(n), np.arange(n)] = 1
    elif kind == 'signed':
        sg = np.triu(np.where(rs.rand(n, n) < 0.35, -1.0, 1.0), 1)
        A = w * mask * (sg + sg.T)
        A[np.arange(n), np.arange(n)] = np.floor(rs.rand(n) * 5) + 1.0
    elif kind == 'wdiag':
        A = w * mask
        A[np.arange(n), np.arange(n)] = np.floor(rs.rand(n) * 5) + 1.0
    else:
        A = w * mask
    return A


def labels(kind, rs, n=None):
    n = N if n is None else n
    if kind == 'single':
        return np.array([7.0])
    pool = np.array([7, 3, 12, 5])
    ci = pool[np.sort(rs.randint(0, 3, size=n))]
    if n > 1:
        ci[0], ci[-1] = pool[0], pool[1]
    rs.shuffle(ci)
    ci = ci.astype(np.int64) if kind in ('int', 'bin', 'dir', 'bool', 'booldiag', 'emptyint', 'emptybool') else ci.astype(np.float32 if kind == 'f32' else float)
    if kind == 'naninf':
        ci[1] = np.nan
    return ci


def distmat(kind, rs, n=None):
    n = N if n is None else n
    if kind in ('single',):
        return np.zeros((1, 1))
    if kind == 'stoch':
        return special_mat('stoch', rs, n)
    xyz = rs.rand(n, 3) * 10
    D = np.sqrt(((xyz[:, None, :] - xyz[None, :, :]) ** 2).sum(-1))
    D = np.round(D * 4) / 4 + (1 - np.eye(n)) * 0.25
    if kind == 'naninf':
        D[0, 2] = D[2, 0] = np.nan
        D[1, 4] = D[4, 1] = np.inf
        return D
    if kind in ('bool', 'booldiag', 'disc'):      # distances in a graph with two components
        h = n // 2
        D[:h, h:] = np.inf
        D[h:, :h] = np.inf
        return D
    if kind in ('wdiag', 'signed', 'int'):
        D[np.arange(n), np.arange(n)] = 1.0
    if kind == 'int':
        D = np.round(D).astype(np.int64) + (1 - np.eye(n, dtype=np.int64))
    return D


MATS = {'W', 'CIJ', 'A', 'R', 'G', 'Gw', 'adj', 'adjacency', 'CIJ0', 'm1', 'm2', 'L', 'Atgt', 'sc', 'a1', 'a2'}
LABELS = {'ci', 'kci', 'cx', 'cy', 'c'}
SCALARS = {'gamma': 1, 'itr': 2, 'k': 2, 'tau': 0.3, 'reps': 3, 'flag': 0, 's': 2, 'thr': 1.5, 'p': 0.5, 'nr_steps': 2,
           'lamb': 0.5, 'd': 0.85, 'qmax': 3, 'source': 0, 'cq_thr': 3, 'avgdeg': 2, 'alpha': 0.5, 'maxswap': 2,
           'directed': True, 'H': 25, 'max_hops': 5, 'bin_swaps': 2, 'wei_freq': 0.5, 'wcm': 'normalize', 'beta': None}


def generic(name, sig, kind, rs):
    out = {}
    for p, prm in sig.parameters.items():
        if p in ('seed', 'copy'):
            continue
        if p in MATS:
            out[p] = mat(kind, rs)
        elif p == 'D':
            out[p] = distmat(kind, rs)
        elif p in LABELS:
            out[p] = labels(kind, rs)
        elif p in SCALARS and SCALARS[p] is not None:
            out[p] = SCALARS[p]
        elif prm.default is not inspect.Parameter.empty:
            continue
        else:
            return None
    return out


def _override(name, kind, rs):
    n = N
    if name == 'adjacency_plot_und':
        return {'A': mat(kind, rs), 'coor': rs.rand(n, 3)}
    if name == 'agreement':
        return {'ci': np.stack([labels(kind, rs) for _ in range(4)], axis=1)}
    if name == 'agreement_weighted':
        return {'ci': np.stack([labels(kind, rs) for _ in range(4)], axis=1), 'wts': np.array([.1, .2, .3, .4])}
    if name == 'dummyvar':
        return {'cis': np.stack([labels('int', rs) for _ in range(3)], axis=1)}
    if name == 'cuberoot':
        return {'x': mat(kind, rs)}
    if name == 'teachers_round':
        return {'x': 2.5}
    if name == 'cycprob':
        return {'Pq': np.floor(rs.rand(n, n, 4) * 3)}
    if name == 'find_motif34':
        return {'m': 3, 'n': 3}
    if name == 'findpaths':
        return {'CIJ': mat(kind, rs, dens=0.3), 'qmax': 1, 'sources': np.array([0, 1])}    # qmax >= 2 dies in a progress print
    if name == 'logtransform':
        W = mat(kind, rs)
        if W.dtype.kind == 'f':
            W = (np.abs(np.nan_to_num(W, nan=1.0, posinf=2.0)) + 1.0) / 12.0      # every weight in (0, 1]
        return {'W': W}
    if name == 'participation_coef_sparse':
        import scipy.sparse as sp
        return {'W': sp.csr_matrix(np.nan_to_num(mat(kind, rs).astype(float), nan=0.0, posinf=0.0)), 'ci': labels('int', rs)}
    if name == 'reorder_mod':
        return {'A': mat(kind, rs), 'ci': np.array([1, 1, 2, 2, 3, 3])}
    if name == 'ls2ci':
        return {'ls': [[0, 1, 2], [3, 4, 5]]}
    if name == 'grid_communities':
        return {'c': labels(kind, rs)}
    if name == 'get_rng':
        return {'seed': 5}
    big = N > 12          # size axis
    if name == 'pick_four_unique_nodes_quickly':
        return {'n': N if big else 7}
    if name in ('makerandCIJ_dir', 'makerandCIJ_und'):
        return {'n': N, 'k': 3 * N} if big else {'n': 7, 'k': 9}
    if name == 'makeringlatticeCIJ':
        return {'n': N, 'k': 4 * N - 3} if big else {'n': 7, 'k': 10}          # band cells > k: the excess is removed at random
    if name == 'maketoeplitzCIJ':
        return {'n': 8, 'k': 20, 's': 3.0}
    if name == 'makeevenCIJ':
        if big:
            p2 = 1 << (N.bit_length() - 1)
            return {'n': p2, 'k': 4 * p2, 'sz_cl': 2}
        return {'n': 8, 'k': 30, 'sz_cl': 2}      # 24 cluster cells < k: the rest is placed at random
    if name == 'makefractalCIJ':
        return {'mx_lvl': min(8, N.bit_length() - 1) if big else 3, 'E': 2.0, 'sz_cl': 2}
    if name == 'makerandCIJdegreesfixed':
        if big:
            return {'inv': np.full(N, 2), 'outv': np.full(N, 2)}
        return {'inv': np.array([1, 2, 1, 2, 1, 1]), 'outv': np.array([2, 1, 2, 1, 1, 1])}
    if name == 'make_motif34lib':
        return None          # writes motif34lib.mat into the package directory
    if name == 'nbs_bct':
        m = min(N, 40) if big else 5
        x = rs.rand(m, m, 6)
        y = rs.rand(m, m, 6) + 0.8
        a = {'x': x + x.transpose(1, 0, 2), 'y': y + y.transpose(1, 0, 2), 'thresh': 1.5, 'k': 6}
        # the input flavours select nbs_bct's configurations: the paired design draws sign flips, not permutations
        # (seeded change C05-9: that branch took its random numbers from the global generator)
        if kind == 'bin':
            a['paired'] = True
        elif kind == 'dir':
            a['tail'] = 'left'
        return a
    if name == 'navigation_wu':
        return {'L': mat(kind, rs), 'D': distmat(kind, rs), 'max_hops': 5}
    if name == 'randomize_graph_partial_und':
        return {'A': mat(kind, rs), 'B': np.zeros((n, n)), 'maxswap': 2}
    if name == 'randomizer_bin_und':
        return {'R': mat(kind, rs, dens=0.4), 'alpha': 0.5}
    if name == 'rentian_scaling':
        m = N if big else 8
        return {'A': mat(kind, rs, n=m), 'xyz': rs.rand(m, 3) * 10, 'n': 6}
    if name == 'retrieve_shortest_path':
        hops = np.ones((n, n)) * 2
        np.fill_diagonal(hops, 0)
        Pmat = np.tile(np.arange(n), (n, 1))
        return {'s': 0, 't': 3, 'hops': hops, 'Pmat': Pmat}
    if name == 'resource_efficiency_bin':
        return {'adj': mat(kind, rs), 'lamb': 0.5}
    if name == 'pagerank_centrality':
        a = {'A': mat(kind, rs), 'd': 0.85}
        fv = prob_vector(kind, len(a['A']))
        if fv is not None:
            a['falff'] = fv         # initial probabilities, float sum exactly 1.0 / one-hot / int / bool / float32
        return a
    if name == 'writetoPAJ':
        return {'CIJ': mat(kind, rs), 'fname': os.path.join(tempfile.gettempdir(), 'verif_paj_%d.net' % os.getpid()), 'directed': True}
    if name == 'generate_fc':
        return {'sc': mat(kind, rs), 'beta': np.array([0.1, 0.5, 0.2, 0.3]), 'ed': distmat('und', rs),
                'pred_var': ('ed', 'SPLwei_log', 'SIwei_log'), 'model': 'linear'}
    if name == 'generative_model':
        mt = {'und': 'matching', 'bin': 'neighbors', 'dir': 'clu-avg', 'wdiag': 'deg-avg', 'signed': 'euclidean', 'int': 'matching'}.get(kind, 'matching')
        m = min(N, 33) if big else 8
        A = np.zeros((m, m))
        A[0, 1] = A[1, 0] = A[2, 3] = A[3, 2] = 1
        if kind == 'int':
            A = A.astype(np.int64)
        # several (eta, gamma) pairs in one call for some flavours: every pair must continue the one seeded stream
        eta, gam = (np.array([-2.0, -1.0, -3.0]), np.array([0.5, 0.3, 0.4])) if kind in ('bin', 'dir', 'wdiag', 'signed') else (np.array([-2.0]), np.array([0.5]))
        return {'A': A, 'D': distmat('und', rs, n=m), 'm': m - 1, 'eta': eta, 'gamma': gam, 'model_type': mt}
    if name == 'evaluate_generative_model':
        A = np.zeros((8, 8))
        A[0, 1] = A[1, 0] = A[2, 3] = A[3, 2] = 1
        eta, gam = (np.array([-2.0, -1.0]), np.array([0.5, 0.3])) if kind in ('bin', 'dir') else (np.array([-2.0]), np.array([0.5]))
        return {'A': A, 'Atgt': mat('bin', rs, n=8, dens=0.3), 'D': distmat('und', rs, n=8), 'eta': eta,
                'gamma': gam, 'model_type': 'matching'}
    if name == 'consensus_und':
        D = rs.rand(n, n)
        D = (D + D.T) / 2
        D[:3, :3] += 1
        D[3:, 3:] += 1
        D = D / D.max()
        if kind in ('wdiag', 'signed', 'int'):
            D[np.arange(n), np.arange(n)] = 1.0
        else:
            np.fill_diagonal(D, 0)
        return {'D': D, 'tau': 0.3, 'reps': 3}
    if name == 'core_periphery_dir':
        return {'W': mat(kind, rs)}
    if name in ('latmio_dir', 'latmio_und', 'latmio_dir_connected', 'latmio_und_connected'):
        return {'R': mat(kind, rs), 'itr': 2, 'D': distmat('und', rs) if kind in ('und', 'signed') else None}
    if name in ('threshold_absolute',):
        return {'W': mat(kind, rs), 'thr': 2.5}
    if name in ('weight_conversion',):
        return {'W': mat(kind, rs), 'wcm': {'und': 'normalize', 'bin': 'binarize', 'dir': 'lengths'}.get(kind, 'normalize')}
    if name in ('align_matrices',):
        return {'m1': mat(kind, rs), 'm2': mat(kind, rs), 'H': 25}
    if name in ('reorderMAT',):
        return {'m': mat(kind, rs), 'H': 25}
    if name in ('reorder_matrix',):
        return {'m1': mat(kind, rs), 'H': 25}
    if name in ('rout_efficiency', 'charpath'):
        return {'D': distmat(kind, rs)}
    if name in ('modularity_dir', 'modularity_und'):
        return {'A': mat(kind, rs)}
    if name in ('kcore_bd', 'kcore_bu'):
        return {'CIJ': mat(kind, rs), 'k': 2}
    if name == 'score_wu':
        return {'CIJ': mat(kind, rs), 's': 8}
    if name == 'breadth':
        return {'CIJ': mat(kind, rs), 'source': 0}
    if name == 'clique_communities':
        return {'A': mat(kind if kind in ('int', 'bool', 'booldiag') else 'bin', rs, dens=0.8), 'cq_thr': 3}
    return 'generic'


def build(name, func, kind, rs, flags=None, n=None):
    """n: size axis (number of nodes); kind 'single' is the one-node network"""
    if kind == 'single' and n is None:
        n = 1
    if n is not None and n != N:
        with sized(n):
            return build(name, func, kind, rs, flags, None)
    o = _override(name, kind, rs)
    if o is None:
        return None
    if o == 'generic':
        try:
            sig = inspect.signature(func)
        except (TypeError, ValueError):
            return None
        o = generic(name, sig, kind, rs)
        if o is None:
            return None
    if flags:
        o = dict(o)
        o.update(flags)
    return o


NOT_FLAGS = {'seed', 'copy', 'fname'}
_GM_TYPES = ['matching', 'neighbors', 'euclidean', 'clu-avg', 'clu-diff', 'clu-max', 'clu-min', 'clu-prod',
             'deg-avg', 'deg-diff', 'deg-max', 'deg-min', 'deg-prod']
# choices that the docstrings do not quote (read off the code's dispatch)
EXTRA_FLAGS = {'generative_model': [('model_type', _GM_TYPES), ('model_var', ['powerlaw', 'exponential'])],
               'evaluate_generative_model': [('model_type', _GM_TYPES), ('model_var', ['powerlaw', 'exponential'])],
               'clustering_coef_wu_sign': [('coef_type', ['default', 'zhang', 'constantini'])],
               'weight_conversion': [('wcm', ['normalize', 'binarize', 'lengths'])]}


def flag_space(func):
    """[(parameter, [values])] for the boolean / small-enum keyword parameters of func: bool default -> both values;
    str default (or None default) with quoted choices in the parameter's docstring paragraph -> default + choices;
    an int parameter called `flag` -> 0..4 (the assortativity conventions)"""
    import re
    try:
        sig = inspect.signature(func)
    except (TypeError, ValueError):
        return []
    doc = (func.__doc__ or '').split('\n')
    out = []
    for p, prm in sig.parameters.items():
        if p in NOT_FLAGS or prm.default is inspect.Parameter.empty:
            continue
        d = prm.default
        block, on = [], False
        for ln in doc:
            if re.match(r'\s*%s\s*:' % re.escape(p), ln):
                on = True
                block.append(ln)
                continue
            if on:
                if re.match(r'\s*[A-Za-z_][A-Za-z0-9_, ]*\s*:\s', ln) or re.match(r'\s*(Returns|Notes|References)\s*$', ln):
                    break
                block.append(ln)
        choices = []
        for tok in re.findall(r"'([A-Za-z0-9_\-]+)'|\"([A-Za-z0-9_\-]+)\"", ' '.join(block)):
            t = tok[0] or tok[1]
            if t not in choices:
                choices.append(t)
        if isinstance(d, bool):
            out.append((p, [d, not d]))
        elif isinstance(d, str):
            vals = [d] + [c for c in choices if c != d]
            if len(vals) > 1:
                out.append((p, vals))
        elif d is None and choices and re.search(r'str|enum', ' '.join(block[:1]), re.I):
            out.append((p, [None] + choices))
        elif isinstance(d, int) and p == 'flag':
            out.append((p, [0, 1, 2, 3, 4]))
    for p, vals in EXTRA_FLAGS.get(getattr(func, '__name__', ''), []):
        out = [(q, v) for q, v in out if q != p] + [(p, vals)]
    return out


def flag_combos(func, rs, cap=16):
    """all combinations of flag_space(func) (defaults first); beyond `cap` a random sample that keeps the default
    combination and, for every single flag value, at least one combination containing it"""
    import itertools
    sp = flag_space(func)
    if not sp:
        return [{}]
    names = [p for p, _ in sp]
    total = 1
    for _, v in sp:
        total *= len(v)
    if total <= cap:
        return [dict(zip(names, c)) for c in itertools.product(*[v for _, v in sp])]
    combos = [dict((p, v[0]) for p, v in sp)]
    for p, v in sp:                      # one-at-a-time deviations from the defaults
        for x in v[1:]:
            c = dict(combos[0])
            c[p] = x
            if c not in combos:
                combos.append(c)
    tries = 0
    while len(combos) < max(cap, 0) and tries < 200:
        tries += 1
        c = dict((p, v[int(rs.randint(len(v)))]) for p, v in sp)
        if c not in combos:
            combos.append(c)
    if len(combos) > cap:
        keep = [combos[0]] + [combos[1 + int(i)] for i in rs.permutation(len(combos) - 1)[:cap - 1]]
        combos = keep
    return combos


def is_sparse(v):
    return type(v).__module__.startswith('scipy.sparse')


def deep_copy(v):
    if isinstance(v, np.ndarray):
        return v.copy()
    if is_sparse(v):
        return v.copy()
    if isinstance(v, (list, tuple)):
        return type(v)(deep_copy(x) for x in v)
    if isinstance(v, dict):
        return {k: deep_copy(x) for k, x in v.items()}
    return v


def same(a, b):
    """element-for-element identical, including dtype and shape (NaN equals NaN); scipy.sparse matrices: same class,
    shape, dtype and identical storage arrays (data / indices / indptr, or row / col for COO)"""
    if is_sparse(a) or is_sparse(b):
        if type(a) is not type(b) or a.shape != b.shape or a.dtype != b.dtype:
            return False
        for at in ('data', 'indices', 'indptr', 'row', 'col', 'offsets'):
            if hasattr(a, at) != hasattr(b, at):
                return False
            if hasattr(a, at) and not same(np.asarray(getattr(a, at)), np.asarray(getattr(b, at))):
                return False
        return True
    if isinstance(a, np.ndarray) or isinstance(b, np.ndarray):
        if not (isinstance(a, np.ndarray) and isinstance(b, np.ndarray)):
            return False
        if a.dtype != b.dtype or a.shape != b.shape:
            return False
        if a.dtype.kind in 'fc':
            return bool(np.array_equal(a, b, equal_nan=True))
        return bool(np.array_equal(a, b))
    if isinstance(a, (list, tuple)) or isinstance(b, (list, tuple)):
        return type(a) == type(b) and len(a) == len(b) and all(same(x, y) for x, y in zip(a, b))
    if isinstance(a, dict) or isinstance(b, dict):
        return isinstance(a, dict) and isinstance(b, dict) and a.keys() == b.keys() and all(same(a[k], b[k]) for k in a)
    if isinstance(a, float) and isinstance(b, float) and a != a and b != b:
        return True
    try:
        return type(a) == type(b) and bool(a == b)
    except Exception:
        return a is b


def same_value(a, b):
    """results equal (used by C05): like `same` but scalars compare by value only"""
    if isinstance(a, np.ndarray) and isinstance(b, np.ndarray):
        return same(a, b)
    if isinstance(a, (list, tuple)) and isinstance(b, (list, tuple)):
        return len(a) == len(b) and all(same_value(x, y) for x, y in zip(a, b))
    if isinstance(a, dict) and isinstance(b, dict):
        return a.keys() == b.keys() and all(same_value(a[k], b[k]) for k in a)
    try:
        if a != a and b != b:
            return True
        r = (a == b)
        return bool(r.all()) if hasattr(r, 'all') else bool(r)
    except Exception:
        return False


def jsonable(v):
    if isinstance(v, np.ndarray):
        return {'dtype': str(v.dtype), 'shape': list(v.shape), 'data': v.tolist()}
    if isinstance(v, (list, tuple)):
        return [jsonable(x) for x in v]
    if isinstance(v, dict):
        return {k: jsonable(x) for k, x in v.items()}
    if isinstance(v, (np.integer,)):
        return int(v)
    if isinstance(v, (np.floating,)):
        return float(v)
    return v


def unjson(v):
    if isinstance(v, dict) and set(v) == {'dtype', 'shape', 'data'}:
        return np.array(v['data'], dtype=v['dtype']).reshape(v['shape'])
    if isinstance(v, list):
        return [unjson(x) for x in v]
    if isinstance(v, dict):
        return {k: unjson(x) for k, x in v.items()}
    return v
