"""Correspondence of the Lean model `Bct.RandBin` with the real `bct.randomizer_bin_und` (C01, part B).

`correspond(ck, cases, results)` takes the cases / results that harness/props/c01.py already produced with
`rewire_common.gen_cases` / `rewire_common.run_case` (routine 'randomizer_bin_und': matrix, alpha, recorded draws,
real output or exception), replays every one of them through the Lean driver `Main/RandBin.lean` and compares by
exact matrix equality (plus: all recorded draws consumed, same error kind).  A disagreement is a correspondence
break (`ck.corr_break`), not by itself a violation.  It also adds a few hand-made cases aimed at the mechanisms
(complement, full node, weighted input that must be binarised, asymmetric input that must be rejected, alpha = 0,
an alpha that is not dyadic) which are run on the real code here under the watchdog.
"""
import fractions
import numpy as np
from common import *  # noqa
import rewire_common as rc

ROUTINE = 'randomizer_bin_und'


def lean_line(case, res):
    A = np.array(case['A']); n = len(A)
    f = fractions.Fraction(float(case['alpha']))
    return '%s n=%d alpha=%d/%d R=%s draws=%s' % (ROUTINE, n, f.numerator, f.denominator, mat_str(A),
                                                  ','.join(map(str, res['draws'])) or '-')


def expected_line(case, res):
    if res['status'] == 'exc':
        return 'error=' + exc_kind(res['exc'])
    return 'R=%s left=0' % mat_str(np.array(res['R']))


def extra_cases(rs):
    """mechanism-directed cases; every random choice from rs"""
    out = []

    def add(A, alpha, **kw):
        c = dict({'routine': ROUTINE, 'A': np.asarray(A, dtype=float).tolist(), 'itr': 1, 'alpha': float(alpha),
                  'seed': int(rs.randint(2 ** 31))}, **kw)
        if rs.rand() < .5:
            c['dtype'] = rc.pick_dtype(rs, np.asarray(A))     # bool / uint8 / int storage of the same network
        out.append(c)
    for n in (5, 6, 7, 8):
        ring = np.zeros((n, n))
        for x in range(n):
            ring[x, (x + 1) % n] = ring[(x + 1) % n, x] = 1
        add(ring, 1.0); add(ring, 0.3)                        # sparse: no complement
        add(1 - ring - np.eye(n), 1.0)                        # dense: complemented
        star = ring.copy(); star[0, :] = 1; star[:, 0] = 1; star[0, 0] = 0
        add(star, 1.0)                                        # node 0 fully connected (only when not complemented)
        dense = 1 - ring - np.eye(n); dense[1, :] = 0; dense[:, 1] = 0
        add(dense, 1.0)                                       # isolated node = full node of the complement
        W = np.triu(rs.randint(2, 9, size=(n, n)), 1)
        add(ring * (W + W.T), 1.0)                            # weighted, symmetric: must be binarised
        add(ring, 0.0)
    for _ in range(6):
        n = int(rs.randint(4, 8)); A = rand_graph(rs, n, .5, True)
        if not np.array_equal(A != 0, (A != 0).T):
            add(A, 1.0, malformed='asymmetric')
    add(np.ones((5, 5)) - np.eye(5), 1.0)                      # complete graph: "No possible randomization"
    add(np.zeros((5, 5)), 1.0)                                 # empty graph
    return out


def correspond(ck, cases, results):
    """cases/results: the lists c01.py iterates over (other routines are ignored)."""
    pairs = [(c, r) for c, r in zip(cases, results) if c['routine'] == ROUTINE and r['status'] in ('ok', 'exc')]
    extra = []
    if not ck.replay:
        ex = extra_cases(ck.rs)
        extra = [(c, r) for c, r in zip(ex, pmap(rc.run_case, ex)) if r['status'] in ('ok', 'exc')]
        pairs += extra
    for c, r in extra:
        # the hand-made cases also go through the property predicates (valid inputs only)
        ck.count('randbin_extra_cases')
        if c.get('malformed'):
            if not (r['status'] == 'exc' and exc_kind(r['exc']) == 'BCTParamError'):
                ck.violation(ROUTINE, 'rejects-asymmetric', {'case': c, 'status': r['status'], 'output': r.get('R')}, {'routine': ROUTINE})
            continue
        if r['status'] == 'exc' and exc_kind(r['exc']) != 'BCTParamError':
            ck.violation(ROUTINE, 'raises', {'case': c, 'exception': r['exc']}, {'routine': ROUTINE})
        for pred, info in r['fails']:
            ck.violation(ROUTINE, pred, {'case': c, 'output': r.get('R'), 'info': info}, {'routine': ROUTINE})
    lines = [lean_line(c, r) for c, r in pairs]
    try:
        outs = run_driver('RandBin', lines)
    except DriverError as e:
        ck.corr_break('RandBin driver', str(e)); return
    nd = 0
    for (c, r), o in zip(pairs, outs):
        exp = expected_line(c, r)
        ck.count('randbin_swapped' if r['status'] == 'ok' and r.get('R') != (np.array(c['A']) != 0).astype(float).tolist() else 'randbin_unchanged_or_rejected')
        if o != exp:
            nd += 1
            if nd <= 5:
                ck.corr_break('RandBin model vs bct.randomizer_bin_und', {'case': c, 'draws': r['draws'], 'model': o[:400], 'impl': exp[:400]})
    ck.cov['traces_validated_against_impl'] = ck.cov.get('traces_validated_against_impl', 0) + len(outs) - nd
    ck.count('randbin_correspondence_cases', len(outs)); ck.count('randbin_correspondence_disagreements', nd)
