import sys
"""Case generation, execution and independent oracles shared by C02 (valid partition + true modularity)
and C07 (optimisers never return a partition worse than their start).

Everything that touches bct runs under the watchdog `common.call`.  The oracles recompute the quality
functions from their definitions with integer / `fractions.Fraction` arithmetic (exact for the integer
weights and dyadic gammas generated here) by plain O(n^2) loops, independent of the bookkeeping in bct."""
import numpy as np
from fractions import Fraction as Fr
from common import *  # noqa
sys.path.insert(0, os.path.join(VERIF, 'translate')); import cores  # noqa: E402

TOL = 1e-9
GAMMAS = ['3/4', '1', '5/4']
QTYPES = ['sta', 'pos', 'smp', 'gja', 'neg']
OBJECTIVES = ['modularity', 'potts', 'negative_sym', 'negative_asym', 'custom']
UND = {'modularity_finetune_und', 'modularity_louvain_und', 'modularity_und'}
DIR = {'modularity_finetune_dir', 'modularity_louvain_dir', 'modularity_dir'}
SIGN = {'modularity_finetune_und_sign', 'modularity_louvain_und_sign', 'modularity_probtune_und_sign', 'modularity_und_sign'}
OPTIMISERS = ['modularity_finetune_und', 'modularity_finetune_dir', 'modularity_finetune_und_sign',
              'modularity_louvain_und', 'modularity_louvain_dir', 'modularity_louvain_und_sign', 'community_louvain']
TAKES_CI = {'modularity_finetune_und', 'modularity_finetune_dir', 'modularity_finetune_und_sign', 'community_louvain',
            'modularity_probtune_und_sign'}
HIER = {'modularity_louvain_und', 'modularity_louvain_dir'}
GIVEN = ['modularity_und', 'modularity_dir', 'modularity_und_sign']
C02_PREDS = {'labels-1..k', 'q-equals-Q', 'given-partition-q', 'given-partition-labels', 'raises', 'result-depends-on-history'}
C07_PREDS = {'not-worse-than-start', 'hierarchy-increasing', 'feedback-not-lower', 'result-depends-on-history'}


# ------------------------------------------------------------------ exact oracles (definitions)

def _same_pairs(ci):
    n = len(ci)
    return [(i, j) for i in range(n) for j in range(n) if ci[i] == ci[j]]


def q_dir(W, ci, g):
    """Q = (1/s) sum_{ci=cj} (W_ij - g*kout_i*kin_j/s)   (Leicht-Newman; equals the undirected Q on symmetric W)"""
    n = len(W)
    s = sum(sum(r) for r in W)
    ko = [sum(W[i]) for i in range(n)]
    ki = [sum(W[i][j] for i in range(n)) for j in range(n)]
    a = b = 0
    for i, j in _same_pairs(ci):
        a += W[i][j]
        b += ko[i] * ki[j]
    return Fr(a, s) - g * Fr(b, s * s)


def q_und(W, ci, g):
    """Q = (1/s) sum_{ci=cj} (W_ij - g*k_i*k_j/s), k = strength (row sums), for symmetric W"""
    n = len(W)
    s = sum(sum(r) for r in W)
    k = [sum(W[i]) for i in range(n)]
    a = b = 0
    for i in range(n):
        for j in range(n):
            if ci[i] == ci[j]:
                a += W[i][j]
                b += k[i] * k[j]
    return Fr(a, s) - g * Fr(b, s * s)


def sign_parts(W):
    n = len(W)
    W0 = [[max(x, 0) for x in r] for r in W]
    W1 = [[max(-x, 0) for x in r] for r in W]
    return W0, W1, sum(map(sum, W0)), sum(map(sum, W1))


def sign_scales(qtype, s0, s1):
    """(d0, d1) of Rubinov & Sporns 2011 as documented in the signed routines; absent sign => its term vanishes"""
    inv = lambda x: Fr(1, x) if x else Fr(0)
    d0, d1 = {'smp': (inv(s0), inv(s1)), 'gja': (inv(s0 + s1), inv(s0 + s1)), 'sta': (inv(s0), inv(s0 + s1)),
              'pos': (inv(s0), Fr(0)), 'neg': (Fr(0), inv(s1))}[qtype]
    if not s0:
        d0 = Fr(0)
    if not s1:
        d1 = Fr(0)
    return d0, d1


def _q_part(Wp, sp, ci, g):
    """sum_{ci=cj} (Wp_ij - g*kout_i*kin_j/sp)  (0 if that sign is absent)"""
    if not sp:
        return Fr(0)
    n = len(Wp)
    ko = [sum(Wp[i]) for i in range(n)]
    ki = [sum(Wp[i][j] for i in range(n)) for j in range(n)]
    a = b = 0
    for i, j in _same_pairs(ci):
        a += Wp[i][j]
        b += ko[i] * ki[j]
    return a - g * Fr(b, sp)


def q_sign(W, ci, g, qtype):
    W0, W1, s0, s1 = sign_parts(W)
    d0, d1 = sign_scales(qtype, s0, s1)
    return d0 * _q_part(W0, s0, ci, g) - d1 * _q_part(W1, s1, ci, g)


def q_potts(W, ci, g):
    """(1/s) sum_{ci=cj} (W_ij - g*[W_ij == 0])  — the Potts Hamiltonian objective of community_louvain"""
    s = sum(map(sum, W))
    t = Fr(0)
    for i, j in _same_pairs(ci):
        t += W[i][j] - g * (1 if W[i][j] == 0 else 0)
    return t / s


def q_custom(B, W, ci):
    s = sum(map(sum, W))
    return Fr(sum(Fr(B[i][j]) for i, j in _same_pairs(ci))) / s


def case_W(case):
    """the weights the routine really sees: the integer matrix times the exact dyadic factor 2**scale (as Fractions)"""
    e = case.get('scale')
    if not e:
        return case['W']
    c = Fr(2) ** e
    return [[Fr(x) * c for x in row] for row in case['W']]


LARGE_N = 40       # beyond this size the Lean model is too slow: runs are judged by the Python oracles only


def _same_mask(ci):
    a = np.asarray([int(x) for x in ci])
    return a[:, None] == a[None, :]


def _part_fast(Wp, M, g):
    """(sum_{same} Wp, sum_{same} kout_i*kin_j, total) in exact integer arithmetic (object arrays of Python ints)"""
    ko = Wp.sum(axis=1); ki = Wp.sum(axis=0)
    return int((Wp * M).sum()), int((np.outer(ko, ki) * M).sum()), int(Wp.sum())


def true_q_fast(case, ci):
    """the same definitions as below, vectorised over an n x n same-module mask with exact Python-int arithmetic
    (used for n > LARGE_N, unscaled integer weights; cross-checked against the loop version in `_selftest_oracles`)"""
    r = case['routine']; g = Fr(case['gamma'])
    W = np.array(case['W'], dtype=object); M = _same_mask(ci).astype(object)
    o = case.get('opt')
    if r in UND or r in DIR or (r == 'community_louvain' and o == 'modularity'):
        a, b, s = _part_fast(W, M, g)
        return Fr(a, s) - g * Fr(b, s * s)
    if r == 'community_louvain' and o == 'potts':
        s = int(W.sum())
        return (int((W * M).sum()) - g * int(((W == 0).astype(object) * M).sum())) / Fr(s)
    if r == 'community_louvain' and o == 'custom':
        return Fr(int((np.array(case['B'], dtype=object) * M).sum()), int(W.sum()))
    qtype = {'negative_sym': 'gja', 'negative_asym': 'sta'}.get(o, o) if r == 'community_louvain' else o
    if r == 'modularity_und_sign':
        g = Fr(1)
    W0 = np.where(W > 0, W, 0).astype(object); W1 = np.where(W < 0, -W, 0).astype(object)
    a0, b0, s0 = _part_fast(W0, M, g); a1, b1, s1 = _part_fast(W1, M, g)
    d0, d1 = sign_scales(qtype, s0, s1)
    q0 = (a0 - g * Fr(b0, s0)) if s0 else Fr(0)
    q1 = (a1 - g * Fr(b1, s1)) if s1 else Fr(0)
    return d0 * q0 - d1 * q1


def true_q(case, ci):
    """the quality function the routine of `case` claims to optimise / report, evaluated on partition ci"""
    if len(case['W']) > LARGE_N and not case.get('scale') and all(isinstance(x, int) for x in case['W'][0]):
        return true_q_fast(case, ci)
    r = case['routine']; W = case_W(case); g = Fr(case['gamma'])
    if r in UND:
        return q_und(W, ci, g)
    if r in DIR:
        return q_dir(W, ci, g)
    if r in SIGN:
        return q_sign(W, ci, (Fr(1) if r == 'modularity_und_sign' else g), case['opt'])
    o = case['opt']
    if o == 'modularity':
        return q_dir(W, ci, g)
    if o == 'potts':
        return q_potts(W, ci, g)
    if o == 'negative_sym':
        return q_sign(W, ci, g, 'gja')
    if o == 'negative_asym':
        return q_sign(W, ci, g, 'sta')
    return q_custom(case['B'], W, ci)


def labels_ok(ci, n):
    """one integer label per node, labels exactly {1..k}"""
    try:
        a = np.asarray(ci)
        if a.shape != (n,):
            return False
        l = [x for x in a.tolist()]
        if any(int(x) != x for x in l):
            return False
        l = [int(x) for x in l]
        return set(l) == set(range(1, max(l) + 1))
    except Exception:  # noqa
        return False


def close(q, Q, tol=None):
    try:
        q = float(q)
    except Exception:  # noqa
        return False
    return q == q and abs(q - float(Q)) <= (tol or TOL) * max(1.0, abs(float(Q)))


def case_tol(case):
    """float32 storage: "floating-point accuracy" is single precision"""
    return 1e-5 if case.get('variant') == 'float32' else TOL


def is_sym(W):
    n = len(W)
    return all(W[i][j] == W[j][i] for i in range(n) for j in range(n))


# ------------------------------------------------------------------ running one case

class Rec2(Recorder):
    """Recorder that also counts the permutations drawn so far (= number of the current sweep)"""

    def __init__(self, seed):
        super().__init__(seed)
        self.nperm = 0

    def permutation(self, x):
        self.nperm += 1
        return super().permutation(x)


_MOVE_RE = re.compile(r'^\s*(ci|m|Mb)\[(u|i)\]\s*=\s*(mb|j)\s*\+\s*1')


def _move_lines(f):
    """line numbers of the statements `ci[u] = mb + 1` (the accepted move) in an optimiser -> (node var, target var)"""
    import inspect
    f = inspect.unwrap(f)
    src, first = inspect.getsourcelines(f)
    out = {}
    for k, ln in enumerate(src):
        m = _MOVE_RE.match(ln)
        if m:
            out[first + k] = (m.group(2), m.group(3))
    return f.__code__, out


def _traced(tracer, run, t):
    """run(budget) under sys.settrace(tracer).  The watchdog's SIGALRM can land inside the trace function; CPython then drops the
    tracer for good, so a re-tried attempt would run untraced and leave a truncated record.  Hence: each attempt re-arms the tracer,
    a timed-out attempt is repeated with 10x the budget, and an attempt is accepted only if the tracer was still armed at its end."""
    st = out = rec = None
    for budget in (t, 10 * t, 10 * t):
        sys.settrace(tracer)
        try:
            st, out, rec = run(budget)
        finally:
            alive = sys.gettrace() is tracer
            sys.settrace(None)
        if st != 'timeout' and alive:
            return st, out, rec
    return ('timeout' if st == 'timeout' else 'trace-lost'), out, rec


def trace_moves(bct, case, hierarchy=False, t=10.0):
    """Re-run the real routine under sys.settrace and list the moves it made as (sweep number, node, target slot).
    No change to /repo is needed: the tracer reads the locals at the statement that relabels the node."""
    code, lines = _move_lines(getattr(bct, case['routine']))
    if not lines:
        raise RuntimeError('no statement of the form `ci[u] = mb + 1` found in %s: the source was renamed, moves cannot be traced' % case['routine'])
    hold = {'rec': None}
    moves = []

    def new_rec():
        hold['rec'] = Rec2(case['seed'])
        del moves[:]                      # a re-tried attempt starts over
        return hold['rec']

    def local(frame, event, arg):
        if event == 'line' and frame.f_lineno in lines:
            uv, tv = lines[frame.f_lineno]
            moves.append((hold['rec'].nperm, int(frame.f_locals[uv]), int(frame.f_locals[tv])))
        return local

    def tracer(frame, event, arg):
        return local if frame.f_code is code else None

    st, out, _ = _traced(tracer, lambda budget: invoke(bct, case, case['seed'], case.get('ci0'), hierarchy=hierarchy, t=budget,
                                                       new_rec=new_rec, retry=0), t)
    return st, out, moves


def _trace_task(case):
    """(status, moves) of one re-run under the tracer; picklable for pmap"""
    try:
        st, out, moves = trace_moves(import_bct(), case, hierarchy=case['routine'] in HIER, t=30.0)
        return st, moves
    except Exception as e:  # noqa
        return 'trace-error: %r' % (e,), []


def trace_spectral(bct, case, t=10.0):
    """Run modularity_und/_dir (kci=None) under sys.settrace and record, per `recur` call in call order, the decision the
    eigen-solver + sign flipping produced: 'L' (no positive split) or the final +/- assignment over the module."""
    dec = []

    def make(idx):
        def local(frame, event, arg):
            if event == 'return':
                loc = frame.f_locals
                q, asg = loc.get('q'), loc.get('mod_asgn')
                if q is not None and asg is not None and q > 0:
                    dec[idx] = ''.join('+' if v == 1 else '-' for v in np.asarray(asg).tolist())
                else:
                    dec[idx] = 'L'
            return local
        return local

    def tracer(frame, event, arg):
        c = frame.f_code
        if c.co_name == 'recur' and c.co_filename.endswith('modularity.py'):
            if frame.f_back is None or frame.f_back.f_code.co_name != 'recur':
                del dec[:]                # the root call: a re-tried attempt starts over
            dec.append(None)
            return make(len(dec) - 1)
        return None

    st, out, rec = _traced(tracer, lambda budget: invoke(bct, case, case['seed'], None, t=budget, retry=0), t)
    if st == 'trace-lost':
        return 'ok', out, rec, None
    return st, out, rec, dec


def invoke(bct, case, seed, ci0, hierarchy=False, t=6.0, rec=None, retry=None, new_rec=None):
    """one watched call of the routine of `case`.  A timeout of an in-domain call is re-tried once with 10x the budget - with a
    FRESH recorder and fresh argument arrays, so that the second attempt is the same run (same draws) and not a continuation."""
    if retry is None:
        # in-domain calls are expected to return; the malformed stream may legitimately spin, no retry there
        retry = 0 if case.get('malformed') else 10
    st, out, rc = _invoke_once(bct, case, seed, ci0, hierarchy, t, rec if rec is not None else (new_rec() if new_rec else Rec2(seed)))
    if st == 'timeout' and retry:
        st, out, rc = _invoke_once(bct, case, seed, ci0, hierarchy, t * retry, new_rec() if new_rec else Rec2(seed))
    return st, out, rc


def _invoke_once(bct, case, seed, ci0, hierarchy, t, rec):
    r = case['routine']; A = np.array(case['W'], dtype=float); g = float(Fr(case['gamma']))
    if case.get('scale'):
        A = A * 2.0 ** case['scale']          # exact: power of two
    v = case.get('variant')
    if v == 'fortran':
        A = np.asfortranarray(A)
    elif v in DTYPES:
        A = np.array(case['W'], dtype=DTYPES[v])     # storage type of the caller's matrix
    ci = None if ci0 is None else np.array(ci0, dtype=int)
    f = getattr(bct, r)
    if r == 'community_louvain':
        o = case['opt']
        B = o if o != 'custom' else [[float(Fr(x)) for x in row] for row in case['B']]
        st, out = call(f, A, gamma=g, ci=ci, B=B, seed=rec, t=t)
    elif r in ('modularity_louvain_und', 'modularity_louvain_dir'):
        st, out = call(f, A, gamma=g, hierarchy=hierarchy, seed=rec, t=t)
    elif r == 'modularity_louvain_und_sign':
        st, out = call(f, A, gamma=g, qtype=case['opt'], seed=rec, t=t)
    elif r in ('modularity_finetune_und', 'modularity_finetune_dir'):
        st, out = call(f, A, ci=ci, gamma=g, seed=rec, t=t)
    elif r == 'modularity_finetune_und_sign':
        st, out = call(f, A, qtype=case['opt'], gamma=g, ci=ci, seed=rec, t=t)
    elif r == 'modularity_probtune_und_sign':
        st, out = call(f, A, qtype=case['opt'], gamma=g, ci=ci, p=float(Fr(case['p'])), seed=rec, t=t)
    elif r in ('modularity_und', 'modularity_dir'):
        st, out = call(f, A, gamma=g, kci=ci, t=t)
    elif r == 'modularity_und_sign':
        st, out = call(f, A, ci, qtype=case['opt'], t=t)
    else:
        raise ValueError(r)
    return st, out, rec


def _levels(out, hierarchy):
    ci, q = out
    if hierarchy:
        ci = np.asarray(ci)
        return [(ci[h].tolist(), float(q[h])) for h in range(len(q))]
    return [(np.asarray(ci).tolist(), float(q))]


def is_sentinel(ci, q):
    """the (singletons, -1) placeholder of the Louvain routines handed back as a result"""
    return float(q) == -1.0 and [int(x) for x in ci] == list(range(1, len(ci) + 1))


def cond_of(case, level=None, nlevels=None):
    c = {'routine': case['routine'], 'asymmetric': not is_sym(case['W']), 'opt': case.get('opt')}
    if case.get('scale'):
        c['scale'] = case['scale']
    if case.get('variant'):
        c['variant'] = case['variant']
    if level is not None:
        c['level_ge2'] = level >= 2
    if nlevels is not None:
        c['levels_ge2'] = nlevels >= 2
    return c


def run_case(case):
    """-> dict(status, levels=[(ci,q)], plain=(ci,q)|None, draws, fails=[(pred, info, cond)], Qs, exc)"""
    if case.get('probe'):
        return run_probe(case)
    bct = import_bct()
    r = case['routine']; W = case['W']; n = len(W)
    res = {'status': 'ok', 'fails': [], 'levels': [], 'draws': [], 'extra': {}}
    F = res['fails']
    hier = r in HIER
    if case.get('start_from'):
        # cross-routine refinement: the start is the output of another optimiser on the same network / gamma
        sf = case['start_from']
        sc = dict(case, routine=sf['routine'], opt=sf.get('opt'), ci0=None); sc.pop('start_from')
        st0, out0, _ = invoke(bct, sc, sf['seed'], None, hierarchy=False)
        if st0 != 'ok' or not labels_ok(out0[0], n):
            # the routine that was to provide the start failed on an in-domain input: judged, attributed to that routine
            res['status'] = 'start-' + st0
            sc['seed'] = sf['seed']
            if st0 == 'exc':
                F.append(('raises', {'exception': out0, 'case_of_source': sc}, cond_of(sc)))
            elif st0 == 'ok':
                F.append(('labels-1..k', {'ci': repr(out0[0])[:200], 'case_of_source': sc}, cond_of(sc, 1)))
            return res
        case = dict(case); case.pop('start_from')
        case['ci0'] = [int(x) for x in np.asarray(out0[0]).tolist()]
        case['start_origin'] = '%s:%s:%d' % (sf['routine'], sf.get('opt'), sf['seed'])
        res['case'] = case
    ci0 = case.get('ci0')
    if r in ('modularity_und', 'modularity_dir') and ci0 is None and not case.get('malformed'):
        st, out, rec, dec = trace_spectral(bct, case)
        res['oracle'] = dec
    else:
        st, out, rec = invoke(bct, case, case['seed'], ci0, hierarchy=hier, t=case.get('t', 6.0))
    res['status'] = st
    res['draws'] = rec.flat()
    if st == 'exc':
        res['exc'] = out
        if not case.get('malformed'):
            F.append(('raises', {'exception': out}, cond_of(case)))
        return res
    if st != 'ok':
        return res
    try:
        levels = _levels(out, hier)
    except Exception as e:  # noqa
        F.append(('labels-1..k', {'output': repr(out)[:300], 'error': repr(e)}, cond_of(case)))
        return res
    res['levels'] = levels
    if case.get('malformed'):
        return res
    # ---- C02: labels and reported q, every level
    Qs = []
    for h, (ci, q) in enumerate(levels, start=1):
        if r in GIVEN and ci0 is not None:
            # routine must hand back the given partition (und_sign: relabelled 1..k) and report its Q
            lab = sorted(set(ci0)); rel = [lab.index(x) + 1 for x in ci0]
            want = rel if r == 'modularity_und_sign' else list(ci0)
            if [int(x) for x in ci] != want:
                F.append(('given-partition-labels', {'returned': ci, 'given': ci0}, cond_of(case)))
            Q = true_q(case, ci0)
            Qs.append(Q)
            if not close(q, Q, case_tol(case)):
                F.append(('given-partition-q', {'q': q, 'Q': float(Q), 'Q_exact': str(Q), 'ci': ci0}, cond_of(case)))
            continue
        if not labels_ok(ci, n):
            F.append(('labels-1..k', {'ci': ci, 'level': h}, cond_of(case, h)))
            Qs.append(None)
            continue
        ci = [int(x) for x in ci]
        Q = true_q(case, ci)
        Qs.append(Q)
        if case.get('level1_only') and h >= 2:
            continue      # modularity_louvain_dir without the Lean replay: labels on every level, q = Q on level 1 only (what is true of D6 code)
        if not close(q, Q, case_tol(case)):
            F.append(('q-equals-Q', {'q': q, 'Q': float(Q), 'Q_exact': str(Q), 'ci': ci, 'level': h, 'levels': len(levels)},
                      cond_of(case, h)))
    res['Qs'] = [None if x is None else str(x) for x in Qs]
    # plain (non-hierarchical) call of the hierarchical routines, same seed: the pair it returns must be consistent too
    if hier and not (case.get('level1_only') and len(levels) >= 2):
        st2, out2, rec2 = invoke(bct, case, case['seed'], None, hierarchy=False)
        if st2 == 'ok':
            (ci, q), = _levels(out2, False)
            res['plain'] = (ci, q)
            if not labels_ok(ci, n):
                F.append(('labels-1..k', {'ci': ci, 'plain': True}, cond_of(case, len(levels))))
            else:
                Q = true_q(case, [int(x) for x in ci])
                if not close(q, Q, case_tol(case)):
                    cd = cond_of(case, len(levels))
                    if is_sentinel(ci, q):
                        cd['sentinel_returned'] = True     # the routine handed back its (singletons, -1) placeholder
                    F.append(('q-equals-Q', {'q': q, 'Q': float(Q), 'ci': ci, 'plain': True, 'levels': len(levels)}, cd))
        elif st2 == 'exc':
            F.append(('raises', {'exception': out2, 'plain': True}, cond_of(case)))
        else:
            res['extra']['plain_timeout'] = 1
    # ---- C07
    if r in OPTIMISERS and levels and Qs[-1] is not None and not case.get('level1_only'):
        start = list(ci0) if ci0 is not None else list(range(1, n + 1))
        Q0 = true_q(case, start)
        res['Q0'] = str(Q0)
        top = Qs[-1]
        if top < Q0 - Fr(1, 10 ** 9) * max(1, abs(Q0)):
            F.append(('not-worse-than-start', {'Q_start': float(Q0), 'Q_returned': float(top), 'start': start,
                                               'returned': levels[-1][0], 'levels': len(levels)}, cond_of(case, nlevels=len(levels))))
        if hier and len(levels) > 1:
            for h in range(1, len(levels)):
                if Qs[h] is None or Qs[h - 1] is None:
                    continue
                if not (Qs[h] > Qs[h - 1]) or not (levels[h][1] > levels[h - 1][1]):
                    F.append(('hierarchy-increasing', {'Q_levels': [None if x is None else float(x) for x in Qs], 'q_reported': [l[1] for l in levels],
                                                       'ci_levels': [l[0] for l in levels]}, cond_of(case, nlevels=len(levels))))
                    break
        if hier and levels and Qs[0] is not None and Qs[0] < Q0 - Fr(1, 10 ** 9) * max(1, abs(Q0)):
            F.append(('not-worse-than-start', {'Q_start': float(Q0), 'Q_level1': float(Qs[0]), 'level': 1}, cond_of(case, nlevels=len(levels))))
        # feed the routine's own output back as the start
        if r in TAKES_CI and r != 'modularity_probtune_und_sign':
            st3, out3, rec3 = invoke(bct, case, (case['seed'] * 31 + 7) % (2 ** 31), levels[-1][0])
            if st3 == 'ok':
                (ci3, q3), = _levels(out3, False)
                res['feedback'] = (ci3, q3)
                if labels_ok(ci3, n):
                    Q3 = true_q(case, [int(x) for x in ci3])
                    if Q3 < top - Fr(1, 10 ** 9) * max(1, abs(top)):
                        F.append(('feedback-not-lower', {'Q_first': float(top), 'Q_second': float(Q3), 'first': levels[-1][0], 'second': ci3},
                                  cond_of(case)))
                    if not close(q3, Q3, case_tol(case)):
                        F.append(('q-equals-Q', {'q': q3, 'Q': float(Q3), 'ci': ci3, 'feedback': True, 'level': 1}, cond_of(case, 1)))
                else:
                    F.append(('labels-1..k', {'ci': ci3, 'feedback': True}, cond_of(case, 1)))
            elif st3 == 'exc':
                F.append(('raises', {'exception': out3, 'feedback': True}, cond_of(case)))
            else:
                res['extra']['feedback_timeout'] = 1
    return res


# ------------------------------------------------------------------ Lean lines

def rat_list(M):
    return ','.join(frac_str(Fr(x)) if Fr(x).denominator != 1 else str(int(Fr(x))) for row in M for x in row)


def int_list(v):
    return ','.join(str(int(x)) for x in v) or '-'


REPLAY_OPS = {'modularity_finetune_und': 'finetune_und', 'modularity_louvain_und': 'louvain_und',
              'modularity_finetune_dir': 'finetune_dir', 'modularity_finetune_und_sign': 'finetune_sign',
              'modularity_louvain_und_sign': 'louvain_sign', 'community_louvain': 'community_louvain',
              'modularity_louvain_dir': 'louvain_dir', 'modularity_probtune_und_sign': 'probtune_sign'}


def kind_of(case):
    r = case['routine']
    if r in UND:
        return 'und'
    if r in DIR:
        return 'dir'
    if r in SIGN:
        return 'sign'
    return 'obj'


def q_line(case, ci):
    """ask the model for definition and coded closed form of the quality of partition ci"""
    r = case['routine']; n = len(case['W'])
    s = 'q kind=%s routine=%s n=%d W=%s gamma=%s ci=%s' % (kind_of(case), r, n, rat_list(case['W']),
                                                           ('1' if r == 'modularity_und_sign' else case['gamma']), int_list(ci))
    if case.get('opt') is not None:
        s += ' opt=' + case['opt']
    if case.get('opt') == 'custom':
        s += ' B=' + rat_list(case['B'])
    return s


def replay_line(case, res):
    r = case['routine']; n = len(case['W'])
    s = '%s n=%d W=%s gamma=%s draws=%s' % (REPLAY_OPS[r], n, rat_list(case['W']), case['gamma'], int_list(res['draws']))
    if case.get('ci0') is not None:
        s += ' ci=' + int_list(case['ci0'])
    if case.get('opt') is not None:
        s += ' opt=' + case['opt']
    if case.get('opt') == 'custom':
        s += ' B=' + rat_list(case['B'])
    if r == 'modularity_probtune_und_sign':
        s += ' p=' + frac_str(Fr(float(Fr(case['p']))))
    return s


def parse_levels(o):
    """model output 'levels=ci|ci q=a/b|c/d ...' -> [(ci list, Fraction)]"""
    d = kv(o)
    if 'error' in d or 'levels' not in d:
        return None, d
    cis = [[int(x) for x in c.split(',')] for c in d['levels'].split('|')]
    qs = [Fr(x) for x in d['q'].split('|')]
    return list(zip(cis, qs)), d


# ------------------------------------------------------------------ generators

def set_partitions(n):
    """all restricted-growth strings of length n"""
    def rec(pref, mx):
        if len(pref) == n:
            yield list(pref); return
        for v in range(mx + 2):
            yield from rec(pref + [v], max(mx, v))
    yield from rec([0], 0)


def encode_partition(rs, rg):
    """restricted growth string -> label vector with arbitrary distinct integer labels (tests the relabelling)"""
    k = max(rg) + 1
    mode = rs.randint(3)
    if mode == 0:
        lab = list(range(1, k + 1))
    elif mode == 1:
        lab = rs.permutation(k) + 1
    else:
        lab = rs.choice(np.arange(-3, 25), size=k, replace=False)
    return [int(lab[v]) for v in rg]


def g_und(rs, n, dens, wmax, loops=False):
    A = rand_graph(rs, n, dens, False, wmax)
    if loops:
        for i in range(n):
            if rs.rand() < .3:
                A[i, i] = rs.randint(1, wmax + 1)
    return A


def g_dir(rs, n, dens, wmax, loops=False):
    A = rand_graph(rs, n, dens, True, wmax)
    if loops:
        for i in range(n):
            if rs.rand() < .3:
                A[i, i] = rs.randint(1, wmax + 1)
    return A


def g_dir_adversarial(rs, n, wmax):
    """sparse directed graphs on which in- and out-bookkeeping differ as much as possible"""
    A = np.zeros((n, n)); kind = rs.randint(5)
    p = rs.permutation(n)
    w = lambda: float(rs.randint(1, wmax + 1))
    if kind == 0:      # sources -> sinks only (every node has zero in- or zero out-strength)
        h = max(1, n // 2)
        for i in p[:h]:
            for j in p[h:]:
                if rs.rand() < .6:
                    A[i, j] = w()
    elif kind == 1:    # directed cycle plus a few one-way chords
        for x in range(n):
            A[p[x], p[(x + 1) % n]] = w()
        for _ in range(rs.randint(0, n)):
            i, j = rs.randint(n, size=2)
            if i != j:
                A[i, j] = w()
    elif kind == 2:    # out-star and in-star sharing leaves
        a, b = p[0], p[1]
        for j in p[2:]:
            A[a, j] = w()
            if rs.rand() < .7:
                A[j, b] = w()
    elif kind == 3:    # two directed cliques joined one way
        h = n // 2
        for i in p[:h]:
            for j in p[:h]:
                if i != j and rs.rand() < .8:
                    A[i, j] = w()
        for i in p[h:]:
            for j in p[h:]:
                if i != j and rs.rand() < .8:
                    A[i, j] = w()
        for _ in range(rs.randint(1, 4)):
            A[p[rs.randint(h)], p[h + rs.randint(n - h)]] = w()
    else:              # upper-triangular (acyclic) tournament-like
        for x in range(n):
            for y in range(x + 1, n):
                if rs.rand() < .5:
                    A[p[x], p[y]] = w()
    return A


def g_sign(rs, n, dens, wmax, mode=None):
    A = rand_graph(rs, n, dens, False, wmax, signed=True)
    mode = rs.randint(8) if mode is None else mode
    if mode == 0:
        A = np.abs(A)           # no negative weights (s1 = 0)
    elif mode == 1:
        A = -np.abs(A)          # no positive weights (s0 = 0)
    return A


def g_planted(rs, n, base, group, directed=False, signed=False, wmax=3, p_in=.9, p_mid=.5, n_far=None):
    """sparse hierarchical planted partition: base modules of `base` nodes (dense inside), `group` consecutive base modules
    form a super-module (a few links between its base modules), very few links between super-modules -> several Louvain levels.
    Returns (A, base labels 1..k)."""
    A = np.zeros((n, n)); perm = rs.permutation(n)
    lab = np.zeros(n, dtype=int)
    mods = [perm[i:i + base] for i in range(0, n, base)]
    w = lambda: float(rs.randint(1, wmax + 1))

    def link(i, j, neg=False):
        v = -w() if neg else w()
        A[i, j] = v
        if not directed or rs.rand() < .5:
            A[j, i] = v

    for k, m in enumerate(mods):
        lab[m] = k + 1
        for a in range(len(m)):
            for b in range(a + 1, len(m)):
                if rs.rand() < p_in:
                    link(m[a], m[b]) if rs.rand() < .5 else link(m[b], m[a])
    for k in range(len(mods)):
        for k2 in range(k + 1, len(mods)):
            if k // group == k2 // group and rs.rand() < p_mid:
                link(rs.choice(mods[k]), rs.choice(mods[k2]))
    nsup = (len(mods) + group - 1) // group
    for _ in range(n_far if n_far is not None else max(1, nsup)):
        k, k2 = rs.randint(len(mods)), rs.randint(len(mods))
        if k // group != k2 // group:
            link(rs.choice(mods[k]), rs.choice(mods[k2]), neg=signed and rs.rand() < .6)
    if not directed:
        A = np.triu(A, 1); A = A + A.T
    return A, lab.tolist()


def to_list(A):
    return [[int(x) for x in r] for r in np.asarray(A)]


# recorded inputs of the open known findings (D6): replayed on the real code on every run
WITNESSES = [
    {'routine': 'modularity_louvain_dir', 'W': [[0, 1, 0], [0, 0, 0], [1, 1, 0]], 'gamma': '5/4', 'opt': None, 'ci0': None, 'seed': 628871178},
    {'routine': 'modularity_louvain_dir', 'W': [[0, 0, 1], [3, 0, 3], [0, 3, 0]], 'gamma': '3/4', 'opt': None, 'ci0': None, 'seed': 1607589865},
    {'routine': 'modularity_louvain_dir', 'W': [[0, 1, 0], [1, 0, 0], [1, 0, 0]], 'gamma': '5/4', 'opt': None, 'ci0': None, 'seed': 105741908},
    {'routine': 'modularity_louvain_dir', 'W': [[0, 0, 0, 1, 0, 0, 0, 0], [0, 0, 1, 0, 0, 0, 0, 0], [1, 0, 0, 0, 0, 0, 0, 0], [0, 0, 0, 0, 0, 0, 1, 0],
                                                 [1, 1, 0, 0, 0, 0, 1, 0], [0, 1, 0, 0, 0, 0, 0, 0], [0, 0, 0, 0, 0, 1, 0, 0], [0, 0, 0, 0, 0, 0, 0, 0]],
     'gamma': '5/4', 'opt': None, 'ci0': None, 'seed': 879105211},
    # inputs of the repaired defects M1 (finetune_dir km_o/km_i swap) and M2 (unsymmetrised objectives): must stay clean
    {'routine': 'modularity_finetune_dir', 'W': [[0, 0, 3, 3], [0, 0, 0, 1], [1, 0, 0, 0], [0, 0, 0, 0]], 'gamma': '1', 'opt': None, 'ci0': [3, 3, 3, 1], 'seed': 0},
    {'routine': 'community_louvain', 'W': [[0, -1, -1, 0], [-1, 0, -1, -1], [1, 1, 0, 1], [1, -1, 1, 0]], 'gamma': '3/4', 'opt': 'negative_asym', 'ci0': [0, 0, 0, 0], 'seed': 2072789289},
    {'routine': 'community_louvain', 'W': [[0, 0, 1, 0], [1, 0, 0, 0], [1, 1, 0, 1], [1, 1, 1, 0]], 'gamma': '5/4', 'opt': 'potts', 'ci0': [1, 1, 1, 1], 'seed': 945980373},
]


CROSS_GAMMAS = ['3/4', '4/5', '6/5', '5/4', '13/10']
DTYPES = {'bool': np.bool_, 'uint8': np.uint8, 'int32': np.int32, 'int64': np.int64, 'float32': np.float32}
SCALES = [-30, -40, 20]     # W is multiplied by 2**e
OFFGRID_GAMMAS = ['0', '1/2', '2', '3', '10']


def cross_sources(r, opt):
    """optimisers whose output is a sensible (same objective) start for routine r"""
    if r == 'modularity_finetune_und':
        return [{'routine': 'modularity_louvain_und'}, {'routine': r}, {'routine': 'community_louvain', 'opt': 'modularity'}]
    if r == 'modularity_finetune_dir':
        return [{'routine': 'modularity_louvain_dir'}, {'routine': r}, {'routine': 'community_louvain', 'opt': 'modularity'}]
    if r == 'modularity_finetune_und_sign':
        s = [{'routine': 'modularity_louvain_und_sign', 'opt': opt}, {'routine': r, 'opt': opt}]
        if opt == 'gja':
            s.append({'routine': 'community_louvain', 'opt': 'negative_sym'})
        if opt == 'sta':
            s.append({'routine': 'community_louvain', 'opt': 'negative_asym'})
        return s
    if r == 'community_louvain':
        s = [{'routine': r, 'opt': opt}]
        if opt == 'modularity':
            s += [{'routine': 'modularity_louvain_und'}, {'routine': 'modularity_finetune_dir'}]
        if opt == 'negative_sym':
            s.append({'routine': 'modularity_louvain_und_sign', 'opt': 'gja'})
        if opt == 'negative_asym':
            s.append({'routine': 'modularity_louvain_und_sign', 'opt': 'sta'})
        return s
    return []


def _dyadic(g):
    d = Fr(g).denominator
    return d & (d - 1) == 0


def gen_cases(rs, tier, routines=None):
    big = tier == 'thorough'
    cases = [dict(w) for w in WITNESSES if not routines or w['routine'] in routines]
    rnd_seed = lambda: int(rs.randint(2 ** 31))
    gam = lambda: GAMMAS[rs.randint(3)]

    fam = ['?']

    def add(routine, A, opt=None, ci0=None, **kw):
        W = to_list(A)
        c = {'routine': routine, 'W': W, 'gamma': kw.pop('gamma', None) or gam(), 'opt': opt, 'ci0': ci0, 'seed': rnd_seed(), 'family': fam[0]}
        c.update(kw)
        if routine == 'modularity_louvain_dir' and (len(W) > LARGE_N or c.get('scale')):
            c['level1_only'] = True     # D6 is accepted only through the Lean replay; where that is unavailable judge what is true of the code
        u = rs.rand()
        if not c.get('scale') and not c.get('malformed') and u < .24:
            # storage axis: the same values as bool / uint8 / int32 / int64 / float32 / Fortran-ordered float64
            Aw = np.asarray(W)
            allowed = ['int32', 'int64', 'float32', 'fortran']
            if Aw.min() >= 0:
                allowed.append('uint8')
                if Aw.max() <= 1:
                    allowed += ['bool', 'bool']
            if routine == 'modularity_louvain_dir' and allowed[int(u / .24 * len(allowed)) % len(allowed)] == 'float32':
                c['level1_only'] = True        # D6 is accepted only through the exact replay, which single precision has not
            c['variant'] = allowed[int(u / .24 * len(allowed)) % len(allowed)]
        cases.append(c)

    def graph_for(routine, n, opt=None):
        wmax = int(rs.choice([1, 1, 3, 5])); dens = float(rs.choice([.25, .4, .6, .85])); loops = rs.rand() < .15
        if routine in UND:
            return g_und(rs, n, dens, wmax, loops)
        if routine in DIR:
            u = rs.rand()
            return g_dir_adversarial(rs, n, wmax) if u < .45 else (g_dir(rs, n, dens, wmax, loops) if u < .8 else g_und(rs, n, dens, wmax, loops))
        if routine in SIGN:
            A = g_sign(rs, n, max(dens, .4), max(wmax, 1))
            if loops:
                for i in range(n):
                    if rs.rand() < .3:
                        A[i, i] = int(rs.choice([-1, 1])) * rs.randint(1, max(wmax, 1) + 1)
            return A
        if opt == 'potts':
            return g_dir(rs, n, dens, 1) if rs.rand() < .4 else g_und(rs, n, dens, 1)
        if opt in ('negative_sym', 'negative_asym'):
            A = g_sign(rs, n, max(dens, .4), wmax, mode=rs.choice([0, 2, 3, 4]))
            if rs.rand() < .3:
                A = rand_graph(rs, n, max(dens, .4), True, wmax, signed=True)
            return A
        u = rs.rand()
        return g_und(rs, n, dens, wmax, loops) if u < .5 else (g_dir(rs, n, dens, wmax, loops) if u < .8 else g_dir_adversarial(rs, n, wmax))

    def valid(routine, A, opt):
        if routine in SIGN:
            return bool(np.any(A != 0))
        if opt in ('negative_sym', 'negative_asym'):
            return A[A > 0].sum() > 0 and A.sum() != 0
        return A.sum() > 0

    def custom_B(n):
        B = rs.randint(-4, 5, size=(n, n)).astype(float)
        if rs.rand() < .7:
            B = np.triu(B) + np.triu(B, 1).T
        else:
            B = B + (rs.randint(0, 2, size=(n, n)) * 2)   # asymmetric with even off-sets: (B+B.T)/2 stays exact
        return [[int(x) for x in r] for r in B]

    variants = []
    for r in OPTIMISERS + ['modularity_probtune_und_sign']:
        if r in SIGN:
            variants += [(r, q) for q in QTYPES]
        elif r == 'community_louvain':
            variants += [(r, o) for o in OBJECTIVES]
        else:
            variants.append((r, None))
    if routines:
        variants = [v for v in variants if v[0] in routines]
    parts = {n: list(set_partitions(n)) for n in (3, 4, 5)}

    for (r, opt) in variants:
        fam[0] = 'a-all-starts'
        # (a) every set partition of a few small graphs as the start (routines that take one); singletons otherwise
        nsmall = (6 if not big else 80)
        for _ in range(nsmall):
            n = int(rs.choice([3, 4, 4, 5, 5]))
            A = graph_for(r, n, opt)
            if not valid(r, A, opt):
                continue
            extra = {'B': custom_B(n)} if opt == 'custom' else {}
            if r == 'modularity_probtune_und_sign':
                extra['p'] = str(rs.choice(['9/20', '1/4', '0', '1/2']))
            if r in TAKES_CI:
                for rg in parts[n]:
                    add(r, A, opt, encode_partition(rs, rg), **extra)
                add(r, A, opt, None, **extra)
            else:
                for g in GAMMAS:
                    add(r, A, opt, None, gamma=g, **extra)
        fam[0] = 'b-random'
        # (b) random larger graphs, random starts
        nrand = (60 if not big else 1600)
        for _ in range(nrand):
            n = int(rs.randint(4, 13))
            A = graph_for(r, n, opt)
            if not valid(r, A, opt):
                continue
            extra = {'B': custom_B(n)} if opt == 'custom' else {}
            if r == 'modularity_probtune_und_sign':
                extra['p'] = str(rs.choice(['9/20', '1/4', '1/2']))
            ci0 = None
            if r in TAKES_CI and rs.rand() < .8:
                k = int(rs.randint(1, n + 1))
                ci0 = encode_partition(rs, _rg_canon(rs.randint(0, k, size=n).tolist()))
            add(r, A, opt, ci0, **extra)
    fam[0] = 'f-cross-routine'
    # (f) cross-routine refinement: start = output of the corresponding Louvain routine / of the routine itself / of
    #     community_louvain where the objectives coincide, same network and gamma (near-optimal starts: a gain formula that
    #     disagrees with the scored Q only slightly shows up here and nowhere else), gamma also off the dyadic grid
    for (r, opt) in variants:
        if r not in TAKES_CI or r == 'modularity_probtune_und_sign' or opt == 'custom':
            continue
        srcs = cross_sources(r, opt)
        ntr = (6 if r in SIGN else 3) if not big else 25
        for src in srcs:
            for g in CROSS_GAMMAS:
                for _ in range(ntr):
                    n = int(rs.randint(8, 17))
                    wmax = int(rs.choice([1, 3, 5])); dens = float(rs.choice([.3, .5, .7]))
                    if r in SIGN or opt in ('negative_sym', 'negative_asym'):
                        A = g_sign(rs, n, dens, wmax, mode=int(rs.choice([2, 3, 4, 5])))
                        if opt in ('negative_sym', 'negative_asym') and src['routine'] == 'community_louvain' and rs.rand() < .4:
                            A = rand_graph(rs, n, dens, True, wmax, signed=True)
                    elif r in UND or src['routine'] in UND:
                        A = g_und(rs, n, dens, wmax)
                    elif opt == 'potts':
                        A = g_dir(rs, n, dens, 1) if rs.rand() < .5 else g_und(rs, n, dens, 1)
                    else:
                        A = g_dir_adversarial(rs, n, wmax) if rs.rand() < .3 else (g_dir(rs, n, dens, wmax) if rs.rand() < .7 else g_und(rs, n, dens, wmax))
                    if not valid(r, A, opt) or not valid(src['routine'], A, src.get('opt')):
                        continue
                    add(r, A, opt, None, gamma=g, start_from=dict(src, seed=rnd_seed()))
    fam[0] = 'g-scale'
    # (g) scale axis: the same integer network times an exact dyadic factor.  Q is invariant under W -> cW, the code's absolute
    #     constants (1e-10 gain threshold, np.allclose / np.min(W) < -1e-10 style tests) are not: moves may legitimately differ at
    #     tiny scales - and at 2**20 the rounding residue of an exactly-zero gain (1e-16) is amplified past 1e-10, so bct may accept a
    #     zero-gain move there - so these runs are judged by the predicates only (no replay)
    for (r, opt) in variants:
        if opt == 'potts':
            continue                      # requires a 0/1 matrix
        ntr = (10 if r == 'community_louvain' else 3) if not big else 40
        for e in SCALES:
            for _ in range(ntr):
                n = int(rs.randint(4, 13))
                A = graph_for(r, n, opt)
                if not valid(r, A, opt):
                    continue
                extra = {'B': custom_B(n)} if opt == 'custom' else {}
                if r == 'modularity_probtune_und_sign':
                    extra['p'] = '1/4'
                ci0 = None
                if r in TAKES_CI and rs.rand() < .7:
                    k = int(rs.randint(1, n + 1))
                    ci0 = encode_partition(rs, _rg_canon(rs.randint(0, k, size=n).tolist()))
                add(r, A, opt, ci0, scale=e, **extra)
    fam[0] = 'h-tolerance-window'
    # (h) the window in which absolute tolerances bite: weights below ~1e-8 (np.allclose's atol, 'is it symmetric?' style tests)
    #     but gains still above the 1e-10 move threshold - directed networks times 2**-29 .. 2**-32, objectives whose matrix
    #     scales with the weights
    for (r, opt) in variants:
        if not ((r == 'community_louvain' and opt == 'modularity') or r in ('modularity_finetune_dir', 'modularity_finetune_und', 'modularity_louvain_und')):
            continue
        for _ in range((160 if r == 'community_louvain' else 12) if not big else 500):
            n = int(rs.randint(5, 13)); wmax = int(rs.choice([1, 3, 5])); dens = float(rs.choice([.3, .5, .7]))
            if r in UND:
                A = g_und(rs, n, dens, wmax)
            else:
                A = g_dir_adversarial(rs, n, wmax) if rs.rand() < .35 else g_dir(rs, n, dens, wmax)
            if not valid(r, A, opt):
                continue
            ci0 = None
            if r in TAKES_CI and rs.rand() < .6:
                k = int(rs.randint(1, n + 1))
                ci0 = encode_partition(rs, _rg_canon(rs.randint(0, k, size=n).tolist()))
            add(r, A, opt, ci0, scale=int(rs.choice([-29, -30, -31, -32])))
    for r in GIVEN:
        if routines and r not in routines:
            continue
        for e in SCALES:
            for _ in range(4 if not big else 40):
                n = int(rs.randint(3, 11))
                opt = QTYPES[rs.randint(5)] if r == 'modularity_und_sign' else None
                A = graph_for(r, n, opt)
                if not valid(r, A, opt):
                    continue
                k = int(rs.randint(1, n + 1))
                add(r, A, opt, encode_partition(rs, _rg_canon(rs.randint(0, k, size=n).tolist())), gamma=('1' if r == 'modularity_und_sign' else None), scale=e)
    fam[0] = 'k-corners-mixed-sign-n12-offgrid-gamma'
    # (k) the corners of the quantifier: symmetric / directed networks with NEGATIVE entries but positive total weight for the
    #     routines that have no negativity test (everything except community_louvain), n = 1 and n = 2, gamma far from 1
    for (r, opt) in variants:
        for _ in range(14 if not big else 120):
            mode = int(rs.randint(3))
            g = str(rs.choice(OFFGRID_GAMMAS)) if rs.rand() < .7 else gam()
            if mode == 0 and (r in UND or r in DIR):
                n = int(rs.randint(3, 9))
                A = rand_graph(rs, n, float(rs.choice([.5, .8])), r in DIR, int(rs.choice([3, 9])), signed=True)
                if A.sum() < 0:
                    A = -A
                if A.sum() <= 0:
                    continue
            else:
                n = int(rs.choice([1, 2, 2]))
                if r in SIGN or opt in ('negative_sym', 'negative_asym'):
                    A = np.zeros((n, n)); 
                    if n == 2:
                        A[0, 1] = A[1, 0] = int(rs.choice([-2, 1, 3]))
                    if rs.rand() < .5 or n == 1:
                        A[0, 0] = int(rs.choice([1, 2]))
                elif opt == 'potts':
                    A = np.ones((n, n)) - (np.eye(n) if rs.rand() < .5 else 0)
                else:
                    A = rs.randint(0, 4, size=(n, n)).astype(float)
                    if r in UND or rs.rand() < .5:
                        A = np.triu(A) + np.triu(A, 1).T
                if not valid(r, A, opt):
                    continue
            extra = {'B': custom_B(n)} if opt == 'custom' else {}
            if r == 'modularity_probtune_und_sign':
                extra['p'] = '1/4'
            ci0 = None
            if r in TAKES_CI and rs.rand() < .6:
                ci0 = encode_partition(rs, _rg_canon(rs.randint(0, max(1, n), size=n).tolist()))
            add(r, A, opt, ci0, gamma=g, **extra)
    for r in GIVEN:
        if routines and r not in routines:
            continue
        for _ in range(10 if not big else 80):
            n = int(rs.choice([1, 2, 4, 6])); opt = QTYPES[rs.randint(5)] if r == 'modularity_und_sign' else None
            A = rand_graph(rs, n, .8, r in DIR, 5, signed=True) if n > 2 else rs.randint(0, 4, size=(n, n)).astype(float)
            if r not in DIR:
                A = np.triu(A) + np.triu(A, 1).T
            if A.sum() < 0:
                A = -A
            if (A.sum() <= 0) if r not in SIGN else (not np.any(A != 0)):
                continue
            g = '1' if r == 'modularity_und_sign' else str(rs.choice(OFFGRID_GAMMAS))
            add(r, A, opt, encode_partition(rs, _rg_canon(rs.randint(0, max(1, n), size=n).tolist())), gamma=g)
            if r != 'modularity_und_sign':
                add(r, A, opt, None, gamma=g)
    fam[0] = 'm-size'
    # (m) SIZE axis: sizes on both sides of the thresholds an implementer would pick for a fast path (block sizes, sparse/dense
    #     switches, number of modules), with structures that matter: sparse hierarchical planted partitions (several Louvain levels,
    #     density far below 10 %), many small modules (> 32), dense networks (> 500 edges).  Beyond n = LARGE_N the Lean model is not
    #     run: these runs are judged by the exact Python oracles (q = Q(returned), recomputed Q along the hierarchy, start/feedback).
    sizes_small = [12, 16, 17, 32, 33]
    sizes_large = [64, 65, 100, 128, 129, 256, 257, 300]
    size_variants = variants + [(r, (QTYPES[rs.randint(5)] if r == 'modularity_und_sign' else None)) for r in GIVEN
                                if not routines or r in routines]
    for (r, opt) in size_variants:
        if big:
            todo = [(nn, st_) for nn in sizes_small + sizes_large for st_ in ('planted', 'small-modules', 'dense')]
        else:
            # quick slice: one small size and one size from each band of large sizes per routine (every routine crosses 64, 128 and
            # 256 in every run), a sparse planted partition always among them
            todo = []
            for _rep in range(2):
                st3 = [str(x) for x in rs.permutation(['planted', 'planted', 'small-modules' if rs.rand() < .5 else 'dense'])]
                todo += [(int(rs.choice(sizes_small)), str(rs.choice(['planted', 'dense']))),
                         (int(rs.choice([64, 65])), st3[0]), (int(rs.choice([100, 128, 129])), st3[1]),
                         (int(rs.choice([256, 257, 300, 257, 300])), st3[2])]
        for nn, st_ in todo:
            if st_ == 'dense' and nn > 129:
                nn = int(rs.choice([100, 128, 129]))          # n^2/2 edges: keep the dense ones moderate
            signed = r in SIGN or opt in ('negative_sym', 'negative_asym')
            directed = (r in DIR or (r == 'community_louvain' and rs.rand() < .5)) and not signed
            wmax_ = 1 if opt == 'potts' else int(rs.choice([1, 3]))
            if st_ == 'planted':
                A, lab = g_planted(rs, nn, int(rs.choice([3, 4, 5])), int(rs.choice([3, 4])), directed, signed, wmax_)
            elif st_ == 'small-modules':
                A, lab = g_planted(rs, nn, int(rs.choice([2, 3])), 1, directed, signed, wmax_, p_in=1.0, p_mid=0, n_far=nn // 6)
            else:
                A = rand_graph(rs, nn, float(rs.choice([.3, .6])), directed, wmax_, signed=signed)
                lab = (rs.randint(0, max(2, nn // 8), size=nn) + 1).tolist()
            if r in UND or r in SIGN:
                A = np.triu(A, 1) + np.triu(A, 1).T
            if not valid(r, A, opt):
                continue
            extra = {'B': custom_B(nn)} if opt == 'custom' else {}
            if r == 'modularity_probtune_und_sign':
                extra['p'] = '1/4'
            ci0 = None
            if r in TAKES_CI or r in GIVEN:
                u = rs.rand()
                if u < .4:
                    ci0 = list(lab)                                           # the planted base partition (many modules)
                elif u < .7:
                    ci0 = [int(x) for x in np.where(rs.rand(nn) < .15, rs.randint(1, max(lab) + 1, size=nn), lab)]   # perturbed
                elif u < .85 or r in GIVEN:
                    ci0 = (rs.randint(0, max(2, nn // 3), size=nn) + 1).tolist()   # random, > 32 labels for the large sizes
            g_ = ('1' if r == 'modularity_und_sign' else gam())
            add(r, A, opt, ci0, gamma=g_, size_axis=st_, **extra)
            if r in ('modularity_und', 'modularity_dir') and (big or nn <= 129):
                add(r, A, opt, None, gamma=g_, size_axis=st_)                 # spectral path at this size
    fam[0] = 'c-given-and-spectral'
    # (c) modularity_und/_dir/_und_sign with a given partition, and their own spectral partition (kci=None)
    if not routines or any(g in routines for g in GIVEN):
        for r in GIVEN:
            for _ in range(60 if not big else 600):
                n = int(rs.randint(3, 11))
                opt = QTYPES[rs.randint(5)] if r == 'modularity_und_sign' else None
                A = graph_for(r, n, opt)
                if not valid(r, A, opt):
                    continue
                k = int(rs.randint(1, n + 1))
                ci0 = encode_partition(rs, _rg_canon(rs.randint(0, k, size=n).tolist()))
                add(r, A, opt, ci0, gamma=('1' if r == 'modularity_und_sign' else None))
                if r != 'modularity_und_sign':
                    add(r, A, opt, None)      # kci=None: spectral path, decisions recorded for the model
    # (custom objective matrices are passed as nested lists: as an ndarray the routine raises ValueError under
    #  NumPy >= 1.25 - `B in ('negative_sym', ...)` on an array - which is outside C02/C07: they name the built-in objectives)
    fam[0] = 'e-malformed'
    # (e) malformed stream: asymmetric input to the _und routines (may spin: watchdog), outcome: no claim
    for r in ('modularity_finetune_und', 'modularity_louvain_und', 'modularity_finetune_und_sign'):
        if routines and r not in routines:
            continue
        for _ in range(4):
            n = int(rs.randint(4, 8)); A = g_dir(rs, n, .5, 3)
            if np.array_equal(A, A.T) or A.sum() == 0:
                continue
            add(r, A, 'sta' if r in SIGN else None, None, malformed='asymmetric', t=1.5)
    return cases


def _rg_canon(v):
    seen = {}
    return [seen.setdefault(x, len(seen)) for x in v]


# ------------------------------------------------------------------ object-reuse and call-history probes

def _direct(bct, case, A, ci, seed):
    """the routine of `case` on the given array objects (no watchdog of its own: it runs inside common.call) -> (labels, q)"""
    r = case['routine']; g = float(Fr(case['gamma'])); f = getattr(bct, r)
    if r == 'community_louvain':
        o = case['opt']
        B = o if o != 'custom' else [[float(Fr(x)) for x in row] for row in case['B']]
        out = f(A, gamma=g, ci=ci, B=B, seed=seed)
    elif r in ('modularity_louvain_und', 'modularity_louvain_dir'):
        out = f(A, gamma=g, seed=seed)
    elif r == 'modularity_louvain_und_sign':
        out = f(A, gamma=g, qtype=case['opt'], seed=seed)
    elif r in ('modularity_finetune_und', 'modularity_finetune_dir'):
        out = f(A, ci=ci, gamma=g, seed=seed)
    elif r == 'modularity_finetune_und_sign':
        out = f(A, qtype=case['opt'], gamma=g, ci=ci, seed=seed)
    elif r == 'modularity_probtune_und_sign':
        out = f(A, qtype=case['opt'], gamma=g, ci=ci, p=0.25, seed=seed)
    elif r in ('modularity_und', 'modularity_dir'):
        out = f(A, gamma=g, kci=ci)
    else:
        out = f(A, ci, qtype=case['opt'])
    return [int(x) for x in np.asarray(out[0]).tolist()], float(out[1])


def _apply_mutation(bct, mut, A, ci, returned):
    k = mut['kind']
    if k == 'threshold':
        bct.threshold_absolute(A, mut['thr'], copy=False)          # the library's own in-place edit
    elif k == 'reweight':
        for (i, j) in mut['cells']:
            A[i, j] = mut['w']
    elif k == 'flip':
        for (i, j) in mut['cells']:
            A[i, j] = -A[i, j]
    elif k == 'ci':
        ci[mut['u']] = mut['label']
    elif k == 'edit-returned':
        if returned is not None:
            returned[mut['u'] % len(returned)] = 99              # the caller scribbles on the array it got back
    elif k == 'none':
        pass


def run_probe(case):
    """common.reuse_probe on one routine: call, mutate the SAME objects in place, call again, compare with a call on fresh
    copies; in addition the second call itself is judged by the C02 / C07 predicates on the mutated network."""
    bct = import_bct()
    r = case['routine']; n = len(case['W'])
    res = {'status': 'ok', 'fails': [], 'levels': [], 'draws': [], 'extra': {}, 'probe': True}
    F = res['fails']
    cond = cond_of(case); cond['probe'] = case['mut']['kind'] + ('+' + case['between']['routine'] if case.get('between') else '')
    seeded = r not in GIVEN
    if case['mut']['kind'] == 'sequence':
        # f(A) ; g(B) on another input of the same size (other routine / non-default option) ; f(A) again: first and third must agree
        A = np.array(case['W'], dtype=float); ci = None if case.get('ci0') is None else np.array(case['ci0'], dtype=int)
        oth = case['mut']['other']
        B_ = np.array(oth['W'], dtype=float)
        r1 = call(_direct, bct, case, A.copy(), None if ci is None else ci.copy(), case['seed'] if seeded else None, t=6.0, retry=10)
        call(_direct, bct, oth, B_, None if oth.get('ci0') is None else np.array(oth['ci0'], dtype=int), oth['seed'] if oth['routine'] not in GIVEN else None, t=6.0, retry=10)
        r3 = call(_direct, bct, case, A.copy(), None if ci is None else ci.copy(), case['seed'] if seeded else None, t=6.0, retry=10)
        if r1[0] == 'ok' and r3[0] == 'ok' and not same_result(r1[1], r3[1]):
            F.append(('result-depends-on-history', {'first': str(r1[1])[:300], 'after_other_call': str(r3[1])[:300], 'other': oth}, cond))
        return res
    A = np.array(case['W'], dtype=float)
    ci = None if case.get('ci0') is None else np.array(case['ci0'], dtype=int)
    if case.get('start_opt'):
        # start = a good partition of the network as it will be after the in-place edit (found on a private copy)
        A2 = A.copy(); _apply_mutation(bct, case['mut'], A2, None, None)
        st0 = call(bct.community_louvain, A2, gamma=float(Fr(case['gamma'])), seed=case['seed'] % 1000, t=6.0, retry=10)
        if st0[0] != 'ok':
            res['status'] = 'start-' + st0[0]
            return res
        ci = np.asarray(st0[1][0]).astype(int)
    calls = []

    def fn(A_, ci_, seed=None):
        if case.get('between'):
            b = case['between']
            try:
                _direct(bct, dict(case, routine=b['routine'], opt=b.get('opt')), A_, None, seed)      # g(A) shares the argument object
            except Exception:  # noqa
                pass
        out = _direct(bct, case, A_, ci_, seed)
        calls.append((A_.copy(), None if ci_ is None else ci_.copy(), out))
        return out

    def mutate(args):
        _apply_mutation(bct, case['mut'], args[0], args[1], None)
        if case['mut']['kind'] == 'edit-returned' and calls:
            calls[0][2][0][case['mut']['u'] % n] = 99

    d = reuse_probe(fn, [A, ci], mutate, t=8.0, tol=0.0, seed=(case['seed'] if seeded else None))
    if d is not None:
        F.append(('result-depends-on-history', dict(d, mutation=case['mut'], between=case.get('between')), cond))
    # the second call (same objects, after the in-place edit) judged on the network it was really given
    if len(calls) >= 2:
        W2, c2, (lab, q) = calls[1]
        cm = dict(case, W=[[Fr(float(x)) for x in row] for row in W2.tolist()], ci0=None if c2 is None else [int(x) for x in c2.tolist()])
        cm.pop('scale', None)
        ok_dom = (np.any(W2 != 0) if r in SIGN else W2.sum() > 0) and (r not in UND | SIGN or np.array_equal(W2, W2.T))
        if ok_dom:
            if r in GIVEN:
                if not close(q, true_q(cm, cm['ci0'])):
                    F.append(('given-partition-q', {'q': q, 'Q': float(true_q(cm, cm['ci0'])), 'second_call': True, 'mutation': case['mut']}, cond))
            elif not labels_ok(lab, n):
                F.append(('labels-1..k', {'ci': lab, 'second_call': True, 'mutation': case['mut']}, cond))
            else:
                Q = true_q(cm, lab)
                if not close(q, Q) and r != 'modularity_louvain_dir':
                    F.append(('q-equals-Q', {'q': q, 'Q': float(Q), 'ci': lab, 'second_call': True, 'mutation': case['mut'], 'level': 1}, dict(cond, level_ge2=False)))
                if r in OPTIMISERS and r != 'modularity_louvain_dir':
                    start = cm['ci0'] if cm['ci0'] is not None else list(range(1, n + 1))
                    Q0 = true_q(cm, start)
                    if Q < Q0 - Fr(1, 10 ** 9) * max(1, abs(Q0)):
                        F.append(('not-worse-than-start', {'Q_start': float(Q0), 'Q_returned': float(Q), 'start': start, 'returned': lab,
                                                           'second_call_after': case['mut'], 'W_second_call': W2.tolist()}, dict(cond, levels_ge2=False)))
    return res


def gen_probes(rs, tier):
    """object-reuse probes for every routine of C02/C07 (start partition supplied where the routine takes one)"""
    big = tier == 'thorough'
    out = []
    variants = []
    for r in OPTIMISERS + ['modularity_probtune_und_sign'] + GIVEN:
        if r in SIGN:
            variants += [(r, q) for q in QTYPES]
        elif r == 'community_louvain':
            variants += [(r, o) for o in ('modularity', 'negative_sym', 'negative_asym', 'potts')]
        else:
            variants.append((r, None))
    per = 6 if not big else 45
    for (r, opt) in variants:
        for t_ in range(per):
            n = int(rs.randint(5, 11)); wmax = int(rs.choice([3, 5])); dens = float(rs.choice([.4, .6, .8]))
            signed = r in SIGN or opt in ('negative_sym', 'negative_asym')
            if signed:
                A = g_sign(rs, n, dens, wmax, mode=int(rs.choice([2, 3, 4])))
            elif opt == 'potts':
                A = g_und(rs, n, dens, 1)
            elif r in UND or (r == 'community_louvain' and rs.rand() < .5):
                A = g_und(rs, n, dens, wmax)
            else:
                A = g_dir(rs, n, dens, wmax)
            if (A[A > 0].sum() <= 0) if signed else (A.sum() <= 0):
                continue
            sym = r in UND or r in SIGN or np.array_equal(A, A.T)
            ci0 = None
            if r in TAKES_CI or r in GIVEN:
                k = int(rs.randint(2, n))
                ci0 = [int(x) + 1 for x in _rg_canon(rs.randint(0, k, size=n).tolist())]
            nz = [(i, j) for i in range(n) for j in range(n) if A[i, j] != 0 and i != j]
            if not nz:
                continue
            i, j = nz[rs.randint(len(nz))]
            cells = [(i, j), (j, i)] if sym else [(i, j)]
            kinds = ['reweight', 'edit-returned']
            if opt != 'potts':
                pos = sorted(set(A[A > 0].tolist()))
                if len(pos) >= 2:
                    kinds.append('threshold')
            if signed:
                kinds.append('flip')
            if ci0 is not None:
                kinds.append('ci')
            kind = kinds[t_ % len(kinds)] if t_ < len(kinds) else str(rs.choice(kinds))
            if kind == 'threshold':
                mut = {'kind': kind, 'thr': float(pos[len(pos) // 2])}
            elif kind == 'reweight':
                mut = {'kind': kind, 'cells': cells, 'w': float(0 if (opt == 'potts' or rs.rand() < .4) else abs(A[i, j]) + 2)}
            elif kind == 'flip':
                mut = {'kind': kind, 'cells': cells}
            elif kind == 'ci':
                u = int(rs.randint(n)); mut = {'kind': kind, 'u': u, 'label': int(ci0[(u + 1) % n]) if ci0[(u + 1) % n] != ci0[u] else int(max(ci0) + 1)}
            else:
                mut = {'kind': kind, 'u': int(rs.randint(n))}
            c = {'probe': True, 'routine': r, 'opt': opt, 'W': to_list(A), 'gamma': GAMMAS[rs.randint(3)] if r != 'modularity_und_sign' else '1',
                 'ci0': ci0, 'seed': int(rs.randint(2 ** 31)), 'mut': mut}
            # pairs of routines sharing the argument object: g(A) runs between the two f(A) calls
            if t_ % 3 == 2 and r in OPTIMISERS:
                c['between'] = ({'routine': 'community_louvain', 'opt': 'negative_sym' if signed else 'modularity'} if r != 'community_louvain'
                                else {'routine': 'modularity_louvain_und_sign', 'opt': 'sta'} if signed else {'routine': 'modularity_louvain_dir'})
            out.append(c)
    # planted re-analysis: a network whose light edges favour one partition and whose heavy edges another; the caller
    # thresholds it in place and re-analyses it from the partition that is optimal for the thresholded network - a routine that
    # still looks at anything computed for the old network walks away from that start and ends below it
    for (r, opt) in [('community_louvain', 'modularity'), ('modularity_finetune_und', None), ('modularity_finetune_dir', None)]:
        for _ in range(10 if not big else 80):
            k = int(rs.randint(3, 7)); n = 2 * k
            perm = rs.permutation(n)
            A = np.zeros((n, n))
            for a_ in range(k):                      # light complete graphs on the "first" and on the "second" nodes of the pairs
                for b_ in range(a_ + 1, k):
                    for off in (0, 1):
                        A[perm[2 * a_ + off], perm[2 * b_ + off]] = A[perm[2 * b_ + off], perm[2 * a_ + off]] = 2
            ci0 = [0] * n
            for a_ in range(k):                      # heavy pairs
                A[perm[2 * a_], perm[2 * a_ + 1]] = A[perm[2 * a_ + 1], perm[2 * a_]] = 3 + int(rs.randint(3))
                ci0[perm[2 * a_]] = ci0[perm[2 * a_ + 1]] = a_ + 1
            out.append({'probe': True, 'routine': r, 'opt': opt, 'W': to_list(A), 'gamma': '1', 'ci0': ci0, 'seed': int(rs.randint(2 ** 31)),
                        'mut': {'kind': 'threshold', 'thr': 3.0}})
    # the same with random networks: the start is what community_louvain finds on a thresholded *copy* (near-optimal for the network
    # the second call is given), resolved inside run_probe
    for (r, opt) in [('community_louvain', 'modularity'), ('modularity_finetune_und', None), ('modularity_finetune_dir', None)]:
        for _ in range(16 if not big else 120):
            n = int(rs.randint(8, 15))
            A = g_und(rs, n, float(rs.choice([.5, .7, .9])), 5) if (r in UND or rs.rand() < .6) else g_dir(rs, n, float(rs.choice([.5, .7])), 5)
            thr = float(rs.choice([3, 4]))
            if (A * (A >= thr)).sum() <= 0:
                continue
            out.append({'probe': True, 'routine': r, 'opt': opt, 'W': to_list(A), 'gamma': GAMMAS[rs.randint(3)], 'ci0': [1] * n,
                        'seed': int(rs.randint(2 ** 31)), 'mut': {'kind': 'threshold', 'thr': thr}, 'start_opt': True})
    # explicit short sequences f ; g ; f on same-size inputs (other routine or an option away from its default)
    for _ in range(24 if not big else 240):
        r, opt = variants[rs.randint(len(variants))]
        r2, opt2 = variants[rs.randint(len(variants))]
        n = int(rs.randint(5, 10))

        def mk(r_, o_):
            signed = r_ in SIGN or o_ in ('negative_sym', 'negative_asym')
            A = g_sign(rs, n, .6, 3, mode=3) if signed else (g_und(rs, n, .6, 1 if o_ == 'potts' else 3) if (r_ in UND or o_ == 'potts') else g_dir(rs, n, .6, 3))
            ci0 = [int(x) + 1 for x in _rg_canon(rs.randint(0, 3, size=n).tolist())] if (r_ in TAKES_CI or r_ in GIVEN) else None
            return {'routine': r_, 'opt': o_, 'W': to_list(A), 'gamma': GAMMAS[rs.randint(3)] if r_ != 'modularity_und_sign' else '1', 'ci0': ci0,
                    'seed': int(rs.randint(2 ** 31))}
        a, b = mk(r, opt), mk(r2, opt2)
        if (np.array(a['W']) > 0).sum() == 0 or (np.array(b['W']) > 0).sum() == 0:
            continue
        a.update({'probe': True, 'mut': {'kind': 'sequence', 'other': b}})
        out.append(a)
    return out


# ------------------------------------------------------------------ the check shared by C02 and C07

def _same_partition(a, b):
    return len(a) == len(b) and _rg_canon(list(a)) == _rg_canon(list(b))


def _cmp_levels(py, model):
    """py: [(ci, float q)], model: [(ci, Fraction q)] -> 'same' | 'labels' | 'q' | 'count'"""
    if len(py) != len(model):
        return 'count'
    for (c1, q1), (c2, q2) in zip(py, model):
        if [int(x) for x in c1] != list(c2):
            return 'labels'
        if not close(q1, q2):
            return 'q'
    return 'same'


def run_driver_par(main, lines, procs=10):
    """several Lean driver processes side by side (the interpreter is single-threaded); order preserved"""
    from concurrent.futures import ThreadPoolExecutor
    k = max(1, min(procs, len(lines) // 100))
    if k == 1:
        return run_driver(main, lines)
    parts = [lines[i::k] for i in range(k)]
    with ThreadPoolExecutor(k) as ex:
        outs = list(ex.map(lambda part: run_driver(main, part), parts))
    res = [None] * len(lines)
    for i, o in enumerate(outs):
        res[i::k] = o
    return res


def run_check(ck, preds):
    pid = ck.pid
    ck.cov['rule'] = ('cases = (routine, objective/qtype, integer weight matrix, gamma, start partition, seed, storage): every set partition of n<=5 nodes '
                      'as the start on random small graphs; random graphs n=4..12 (undirected / directed incl. sparse adversarial / signed incl. all-positive '
                      'and all-negative, self-loops sometimes) with random starts, gamma in {3/4,1,5/4}; cross-routine starts (gamma also 4/5,6/5,13/10); '
                      'scale axis W*2^e; mixed-sign positive-total input for the UND/DIR routines, n in {1,2}, gamma in {0,1/2,2,3,10}; storage '
                      'bool/uint8/int32/int64/float32/Fortran order; given-partition and kci=None calls of modularity_und/_dir/_und_sign; object-reuse and '
                      'call-history probes; an asymmetric malformed stream for the _und routines; the list is shuffled before it is distributed. '
                      'non-trivial = distinct case in which the routine returned a partition different from its start (optimisers) or with >= 2 modules')
    ck.assumptions += ['total weight positive (signed routines: at least one nonzero weight; community_louvain negative_*: positive weights present and sum(W) != 0)',
                       '_und routines are fed symmetric matrices (asymmetric ones only in the malformed stream, no claim)',
                       'integer weights: float arithmetic on them is exact; q is compared at 1e-9 (1e-5 for float32 storage)',
                       'the replay of a run from its recorded draws (compared on labels, q, every level and draws consumed) needs dyadic gamma, unscaled weights and double precision; other runs are judged by the predicates and the q correspondence',
                       'networks with more than %d nodes (size axis, up to n = 300) are judged by the exact Python oracles only; the Lean model replay and the q correspondence run for n <= %d' % (LARGE_N, LARGE_N),
                       'in-domain calls that hit the watchdog are re-tried once with 10x the budget, then counted; more than max(3, 0.5% of the cases) is a break']
    # T-gen: modularity matrix and q of modularity_und/_dir interpreted, whole bodies of the Louvain routines source-pinned (translate/cores.py, family modq)
    ck.cov['cores'] = cores.generate(families=['modq', 'pinmod'])
    for p_ in ck.cov['cores']['problems']:
        ck.corr_break('core extractor (translate/cores.py)', p_)
    ok = ck.lean_gate(['BctVerif.Props.' + pid], extra_modules=['BctVerif.Model.Modularity'])
    ck.lean_gate([], gen_modules=['BctVerif.Gen.CoresMod', 'BctVerif.Gen.CoresPinMod'])
    if ck.tier == 'thorough' and ok:
        ck.leanchecker(['BctVerif.Props.' + pid, 'BctVerif.Model.Modularity'])
    if ck.replay:
        rp = json.load(open(ck.replay))
        if 'case' in rp:
            cases = [rp['case']['case']]
        else:
            # a `no-failing-input-found` replay: re-run the cases named in the broken correspondence entries (all, if none is named)
            cases = [b['detail']['case'] for b in rp.get('no_longer_checks', [])
                     if isinstance(b.get('detail'), dict) and isinstance(b['detail'].get('case'), dict)] or gen_cases(ck.rs, ck.tier)
    else:
        cases = gen_cases(ck.rs, ck.tier) + gen_probes(ck.rs, ck.tier)
        # every worker must see routines, options and sizes interleaved (hidden state carried between calls only shows then)
        cases = [cases[i] for i in ck.rs.permutation(len(cases))]
    results = pmap(run_case, cases)
    cases = [r.get('case', c) for c, r in zip(cases, results)]     # cross-routine cases now carry their resolved start
    qlines, qidx, rlines, ridx, slines, sidx = [], [], [], [], [], []
    pending = []      # violations of modularity_louvain_dir wait for the verdict of the as-coded (D6) model
    ntimeouts = 0
    for n_, (c, r) in enumerate(zip(cases, results)):
        rt = c['routine'] + (':' + c['opt'] if c.get('opt') else '')
        ck.count('routine:' + rt); ck.count('status:' + r['status']); ck.count('n=%d' % len(c['W']))
        if c.get('malformed'):
            ck.count('malformed:' + c['malformed'] + ':' + r['status'])
            continue
        if c.get('probe'):
            ck.count('reuse_probes'); ck.count('probe:' + c['mut']['kind'] + ('+between' if c.get('between') else ''))
            ck.case(nontrivial_key=digest(['probe', c['routine'], c.get('opt'), c['W'], c['mut'], c['seed']]))
            for pred, info, cond in r['fails']:
                if pred in preds:
                    d = {'case': c}; d.update(info)
                    ck.violation(c['routine'], pred, d, cond)
            continue
        # every watchdog hit on an in-domain input is counted (main call, plain call, feedback call, start of a cross case)
        nt = int(r['status'] in ('timeout', 'start-timeout')) + r['extra'].get('plain_timeout', 0) + r['extra'].get('feedback_timeout', 0)
        if nt:
            ntimeouts += nt
            ck.count('timeouts_in_domain', nt)
            for k in ('plain_timeout', 'feedback_timeout'):
                if r['extra'].get(k):
                    ck.count(k)
        start = c['ci0'] if c.get('ci0') is not None else list(range(1, len(c['W']) + 1))
        moved = r['status'] == 'ok' and r['levels'] and (
            (c['routine'] in GIVEN and len(set(r['levels'][-1][0])) >= 2) or
            (c['routine'] not in GIVEN and not _same_partition(start, r['levels'][-1][0])))
        ck.case(sample={'routine': c['routine'], 'opt': c.get('opt'), 'W': c['W'], 'gamma': c['gamma'], 'ci0': c.get('ci0'), 'seed': c['seed'],
                        'returned': r['levels'][-1] if r['levels'] else None} if moved else None,
                nontrivial_key=digest([c['routine'], c.get('opt'), c['W'], c['gamma'], c.get('ci0'), r['draws']]) if moved else None)
        for pred, info, cond in r['fails']:
            if pred in preds:
                d = {'case': c}; d.update(info)
                if c['routine'] == 'modularity_louvain_dir':
                    pending.append((n_, pred, d, cond))
                else:
                    ck.violation(cond.get('routine', c['routine']), pred, d, cond)
        if r['status'] != 'ok' or not r['levels'] and c['routine'] not in HIER:
            continue
        failed = {p for p, _, _ in r['fails']}
        # model: definition + coded closed form for every returned pair that passed the oracle
        ck.count('family:' + str(c.get('family', 'witness')))
        if c.get('level1_only'):
            ck.count('louvain_dir_level1_only')      # labels on every level + q = Q on level 1; no replay, no C07 predicates (D6)
        if c.get('size_axis'):
            ck.count('size_axis_cases'); ck.count('size_axis:n=%d' % len(c['W'])); ck.count('size_axis:' + c['size_axis'])
            if r['status'] == 'ok' and len(r['levels']) >= 2:
                ck.count('size_axis_runs_with_2+_levels')
        if len(c['W']) > LARGE_N:
            # the interpreted Lean model is too slow here: exact Python oracles only (labels, q = Q(returned), recomputed Q along the
            # hierarchy, start / feedback); say so in the evidence
            ck.count('large_n_python_oracle_only')
            continue
        if c.get('scale'):
            ck.count('scaled_cases'); ck.count('scale=2^%d' % c['scale'])
        if c.get('variant'):
            ck.count('variant:' + c['variant'])
        # (for a scaled network the model keeps the unscaled rationals: Q is scale invariant - `Q_scale_invariant` - except for a
        #  custom objective matrix, whose q = sum(B)/s scales with 1/c)
        if not failed & {'labels-1..k', 'q-equals-Q', 'given-partition-q'} and not (c.get('scale') and c.get('opt') == 'custom'):
            for h, (ci, q) in enumerate(r['levels']):
                if c.get('level1_only') and h >= 1:
                    break          # levels >= 2 of modularity_louvain_dir are not consistent (D6) and not judged here
                qlines.append(q_line(c, c['ci0'] if (c['routine'] in GIVEN and c.get('ci0') is not None) else ci)); qidx.append((n_, h))
        if c.get('start_origin'):
            ck.count('cross_refinement_cases'); ck.count('cross_from:' + c['start_origin'].rsplit(':', 1)[0])
        if c['routine'] in ('modularity_und', 'modularity_dir') and c.get('ci0') is None and r.get('oracle') is None and r['status'] == 'ok':
            ck.count('spectral_trace_lost')      # the watchdog hit the tracer three times: predicates only for this run
        if r.get('oracle') is not None and any(t is None for t in r['oracle']):
            ck.corr_break('Modularity spectral trace incomplete (a recur call did not return) for bct.' + c['routine'], {'case': c, 'oracle': r['oracle']})
        if r.get('oracle') is not None and all(t is not None for t in r['oracle']):
            # spectral path: the model bisects with the recorded eigen-solver decisions
            slines.append('spectral kind=%s n=%d W=%s gamma=%s oracle=%s' % (kind_of(c), len(c['W']), rat_list(c['W']), c['gamma'], ','.join(r['oracle']) or '-'))
            sidx.append(n_)
        if c.get('level1_only'):
            pass
        elif c['routine'] in REPLAY_OPS and c.get('variant') == 'float32':
            ck.count('replay_skipped_float32')    # single-precision rounding decides ties differently; predicates (1e-5) + q correspondence only
        elif c['routine'] in REPLAY_OPS and c.get('scale'):
            ck.count('replay_skipped_scaled')     # absolute thresholds are not scale invariant: predicates only
        elif c['routine'] in REPLAY_OPS and _dyadic(c['gamma']):
            rlines.append(replay_line(c, r)); ridx.append(n_)
        elif c['routine'] in REPLAY_OPS:
            ck.count('replay_skipped_nondyadic_gamma')   # float gamma is not the rational the model would use: oracle + q-line only
    if ntimeouts > max(3, 0.005 * len(cases)):
        ck.breaks.append({'kind': 'timeouts', 'what': '%d watchdog hits on in-domain inputs (bound: max(3, 0.5%% of %d cases))' % (ntimeouts, len(cases))})
    d6_agrees = {}
    if ok:
        try:
            outs = run_driver_par('Modularity', qlines + rlines + slines)
            qo, ro, so = outs[:len(qlines)], outs[len(qlines):len(qlines) + len(rlines)], outs[len(qlines) + len(rlines):]
            nd = 0
            for (n_, h), o in zip(qidx, qo):
                c, r = cases[n_], results[n_]
                ci, q = r['levels'][h]
                d = kv(o)
                bad = None
                if 'qcode' not in d:
                    bad = 'model error'
                else:
                    given = c['routine'] in GIVEN and c.get('ci0') is not None
                    src = c['ci0'] if given else ci
                    lab = sorted(set(src)); want = [lab.index(x) + 1 for x in src]
                    if [int(x) for x in d['relabel'].split(',')] != want or int(d['k']) != len(lab):
                        bad = 'relabel'
                    elif not close(q, Fr(d['qcode']), case_tol(c)):
                        bad = 'coded closed form vs reported q'
                    elif Fr(d['qdef']) != Fr(d['qcode']) and (is_sym(c['W']) or kind_of(c) in ('dir', 'obj')):
                        bad = 'closed form vs definition'
                    elif r.get('Qs') and r['Qs'][h] is not None and Fr(r['Qs'][h]) != Fr(d['qdef']) and (is_sym(c['W']) or kind_of(c) in ('dir', 'obj')):
                        bad = 'model definition vs python oracle'
                if bad:
                    nd += 1
                    if nd <= 5:
                        ck.corr_break('Modularity model q (%s) vs bct.%s' % (bad, c['routine']), {'case': c, 'level': h, 'model': o[:300], 'impl': [ci, q]})
            ck.count('corr_q_cases', len(qo)); ck.count('corr_q_disagreements', nd)
            # spectral path
            ns = 0
            for n_, o in zip(sidx, so):
                c, r = cases[n_], results[n_]
                d = kv(o)
                (ci, q), = r['levels']
                if 'ci' not in d or [int(x) for x in d['ci'].split(',')] != [int(x) for x in ci] or not close(q, Fr(d['q']), case_tol(c)) or d.get('left') != '0':
                    ns += 1
                    if ns <= 3:
                        ck.corr_break('Modularity spectral path vs bct.' + c['routine'], {'case': c, 'oracle': r['oracle'], 'model': o[:300], 'impl': [ci, q]})
            ck.count('corr_spectral_cases', len(so)); ck.count('corr_spectral_disagreements', ns)

            def verdict_of(c, r, o):
                ml, d = parse_levels(o)
                if ml is None:
                    return 'error:' + str(d.get('error')), d
                if c['routine'] in HIER:
                    v = _cmp_levels(r['levels'], ml)        # the model lists exactly the hierarchy levels (q[0] = -inf is never a level)
                    if v == 'same' and r.get('plain') is not None:
                        v = _cmp_levels([r['plain']], [ml[-1]])
                else:
                    v = _cmp_levels(r['levels'], [ml[-1]])
                if v == 'same' and d.get('left') != '0':
                    v = 'draws-left'
                return v, d

            nr = 0; agree = 0
            tie_ok, diverged = {}, []
            for n_, o in zip(ridx, ro):
                c, r = cases[n_], results[n_]
                v, d = verdict_of(c, r, o)
                if v == 'same':
                    agree += 1
                    if c['routine'] == 'modularity_louvain_dir':
                        d6_agrees[n_] = True
                    if int(d.get('ties', '0')) > 0:
                        ck.count('replay_agree_with_exact_ties')
                        tie_ok[c['routine']] = tie_ok.get(c['routine'], 0) + 1
                else:
                    diverged.append((n_, v, o))
            # A replay that diverges is accepted only if the model, *following bct's own moves* (recorded with sys.settrace
            # from a second run of the real routine), certifies every one of them as admissible in exact arithmetic: each moved
            # node went to a maximiser of the exact gain above the threshold, each unmoved node had no gain above it.  Then
            # the only difference to the first-maximum replay is the choice among exact ties (`cert` of them); anything else
            # is a correspondence break.
            traced = pmap(_trace_task, [cases[n_] for n_, _, _ in diverged])       # every divergent run, no cap
            glines, gidx = [], []
            tstat = {n_: st for (n_, _, _), (st, _) in zip(diverged, traced)}
            for (n_, v, o), (st, moves) in zip(diverged, traced):
                c, r = cases[n_], results[n_]
                if st != 'ok':
                    continue
                glines.append(replay_line(c, r) + ' guide=' + (','.join('%d:%d:%d' % tuple(m) for m in moves) or '-')); gidx.append(n_)
            gouts = dict(zip(gidx, run_driver_par('Modularity', glines))) if glines else {}
            tie_div = {}
            for n_, v, o in diverged:
                c, r = cases[n_], results[n_]
                go = gouts.get(n_)
                gv, gd = verdict_of(c, r, go) if go is not None else ('trace failed: %s' % tstat.get(n_), {})
                if gv == 'same' and int(gd.get('cert', '0')) > 0:
                    ck.count('replay_tie_certified'); ck.count('replay_tie_certified_steps', int(gd['cert']))
                    tie_div[c['routine']] = tie_div.get(c['routine'], 0) + 1
                    agree += 1
                    if c['routine'] == 'modularity_louvain_dir':
                        d6_agrees[n_] = True
                    continue
                nr += 1
                ck.count('replay_divergence_not_certified')
                if nr <= 5:
                    ck.corr_break('Modularity replay (%s; following bct\'s moves: %s) vs bct.%s' % (v, gv, c['routine']),
                                  {'case': c, 'draws': r['draws'], 'model': o[:400], 'model_following_bct': (go or '')[:400], 'impl': r['levels'], 'plain': r.get('plain')})
            # certified ties are legitimate one by one, but a *systematic* disagreement on tied runs means that the tie-breaking
            # rule (first maximum) itself no longer matches
            for rt, dv in sorted(tie_div.items()):
                tot = dv + tie_ok.get(rt, 0)
                if dv >= 10 and dv > 0.15 * tot:
                    nr += 1
                    ck.corr_break('Modularity replay: bct.%s breaks exact ties differently from first-maximum in %d of %d tied runs' % (rt, dv, tot), {})
            ck.cov['traces_validated_against_impl'] = agree
            ck.count('corr_replay_cases', len(ro)); ck.count('corr_replay_disagreements', nr)
        except DriverError as e:
            ck.corr_break('Modularity driver', str(e))
    # D6 is accepted as a known finding only where the model of the code *as written* reproduces bct's output exactly:
    # any other misbehaviour of modularity_louvain_dir does not carry `d6_model_agrees` and stays a VIOLATION
    for n_, pred, d, cond in pending:
        cond = dict(cond)
        if d6_agrees.get(n_):
            cond['d6_model_agrees'] = True
        ck.violation('modularity_louvain_dir', pred, d, cond)
    ck.finish()
